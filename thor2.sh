#!/bin/bash
for id in C13 C14 C15 C16 C17 C18 C19 C01 C03 C06 C07 C09; do
  t0=$(date +%s); out=$(timeout 7200 ./run.sh $id thorough 2>&1); rc=$?; t1=$(date +%s)
  echo "$id thorough exit=$rc wall=$((t1-t0))s $(echo "$out" | grep -a "^$id thorough" | head -1)"
  [ $rc -ne 0 ] && echo "$out" | grep -a -A2 '^VIOLATION' | head -12
done
