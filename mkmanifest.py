#!/usr/bin/env python3
"""Regenerates MANIFEST.json from the table below (keeps it schema-valid)."""
import json
props=[json.loads(l) for l in open('/verif/properties.jsonl')]
ids=[p['id'] for p in props]

CHECKS = {
 "C01": dict(cat="exploration", tech="runtime monitor: end-to-end send/receive log comparison over real sockets, pool-poison hook",
   text="Held on every executed call: for each (compression variant x HTTP version x protocol x codec x kind) configuration and each message sequence (all words over {zero, small, threshold-straddling} up to length 4, length ladder 0..17, size ladders around 512 B / compress-min / 8 MiB) the handler-side and client-side API logs are compared elementwise with what the other side passed in, both directions, plus clean end and the un-cloned reused-holder read. Exploration, not proof: reach is the enumerated sequence shapes and configurations.",
   note="Trusts Go net/http as transport, proto.Equal, and the harness' scripted handlers; buffers poisoned on release by hook H1 (tag verif).", ref="DESIGN.md 4 C01"),
}

REASON_PENDING="check under construction (framework being built); will be claimed once its monitor exists"

m={"version":1,
   "setup_cmd":"./setup.sh",
   "hooks":{"guard":"verif","enable":"go build -tags verif (run.sh builds the harness with -tags verif against /repo via a generated -modfile)",
            "baseline_off_cmd":"cd /repo && GOFLAGS=-mod=mod GOPROXY=off GOSUMDB=off GOTOOLCHAIN=local go test -vet=off -count=1 -timeout 25m ./...",
            "source_commits":["e6c8d69"],"add_only":True},
   "engines":[{"name":"harness","path":"/verif/harness","serves_properties":sorted(CHECKS),"kind_free_text":"Go runtime-monitoring harness: scripted service + tapped net/http, canned transports, reference codec, evidence writer"}],
   "checks":[],"not_applicable":[],
   "notes":"Every command is ./run.sh <ID> <tier>; VERIF_SEED selects the PRNG stream; exit 0 held / 1 violation (VIOLATION line) / 2 broken harness."}
for i in ids:
    if i in CHECKS:
        c=CHECKS[i]
        m["checks"].append({"property_id":i,"quick_cmd":f"./run.sh {i} quick","thorough_cmd":f"./run.sh {i} thorough",
            "evidence_file":f"/verif/evidence/{i}.json","replay_cmd_template":f"./run.sh {i} --replay {{path}}","engine":"harness",
            "level_claimed":{"category":c["cat"],"text":c["text"],"design_ref":c["ref"]},"level_note":c["note"],"technique":c["tech"]})
    else:
        m["not_applicable"].append({"property_id":i,"reason":REASON_PENDING})
json.dump(m,open('/verif/MANIFEST.json','w'),indent=1)
print("checks:",len(m["checks"]),"pending:",len(m["not_applicable"]))
