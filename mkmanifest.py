#!/usr/bin/env python3
"""Regenerates MANIFEST.json from the table below (keeps it schema-valid)."""
import json
props=[json.loads(l) for l in open('/verif/properties.jsonl')]
ids=[p['id'] for p in props]

CHECKS = {
 "C01": dict(cat="exploration", tech="runtime monitor: end-to-end send/receive log comparison over real sockets, pool-poison hook",
   text="Held on every executed call: for each (compression variant x HTTP version x protocol x codec x kind) configuration and each message sequence (all words over {zero, small, threshold-straddling} up to length 4, length ladder 0..17, size ladders around 512 B / compress-min / 8 MiB) the handler-side and client-side API logs are compared elementwise with what the other side passed in, both directions, plus clean end and the un-cloned reused-holder read. Exploration, not proof: reach is the enumerated sequence shapes and configurations.",
   note="Trusts Go net/http as transport, proto.Equal, and the harness' scripted handlers; buffers poisoned on release by hook H1 (tag verif).", ref="DESIGN.md 4 C01"),
 "C02": dict(cat="exploration", tech="runtime monitor: handler-error vs client-error comparison over real sockets + HTTP tap",
   text="Held on every executed error transfer: codes 1..16 x 16 UTF-8 text classes x error source (handler *Error, plain error, interceptor before/after next) x details x metadata x messages-before-error, on every (HTTP version x protocol x codec x kind); the client's error must have the same code, byte-identical message, equal details in order, metadata containing every attached value in order, the messages sent before it, and unary Connect failures must be non-2xx at the tap. Exploration over sampled combinations (thorough enumerates details/before).",
   note="Assumes valid UTF-8 messages and HTTP-legal printable-ASCII metadata; gRPC over HTTP/1.1 trailers kept under net/http's 4 KiB trailer limit.", ref="DESIGN.md 4 C02"),
 "C03": dict(cat="exploration", tech="metamorphic runtime monitor: same bytes under every segmentation vs one-piece delivery (scripted io.Reader bodies)",
   text="Held on every executed (body, segmentation): recorded valid request and response bodies are re-delivered through scripted readers under all 2^(n-1) segmentations (bodies up to 12/14 bytes) or adversarial+random segmentations (longer), each with EOF on the last data read and on a separate read; the complete outcome (messages, error code and text, metadata; handler: received messages, error, full response) must equal the one-piece outcome, which must equal what the application supplied. Exhaustive inside the stated bound, sampled above it.",
   note="Bodies come from connect-go peers through an in-memory loopback; reads are scripted at the Body/io.Reader boundary, not inside net/http.", ref="DESIGN.md 4 C03"),
 "C04": dict(cat="fault_enumeration", tech="fault enumeration at the HTTP body/writer boundary with a per-protocol terminator model",
   text="Held on every enumerated fault: every cut offset of every recorded response and request body x {clean EOF, unexpected EOF, transport error} x HTTP trailers present/absent, failure of every j-th ResponseWriter.Write, and a client transport failing after j request-body reads. Oracle: success only if the protocol's terminator arrived; otherwise a coded error, delivered messages a prefix of those sent, handler never sees a clean end after a failed/mid-message body, failed writes surface from Send, and every call returns (watchdog).",
   note="Clean-EOF truncation of a unary Connect 200 body is excluded as indistinguishable; after an in-body terminator a later transport error may yield either completion or a coded error.", ref="DESIGN.md 4 C04"),
 "C06": dict(cat="exploration", tech="hostile-response fuzzing of the client over a canned HTTPClient with per-operation error oracle",
   text="Held on every executed crafted response: grammar-based hostile responses per protocol (adversarial grpc-status / grpc-message / details-bin, JSON error bodies without or with bad codes, end-of-stream objects, flag bytes, lying lengths, encodings, every status class), mutations of recorded valid responses and random bytes, x 3 protocols x 2 codecs x 4 kinds. Every operation's result is checked: call returns (watchdog), no panic (recover + child-process crash attribution), every error is a *connect.Error with non-zero code, non-200 without a valid protocol error maps to a code that is a function of the status (exact on the agreed subset), in-body metadata with arbitrary casing is found with canonical lookups.",
   note="Clients are built with WithReadMaxBytes(1 MiB); header maps are canonical-keyed as net/http delivers them.", ref="DESIGN.md 4 C06"),
 "C07": dict(cat="exploration", tech="hostile-request fuzzing of Handler.ServeHTTP with a recording ResponseWriter and the reference decoder as oracle",
   text="Held on every executed crafted request: grammar-based hostile requests (unsupported encodings, malformed timeouts, reserved flags, server-only frames, lying lengths, truncated / undecodable / oversize / bomb payloads), mutations of recorded valid requests (bit flips, truncation, dropped headers, method/version/content-type changes) and random bytes, x 3 protocols x 2 codecs x 4 kinds x 2 handler configurations. Oracle: no panic, returns, response well-formed for the selected protocol per the reference decoder (or a bare 405/415/505), user code at most once, messages seen by user code are a prefix of the reference-decoded valid prefix, unknown compression => unimplemented naming the algorithms without running user code, malformed timeout => invalid_argument without running user code, malformed framing / undecodable / oversize never answered with success.",
   note="Handlers use WithReadMaxBytes(1 MiB); a zero-length JSON envelope is read as the zero message (the library's documented reading).", ref="DESIGN.md 4 C07"),
 "C08": dict(cat="exploration", tech="runtime monitor: negotiation model over recorded headers/flags/payloads + instrumented (de)compressors + corrupt/valid call histories on shared pools",
   text="Held on every executed negotiation and history: ordered subsets of a 4-algorithm universe registered on each side (gzip re-registered at different positions), send-compression choice, compress-min on each side, message sizes min-1/min/min+1, 3 protocols x 2 codecs x 4 kinds through an in-memory loopback whose headers, flags and payload bytes are checked against a negotiation model (advertised list == registrations last-first; unsupported request encoding => unimplemented listing the handler's algorithms without user code; response algorithm supported by the handler and used-or-advertised by the client, equal to the client's first mutual preference; below-min messages uncompressed; every compressed payload decompresses with the reference implementation to the message passed in). Isolation: histories of corrupt and valid compressed calls over real sockets on one handler set and one client set - sequential with GOMAXPROCS=1 and concurrent bursts with GC off - every corrupt call yields a coded error and every valid call succeeds with its own payload.",
   note="Universe is gzip plus three trivially invertible test algorithms with magic bytes; their Compressor/Decompressor objects assert Reset..Close discipline and single ownership.", ref="DESIGN.md 4 C08"),
 "C09": dict(cat="exploration", tech="runtime monitor: delivered-iff-within-limit oracle over exact encoded sizes + TotalAlloc measurement of single hostile messages",
   text="Held on every executed case: N in {2,10,100,1000,64Ki,128Ki} x exact encoded sizes N-1/N/N+1/10N x identity/gzip (wire and decompressed size classes) x position in a 3-message stream x 3 protocols x 4 kinds x handler-side and client-side limits: a message is delivered iff its encoded size (wire and decompressed) is <= N, the failing call carries invalid_argument (resource_exhausted accepted), earlier messages are delivered and later ones are not. Hostile single messages (lying prefixes, 32 MiB envelopes with reserved flags, 64/256 MiB gzip bombs) are processed alone on one goroutine and runtime.MemStats.TotalAlloc must stay under 16N + 3 MiB.",
   note="raw <= N < compressed wire size is either-outcome; a terminator frame larger than a tiny N is not judged (not a message); allocation bound has 3 MiB slack for gzip reader state.", ref="DESIGN.md 4 C09"),
}

REASON_PENDING="check under construction (framework being built); will be claimed once its monitor exists"

m={"version":1,
   "setup_cmd":"./setup.sh",
   "hooks":{"guard":"verif","enable":"go build -tags verif (run.sh builds the harness with -tags verif against /repo via a generated -modfile)",
            "baseline_off_cmd":"cd /repo && GOFLAGS=-mod=mod GOPROXY=off GOSUMDB=off GOTOOLCHAIN=local go test -vet=off -count=1 -timeout 25m ./...",
            "source_commits":["e6c8d69"],"add_only":True},
   "engines":[{"name":"harness","path":"/verif/harness","serves_properties":sorted(CHECKS),"kind_free_text":"Go runtime-monitoring harness: scripted service + tapped net/http, canned transports, reference codec, evidence writer"}],
   "checks":[],"not_applicable":[],
   "notes":"Every command is ./run.sh <ID> <tier>; VERIF_SEED selects the PRNG stream; exit 0 held / 1 violation (VIOLATION line) / 2 broken harness."}
for i in ids:
    if i in CHECKS:
        c=CHECKS[i]
        m["checks"].append({"property_id":i,"quick_cmd":f"./run.sh {i} quick","thorough_cmd":f"./run.sh {i} thorough",
            "evidence_file":f"/verif/evidence/{i}.json","replay_cmd_template":f"./run.sh {i} --replay {{path}}","engine":"harness",
            "level_claimed":{"category":c["cat"],"text":c["text"],"design_ref":c["ref"]},"level_note":c["note"],"technique":c["tech"]})
    else:
        m["not_applicable"].append({"property_id":i,"reason":REASON_PENDING})
json.dump(m,open('/verif/MANIFEST.json','w'),indent=1)
print("checks:",len(m["checks"]),"pending:",len(m["not_applicable"]))
