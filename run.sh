#!/bin/bash
# Entry point of every MANIFEST command:  ./run.sh <ID> quick|thorough
#                                         ./run.sh <ID> --replay <file>
# Rebuilds the harness against $VERIF_REPO (default /repo) with -tags verif and
# runs the property's monitor workload. Exit 0 held / 1 violation / 2 broken.
set -u
HERE="$(cd "$(dirname "$0")" && pwd)"
export GOFLAGS=-mod=mod GOPROXY=off GOSUMDB=off GOTOOLCHAIN=local
export VERIF_DIR="$HERE"
export VERIF_OUT="${VERIF_OUT:-$HERE}"
REPO="${VERIF_REPO:-/repo}"
export VERIF_REPO="$REPO"
ID="${1:-}"; TIER="${2:-quick}"
if [ -z "$ID" ]; then echo "usage: $0 <ID> quick|thorough | <ID> --replay <file>" >&2; exit 2; fi
if [ "$TIER" = "--replay" ]; then
  FILE="${3:-}"
  [ -f "$FILE" ] || { echo "no such replay file: $FILE" >&2; exit 2; }
  export VERIF_REPLAY_KEY="$(jq -r .key "$FILE")"
  export VERIF_SEED="$(jq -r .seed "$FILE")"
  TIER="$(jq -r .tier "$FILE")"
fi
case "$TIER" in quick|thorough) ;; *) echo "tier must be quick or thorough" >&2; exit 2;; esac
export VERIF_TIER="$TIER"
export VERIF_SEED="${VERIF_SEED:-1}"
mkdir -p "$VERIF_OUT/evidence" "$VERIF_OUT/replays" "$VERIF_OUT/logs" "$HERE/bin"

# Properties with a dedicated driver script.
if [ -x "$HERE/drivers/$ID.sh" ]; then
  exec "$HERE/drivers/$ID.sh" "$TIER"
fi

TAG="$(printf '%s' "$REPO" | cksum | cut -d' ' -f1)"
MODFILE="$HERE/harness/go.verif.$TAG.mod"
TMP="$(mktemp "$HERE/harness/.modtmp.XXXXXX")"
sed "s#=> /repo#=> $REPO#" "$HERE/harness/go.mod" > "$TMP" && mv "$TMP" "$MODFILE"
cp "$HERE/harness/go.sum" "$HERE/harness/go.verif.$TAG.sum" 2>/dev/null || true

# In-package monitors (identifiers pinned by the repository's own tests),
# injected with -overlay so that the repository is never written.
export VERIF_INPKG_RESULT=""
LOWER="$(printf '%s' "$ID" | tr 'A-Z' 'a-z')"
if [ -f "$HERE/inpkg/${LOWER}_inpkg_test.go" ] && [ -z "${VERIF_REPLAY_KEY:-}" ]; then
  OV="$(mktemp "${TMPDIR:-/var/tmp}/verif-ov.XXXXXX")"
  export VERIF_INPKG_OUT="$VERIF_OUT/logs/$ID.inpkg.json"
  rm -f "$VERIF_INPKG_OUT"
  printf '{"Replace":{"%s/zz_verif_common_test.go":"%s/inpkg/common_inpkg_test.go","%s/zz_verif_%s_test.go":"%s/inpkg/%s_inpkg_test.go"}}' \
     "$REPO" "$HERE" "$REPO" "$LOWER" "$HERE" "$LOWER" > "$OV"
  ( cd "$REPO" && go test -tags verif -vet=off -overlay "$OV" -count=1 -timeout 30m -run "^TestVerif$ID\$" . ) > "$VERIF_OUT/logs/$ID.inpkg.log" 2>&1
  rm -f "$OV"
  if [ -f "$VERIF_INPKG_OUT" ]; then export VERIF_INPKG_RESULT="$VERIF_INPKG_OUT"; else echo "in-package monitor for $ID did not produce a result (see $VERIF_OUT/logs/$ID.inpkg.log): counted inconclusive" >&2; fi
fi

# Optional third-party oracle for C05: grpc-go v1.38.0 from the module cache,
# in its own module so that a cache miss cannot break the main harness.
export VERIF_INTEROP_RESULT=""
if [ "$ID" = "C05" ] && [ -z "${VERIF_REPLAY_KEY:-}" ]; then
  IMOD="$HERE/interop/go.verif.$TAG.mod"
  sed "s#=> /repo#=> $REPO#" "$HERE/interop/go.mod" > "$IMOD.tmp.$$" && mv "$IMOD.tmp.$$" "$IMOD"
  cp "$HERE/interop/go.sum" "$HERE/interop/go.verif.$TAG.sum" 2>/dev/null || true
  IOUT="$VERIF_OUT/logs/C05.interop.json"; rm -f "$IOUT"
  if ( cd "$HERE/interop" && go build -tags verif -modfile="$IMOD" -o "$HERE/bin/interop.$TAG.$$" . ) > "$VERIF_OUT/logs/C05.interop.log" 2>&1; then
    mv "$HERE/bin/interop.$TAG.$$" "$HERE/bin/interop.$TAG"
    VERIF_INTEROP_OUT="$IOUT" timeout 600 "$HERE/bin/interop.$TAG" >> "$VERIF_OUT/logs/C05.interop.log" 2>&1
    [ -f "$IOUT" ] && export VERIF_INTEROP_RESULT="$IOUT"
  else
    rm -f "$HERE/bin/interop.$TAG.$$"
    echo "grpc-go interop module did not build (see $VERIF_OUT/logs/C05.interop.log): counted inconclusive" >&2
  fi
fi

RACE=""
case "$ID" in C13) RACE="-race";; esac
# Thorough runs are built with coverage instrumentation of the library so that
# the evidence can state which share of its statements the workload executed
# (evidence only, never a verdict).
COVER=""; COVDIR=""
if [ "$TIER" = "thorough" ] && [ -z "${VERIF_REPLAY_KEY:-}" ]; then
  COVER="-cover -coverpkg=github.com/bufbuild/connect-go,verif.local/harness/cmd/check"
  COVDIR="$VERIF_OUT/logs/cover.$ID"; rm -rf "$COVDIR"; mkdir -p "$COVDIR"
  export GOCOVERDIR="$COVDIR"
fi
BIN="$HERE/bin/check.$TAG${RACE:+.race}${COVER:+.cover}"
build() { ( cd "$HERE/harness" && go build $RACE $COVER -tags verif -modfile="$MODFILE" -o "$BIN.$$" ./cmd/check && mv "$BIN.$$" "$BIN" ); }
# (one retry: a build can fail transiently when other Go builds on the machine
# are rewriting the shared build cache at the same moment)
build || { sleep 3; sed "s#=> /repo#=> $REPO#" "$HERE/harness/go.mod" > "$MODFILE.tmp.$$" && mv "$MODFILE.tmp.$$" "$MODFILE"; build; } || {
  echo "harness build failed against $REPO" >&2; rm -f "$BIN.$$"; exit 2; }
"$BIN" "$ID" "$TIER"
RC=$?
if [ -n "$COVDIR" ] && [ -f "$VERIF_OUT/evidence/$ID.json" ]; then
  PCT="$(go tool covdata percent -i="$COVDIR" 2>/dev/null | grep 'bufbuild/connect-go[[:space:]]' | sed -E 's/.*coverage: ([0-9.]+)%.*/\1/' | head -1)"
  if [ -n "$PCT" ]; then
    FUNCS="$(go tool covdata func -i="$COVDIR" 2>/dev/null | grep 'bufbuild/connect-go/[a-z_]*\.go' | awk '{f=$1; sub(/:.*/,"",f); sub(/.*\//,"",f); p=$NF; sub(/%/,"",p); s[f]+=p; n[f]++} END {for (f in s) printf "%s=%.0f ", f, s[f]/n[f]}')"
    TMPJ="$(mktemp)"
    jq --arg pct "$PCT" --arg funcs "$FUNCS" '.coverage.library_statement_coverage_percent = ($pct|tonumber) | .coverage.library_mean_function_coverage_by_file = $funcs' "$VERIF_OUT/evidence/$ID.json" > "$TMPJ" && mv "$TMPJ" "$VERIF_OUT/evidence/$ID.json"
  fi
  rm -rf "$COVDIR"
fi
exit $RC
