#!/usr/bin/env python3
"""Validate MANIFEST.json and evidence/*.json against the schemas (python3-vt has jsonschema)."""
import json, sys, glob, jsonschema
ok = True
def check(path, schema):
    global ok
    try:
        jsonschema.validate(json.load(open(path)), json.load(open(schema)))
        print("valid  ", path)
    except Exception as e:
        ok = False
        print("INVALID", path, str(e)[:300])
check('/verif/MANIFEST.json', '/root/.vp/MANIFEST.schema.json')
for f in sorted(glob.glob('/verif/evidence/*.json')):
    check(f, '/root/.vp/EVIDENCE.schema.json')
sys.exit(0 if ok else 1)
