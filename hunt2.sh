#!/bin/bash
# hunt2.sh <seeds...>: thorough runs of every check at the given seeds.
for seed in "$@"; do
  for id in $(jq -r '.checks[].property_id' MANIFEST.json); do
    t0=$(date +%s); out=$(VERIF_SEED=$seed timeout 7200 ./run.sh $id thorough 2>&1); rc=$?; t1=$(date +%s)
    echo "seed=$seed $id thorough exit=$rc wall=$((t1-t0))s $(echo "$out" | grep -a "^$id thorough" | head -1)"
    [ $rc -ne 0 ] && echo "$out" | grep -a -A2 '^VIOLATION\|KNOWN' | cut -c1-300 | head -16
  done
done
