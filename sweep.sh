#!/bin/bash
# sweep.sh <tier> [seed...]: runs every registered check once per seed, prints one line each.
HERE="$(cd "$(dirname "$0")" && pwd)"
TIER="${1:-quick}"; shift
SEEDS="${*:-1}"
BAD=0
for seed in $SEEDS; do
  for id in $(jq -r '.checks[].property_id' "$HERE/MANIFEST.json"); do
    t0=$(date +%s)
    out=$(VERIF_SEED=$seed timeout 7200 "$HERE/run.sh" "$id" "$TIER" 2>&1); rc=$?
    t1=$(date +%s)
    echo "seed=$seed $id $TIER exit=$rc wall=$((t1-t0))s $(echo "$out" | grep -a -c '^VIOLATION') violations; $(echo "$out" | grep -a "^$id $TIER" | head -1)"
    [ $rc -ne 0 ] && BAD=1 && echo "$out" | grep -a -A2 '^VIOLATION' | head -12
    [ $rc -ne 0 ] && [ $rc -ne 1 ] && echo "$out" | tail -8 | cut -c1-300
  done
done
exit $BAD
