// Package refcodec is an independent reference implementation of the wire
// formats of the Connect, gRPC and gRPC-Web protocols, written from the
// protocol specifications. It imports nothing from connect-go.
package refcodec

import (
	"bytes"
	"compress/gzip"
	"encoding/base64"
	"encoding/binary"
	"encoding/json"
	"errors"
	"fmt"
	"io"
	"net/http"
	"sort"
	"strconv"
	"strings"
	"unicode/utf8"

	"google.golang.org/protobuf/encoding/protojson"
	"google.golang.org/protobuf/encoding/protowire"
	"google.golang.org/protobuf/types/known/anypb"
)

// Protocol names.
const (
	Connect = "connect"
	GRPC    = "grpc"
	GRPCWeb = "grpcweb"
)

// Envelope flags.
const (
	FlagCompressed = 0x01
	FlagEndStream  = 0x02 // Connect
	FlagTrailer    = 0x80 // gRPC-Web
)

// Frame is one enveloped message.
type Frame struct {
	Flags   byte
	Payload []byte
}

// AppendFrame appends flags|len|payload.
func AppendFrame(dst []byte, flags byte, payload []byte) []byte {
	var p [5]byte
	p[0] = flags
	binary.BigEndian.PutUint32(p[1:], uint32(len(payload)))
	dst = append(dst, p[:]...)
	return append(dst, payload...)
}

// ParseFrames splits body into complete frames. rest holds trailing bytes
// that do not form a complete frame (nil when the body is a whole number of
// frames).
func ParseFrames(body []byte) (frames []Frame, rest []byte) {
	for len(body) > 0 {
		if len(body) < 5 {
			return frames, body
		}
		n := int(binary.BigEndian.Uint32(body[1:5]))
		if len(body)-5 < n {
			return frames, body
		}
		frames = append(frames, Frame{Flags: body[0], Payload: body[5 : 5+n]})
		body = body[5+n:]
	}
	return frames, nil
}

// ---------------------------------------------------------------------------
// Codes.

var codeNames = []string{"", "canceled", "unknown", "invalid_argument", "deadline_exceeded", "not_found",
	"already_exists", "permission_denied", "resource_exhausted", "failed_precondition", "aborted",
	"out_of_range", "unimplemented", "internal", "unavailable", "data_loss", "unauthenticated"}

// CodeName returns the Connect name of a code (code_N outside 1..16).
func CodeName(c uint32) string {
	if c >= 1 && c <= 16 {
		return codeNames[c]
	}
	return "code_" + strconv.FormatUint(uint64(c), 10)
}

// CodeFromName maps a defined Connect code name to its number.
func CodeFromName(s string) (uint32, bool) {
	for i := 1; i <= 16; i++ {
		if codeNames[i] == s {
			return uint32(i), true
		}
	}
	return 0, false
}

// ConnectHTTPStatus is the Connect code -> HTTP status table of the protocol
// version implemented by this tree.
func ConnectHTTPStatus(code uint32) int {
	switch code {
	case 1:
		return 408
	case 2:
		return 500
	case 3:
		return 400
	case 4:
		return 408
	case 5:
		return 404
	case 6:
		return 409
	case 7:
		return 403
	case 8:
		return 429
	case 9:
		return 412
	case 10:
		return 409
	case 11:
		return 400
	case 12:
		return 404
	case 13:
		return 500
	case 14:
		return 503
	case 15:
		return 500
	case 16:
		return 401
	}
	return 500
}

// ---------------------------------------------------------------------------
// grpc-message percent-encoding.

// PercentEncode escapes bytes outside 0x20..0x7E and '%' as %XX (upper hex).
func PercentEncode(s string) string {
	var b strings.Builder
	for i := 0; i < len(s); i++ {
		c := s[i]
		if c < 0x20 || c > 0x7e || c == '%' {
			fmt.Fprintf(&b, "%%%02X", c)
		} else {
			b.WriteByte(c)
		}
	}
	return b.String()
}

// PercentDecode is the tolerant decoder: valid %XX escapes (either hex case)
// are decoded, anything else is passed through.
func PercentDecode(s string) string {
	var b strings.Builder
	for i := 0; i < len(s); i++ {
		if s[i] == '%' && i+2 < len(s)+0 && i+2 <= len(s)-1 {
			if v, err := strconv.ParseUint(s[i+1:i+3], 16, 8); err == nil {
				b.WriteByte(byte(v))
				i += 2
				continue
			}
		}
		b.WriteByte(s[i])
	}
	return b.String()
}

// IsPrintableASCII reports whether every byte is in 0x20..0x7E.
func IsPrintableASCII(s string) bool {
	for i := 0; i < len(s); i++ {
		if s[i] < 0x20 || s[i] > 0x7e {
			return false
		}
	}
	return true
}

// ---------------------------------------------------------------------------
// Binary metadata.

// B64Encode is the writers' form (unpadded).
func B64Encode(b []byte) string { return base64.RawStdEncoding.EncodeToString(b) }

// B64EncodePadded is the padded form readers must accept too.
func B64EncodePadded(b []byte) string { return base64.StdEncoding.EncodeToString(b) }

// B64Decode accepts padded and unpadded input.
func B64Decode(s string) ([]byte, error) {
	s = strings.TrimRight(s, "=")
	return base64.RawStdEncoding.DecodeString(s)
}

// ---------------------------------------------------------------------------
// google.rpc.Status, by hand on the protobuf wire format.

// Any is a google.protobuf.Any.
type Any struct {
	TypeURL string
	Value   []byte
}

// Status is a google.rpc.Status.
type Status struct {
	Code    int32
	Message string
	Details []Any
}

// Marshal encodes the status.
func (s Status) Marshal() []byte {
	var b []byte
	if s.Code != 0 {
		b = protowire.AppendTag(b, 1, protowire.VarintType)
		b = protowire.AppendVarint(b, uint64(int64(s.Code)))
	}
	if s.Message != "" {
		b = protowire.AppendTag(b, 2, protowire.BytesType)
		b = protowire.AppendString(b, s.Message)
	}
	for _, d := range s.Details {
		var a []byte
		if d.TypeURL != "" {
			a = protowire.AppendTag(a, 1, protowire.BytesType)
			a = protowire.AppendString(a, d.TypeURL)
		}
		if len(d.Value) > 0 {
			a = protowire.AppendTag(a, 2, protowire.BytesType)
			a = protowire.AppendBytes(a, d.Value)
		}
		b = protowire.AppendTag(b, 3, protowire.BytesType)
		b = protowire.AppendBytes(b, a)
	}
	return b
}

// ParseStatus decodes a google.rpc.Status.
func ParseStatus(b []byte) (Status, error) {
	var s Status
	for len(b) > 0 {
		num, typ, n := protowire.ConsumeTag(b)
		if n < 0 {
			return s, errors.New("status: bad tag")
		}
		b = b[n:]
		switch {
		case num == 1 && typ == protowire.VarintType:
			v, n := protowire.ConsumeVarint(b)
			if n < 0 {
				return s, errors.New("status: bad code")
			}
			s.Code = int32(v)
			b = b[n:]
		case num == 2 && typ == protowire.BytesType:
			v, n := protowire.ConsumeBytes(b)
			if n < 0 {
				return s, errors.New("status: bad message")
			}
			s.Message = string(v)
			b = b[n:]
		case num == 3 && typ == protowire.BytesType:
			v, n := protowire.ConsumeBytes(b)
			if n < 0 {
				return s, errors.New("status: bad detail")
			}
			b = b[n:]
			var a Any
			for len(v) > 0 {
				num, typ, n := protowire.ConsumeTag(v)
				if n < 0 {
					return s, errors.New("any: bad tag")
				}
				v = v[n:]
				if typ != protowire.BytesType {
					n := protowire.ConsumeFieldValue(num, typ, v)
					if n < 0 {
						return s, errors.New("any: bad field")
					}
					v = v[n:]
					continue
				}
				f, n := protowire.ConsumeBytes(v)
				if n < 0 {
					return s, errors.New("any: bad bytes")
				}
				v = v[n:]
				if num == 1 {
					a.TypeURL = string(f)
				} else if num == 2 {
					a.Value = append([]byte(nil), f...)
				}
			}
			s.Details = append(s.Details, a)
		default:
			n := protowire.ConsumeFieldValue(num, typ, b)
			if n < 0 {
				return s, errors.New("status: bad field")
			}
			b = b[n:]
		}
	}
	return s, nil
}

// ---------------------------------------------------------------------------
// Compression.

// Decompressor inverts one named algorithm.
type Decompressor func([]byte) ([]byte, error)

// Compressors known to the reference codec, by name.
type Algos map[string]struct {
	Compress   func([]byte) []byte
	Decompress Decompressor
}

// Gzip is the reference gzip.
func GzipCompress(b []byte) []byte {
	var buf bytes.Buffer
	w := gzip.NewWriter(&buf)
	_, _ = w.Write(b)
	_ = w.Close()
	return buf.Bytes()
}

// GzipDecompress inflates a gzip member.
func GzipDecompress(b []byte) ([]byte, error) {
	r, err := gzip.NewReader(bytes.NewReader(b))
	if err != nil {
		return nil, err
	}
	return io.ReadAll(r)
}

// DefaultAlgos has gzip only.
func DefaultAlgos() Algos {
	return Algos{"gzip": {Compress: GzipCompress, Decompress: GzipDecompress}}
}

// ---------------------------------------------------------------------------
// Decoded exchange.

// WireError is a protocol-level error as decoded from the wire.
type WireError struct {
	Code    uint32
	Message string
	Details []Any
}

// Decoded is what a strictly spec-following peer extracts from a response
// or request.
type Decoded struct {
	Messages   [][]byte // codec-encoded, decompressed
	Compressed []bool
	Err        *WireError
	Header     http.Header // leading metadata
	Trailer    http.Header // trailing metadata
	Encoding   string
	Complete   bool     // terminator present
	Problems   []string // deviations from the specification
	TrailersOnly bool
}

func (d *Decoded) problem(f string, a ...any) { d.Problems = append(d.Problems, fmt.Sprintf(f, a...)) }

var reservedPrefixes = []string{"Grpc-", "Connect-", "Content-", "Accept-Encoding", "Trailer", "Te", "Date", "User-Agent", "Host", "Transfer-Encoding", "Connection", "Accept-Post", "Allow"}

// IsReserved reports whether a canonical header key belongs to HTTP or the
// protocols rather than to the application.
func IsReserved(k string) bool {
	for _, p := range reservedPrefixes {
		if strings.HasPrefix(k, p) {
			return true
		}
	}
	return false
}

func canon(h http.Header) http.Header {
	out := make(http.Header, len(h))
	for k, v := range h {
		ck := http.CanonicalHeaderKey(k)
		out[ck] = append(out[ck], v...)
	}
	return out
}

func (d *Decoded) payload(algos Algos, flags byte, p []byte) ([]byte, bool) {
	if flags&FlagCompressed == 0 {
		return p, true
	}
	if d.Encoding == "" || d.Encoding == "identity" {
		d.problem("message flagged compressed but the encoding header names no algorithm")
		return nil, false
	}
	a, ok := algos[d.Encoding]
	if !ok {
		d.problem("unknown encoding %q", d.Encoding)
		return nil, false
	}
	out, err := a.Decompress(p)
	if err != nil {
		d.problem("payload does not decompress with %s: %v", d.Encoding, err)
		return nil, false
	}
	return out, true
}

// ParseWebTrailers parses a gRPC-Web trailer frame payload (HTTP/1 header
// block, names case-insensitive, CRLF or LF, no terminating blank line needed).
func ParseWebTrailers(p []byte) (http.Header, error) {
	h := make(http.Header)
	for _, line := range strings.Split(string(p), "\n") {
		line = strings.TrimRight(line, "\r")
		if line == "" {
			continue
		}
		i := strings.IndexByte(line, ':')
		if i <= 0 {
			return nil, fmt.Errorf("bad trailer line %q", line)
		}
		k := http.CanonicalHeaderKey(strings.TrimSpace(line[:i]))
		h[k] = append(h[k], strings.TrimSpace(line[i+1:]))
	}
	return h, nil
}

// GRPCStatusFrom extracts status, message, details from gRPC trailing
// metadata. present=false when there is no grpc-status at all.
func GRPCStatusFrom(d *Decoded, t http.Header) (present bool, werr *WireError) {
	vals := t.Values("Grpc-Status")
	if len(vals) == 0 {
		return false, nil
	}
	if len(vals) != 1 {
		d.problem("%d grpc-status values", len(vals))
	}
	n, err := strconv.ParseUint(vals[0], 10, 32)
	if err != nil {
		d.problem("grpc-status %q is not a decimal number", vals[0])
		return true, &WireError{Code: 2}
	}
	rawMsg := t.Get("Grpc-Message")
	if !IsPrintableASCII(rawMsg) {
		d.problem("grpc-message contains bytes outside printable ASCII: %q", rawMsg)
	}
	msg := PercentDecode(rawMsg)
	var details []Any
	if bin := t.Get("Grpc-Status-Details-Bin"); bin != "" {
		raw, err := B64Decode(bin)
		if err != nil {
			d.problem("grpc-status-details-bin is not base64: %v", err)
		} else if st, err := ParseStatus(raw); err != nil {
			d.problem("grpc-status-details-bin is not a google.rpc.Status: %v", err)
		} else {
			if uint32(st.Code) != uint32(n) {
				d.problem("grpc-status %d disagrees with status proto code %d", n, st.Code)
			}
			// HTTP strips optional whitespace around field values, so edge blanks
			// of grpc-message cannot survive a header block; the status proto is
			// authoritative for them.
			if strings.TrimSpace(st.Message) != strings.TrimSpace(msg) {
				d.problem("grpc-message %q disagrees with status proto message %q", msg, st.Message)
			}
			details = st.Details
			msg = st.Message // the status proto is authoritative when present
		}
	}
	if n == 0 {
		return true, nil
	}
	return true, &WireError{Code: uint32(n), Message: msg, Details: details}
}

func splitMeta(h http.Header) http.Header {
	out := make(http.Header)
	for k, v := range h {
		if IsReserved(k) {
			continue
		}
		out[k] = append([]string(nil), v...)
	}
	return out
}

// connectErrorJSON is the Connect error object.
type connectErrorJSON struct {
	Code    *string           `json:"code"`
	Message *string           `json:"message"`
	Details []json.RawMessage `json:"details"`
}

func (d *Decoded) connectError(raw []byte, where string) *WireError {
	var e connectErrorJSON
	if err := json.Unmarshal(raw, &e); err != nil {
		d.problem("%s: error is not a JSON object: %v", where, err)
		return &WireError{Code: 2}
	}
	w := &WireError{Code: 2}
	if e.Code == nil {
		d.problem("%s: error without code", where)
	} else if c, ok := CodeFromName(*e.Code); ok {
		w.Code = c
	} else if strings.HasPrefix(*e.Code, "code_") {
		n, err := strconv.ParseUint(strings.TrimPrefix(*e.Code, "code_"), 10, 32)
		if err != nil {
			d.problem("%s: bad code %q", where, *e.Code)
		}
		w.Code = uint32(n)
	} else {
		d.problem("%s: unknown code name %q", where, *e.Code)
	}
	if e.Message != nil {
		w.Message = *e.Message
	}
	for _, raw := range e.Details {
		var a anypb.Any
		if err := protojson.Unmarshal(raw, &a); err != nil {
			d.problem("%s: detail is not a proto-JSON Any: %v", where, err)
			continue
		}
		w.Details = append(w.Details, Any{TypeURL: a.TypeUrl, Value: a.Value})
	}
	return w
}

// DecodeResponse decodes a complete HTTP response of the given protocol.
// streaming selects the Connect flavour (unary vs streaming content types).
func DecodeResponse(protocol string, streaming bool, status int, header http.Header, body []byte, trailer http.Header, algos Algos) *Decoded {
	d := &Decoded{Header: make(http.Header), Trailer: make(http.Header)}
	header = canon(header)
	trailer = canon(trailer)
	switch protocol {
	case Connect:
		if !streaming {
			decodeConnectUnary(d, status, header, body, algos)
		} else {
			decodeConnectStream(d, status, header, body, algos)
		}
	case GRPC, GRPCWeb:
		decodeGRPC(d, protocol == GRPCWeb, status, header, body, trailer, algos)
	}
	return d
}

func decodeConnectUnary(d *Decoded, status int, header http.Header, body []byte, algos Algos) {
	for k, v := range header {
		if strings.HasPrefix(k, "Trailer-") {
			d.Trailer[strings.TrimPrefix(k, "Trailer-")] = append([]string(nil), v...)
		}
	}
	for k, v := range splitMeta(header) {
		d.Header[k] = v
	}
	d.Encoding = header.Get("Content-Encoding")
	if status != 200 {
		ct := header.Get("Content-Type")
		if ct != "application/json" {
			d.problem("unary error with Content-Type %q", ct)
		}
		raw := body
		if d.Encoding != "" && d.Encoding != "identity" {
			if p, ok := d.payload(algos, FlagCompressed, body); ok {
				raw = p
			}
		}
		d.Err = d.connectError(raw, "unary body")
		if d.Err.Code >= 1 && d.Err.Code <= 16 && ConnectHTTPStatus(d.Err.Code) != status {
			d.problem("code %s sent under HTTP %d, table says %d", CodeName(d.Err.Code), status, ConnectHTTPStatus(d.Err.Code))
		}
		d.Complete = true
		return
	}
	d.Complete = true
	p := body
	compressed := d.Encoding != "" && d.Encoding != "identity"
	if compressed && len(body) > 0 {
		var ok bool
		p, ok = d.payload(algos, FlagCompressed, body)
		if !ok {
			return
		}
	}
	d.Messages = append(d.Messages, p)
	d.Compressed = append(d.Compressed, compressed)
}

type endStreamJSON struct {
	Error    json.RawMessage     `json:"error"`
	Metadata map[string][]string `json:"metadata"`
}

func decodeConnectStream(d *Decoded, status int, header http.Header, body []byte, algos Algos) {
	if status != 200 {
		d.problem("Connect streaming response with HTTP %d", status)
	}
	for k, v := range splitMeta(header) {
		d.Header[k] = v
	}
	d.Encoding = header.Get("Connect-Content-Encoding")
	frames, rest := ParseFrames(body)
	if rest != nil {
		d.problem("%d trailing bytes do not form a frame", len(rest))
	}
	ends := 0
	for i, f := range frames {
		if f.Flags&^(FlagCompressed|FlagEndStream) != 0 {
			d.problem("frame %d has unknown flag bits %#x", i, f.Flags)
			continue
		}
		if f.Flags&FlagEndStream != 0 {
			ends++
			if i != len(frames)-1 {
				d.problem("end-of-stream frame %d is not last", i)
			}
			p, ok := d.payload(algos, f.Flags&FlagCompressed, f.Payload)
			if !ok {
				continue
			}
			var e endStreamJSON
			if err := json.Unmarshal(p, &e); err != nil {
				d.problem("end-of-stream payload is not JSON: %v", err)
				continue
			}
			for k, v := range e.Metadata {
				ck := http.CanonicalHeaderKey(k)
				d.Trailer[ck] = append(d.Trailer[ck], v...)
			}
			if len(e.Error) > 0 && string(e.Error) != "null" {
				d.Err = d.connectError(e.Error, "end-of-stream")
			}
			d.Complete = true
			continue
		}
		if ends > 0 {
			d.problem("data frame %d after end-of-stream", i)
		}
		p, ok := d.payload(algos, f.Flags, f.Payload)
		if !ok {
			continue
		}
		d.Messages = append(d.Messages, p)
		d.Compressed = append(d.Compressed, f.Flags&FlagCompressed != 0)
	}
	if ends != 1 {
		d.problem("%d end-of-stream frames", ends)
	}
}

func decodeGRPC(d *Decoded, web bool, status int, header http.Header, body []byte, trailer http.Header, algos Algos) {
	if status != 200 {
		d.problem("gRPC response with HTTP %d", status)
	}
	d.Encoding = header.Get("Grpc-Encoding")
	frames, rest := ParseFrames(body)
	if rest != nil {
		d.problem("%d trailing bytes do not form a frame", len(rest))
	}
	var trailers http.Header
	statusCount := len(header.Values("Grpc-Status"))
	if web {
		for i, f := range frames {
			if f.Flags&FlagTrailer != 0 {
				if i != len(frames)-1 {
					d.problem("trailer frame %d is not last", i)
				}
				p, ok := d.payload(algos, f.Flags&FlagCompressed, f.Payload)
				if !ok {
					continue
				}
				t, err := ParseWebTrailers(p)
				if err != nil {
					d.problem("trailer frame: %v", err)
					continue
				}
				if trailers != nil {
					d.problem("second trailer frame")
				}
				trailers = t
				statusCount += len(t.Values("Grpc-Status"))
			}
		}
		if len(trailer.Values("Grpc-Status")) > 0 {
			d.problem("gRPC-Web response uses HTTP trailers")
		}
	} else {
		trailers = trailer
		statusCount += len(trailer.Values("Grpc-Status"))
	}
	if trailers == nil || len(trailers.Values("Grpc-Status")) == 0 {
		// Trailers-only: status in the headers, no body.
		if len(header.Values("Grpc-Status")) > 0 {
			if len(body) != 0 {
				d.problem("grpc-status in headers but the body is not empty")
			}
			d.TrailersOnly = true
			trailers = header
		}
	}
	if statusCount != 1 {
		d.problem("%d grpc-status values in the response", statusCount)
	}
	for _, f := range frames {
		if f.Flags&FlagTrailer != 0 && web {
			continue
		}
		if f.Flags&^FlagCompressed != 0 {
			d.problem("data frame with flag bits %#x", f.Flags)
			continue
		}
		p, ok := d.payload(algos, f.Flags, f.Payload)
		if !ok {
			continue
		}
		d.Messages = append(d.Messages, p)
		d.Compressed = append(d.Compressed, f.Flags&FlagCompressed != 0)
	}
	if trailers != nil {
		present, werr := GRPCStatusFrom(d, trailers)
		d.Complete = present
		d.Err = werr
		if d.TrailersOnly {
			for k, v := range splitMeta(trailers) {
				d.Trailer[k] = v
			}
		} else {
			for k, v := range splitMeta(header) {
				d.Header[k] = v
			}
			for k, v := range splitMeta(trailers) {
				d.Trailer[k] = v
			}
		}
	} else {
		for k, v := range splitMeta(header) {
			d.Header[k] = v
		}
	}
}

// DecodeRequestBody decodes a request body of the given protocol.
func DecodeRequestBody(protocol string, streaming bool, header http.Header, body []byte, algos Algos) *Decoded {
	d := &Decoded{Header: splitMeta(canon(header)), Trailer: make(http.Header)}
	header = canon(header)
	if protocol == Connect && !streaming {
		d.Encoding = header.Get("Content-Encoding")
		p := body
		compressed := d.Encoding != "" && d.Encoding != "identity"
		if compressed && len(body) > 0 {
			var ok bool
			if p, ok = d.payload(algos, FlagCompressed, body); !ok {
				return d
			}
		}
		d.Messages = append(d.Messages, p)
		d.Compressed = append(d.Compressed, compressed)
		d.Complete = true
		return d
	}
	if protocol == Connect {
		d.Encoding = header.Get("Connect-Content-Encoding")
	} else {
		d.Encoding = header.Get("Grpc-Encoding")
	}
	frames, rest := ParseFrames(body)
	if rest != nil {
		d.problem("%d trailing bytes do not form a frame", len(rest))
	}
	for i, f := range frames {
		if f.Flags&^FlagCompressed != 0 {
			d.problem("request frame %d has flag bits %#x", i, f.Flags)
			return d
		}
		p, ok := d.payload(algos, f.Flags, f.Payload)
		if !ok {
			return d
		}
		d.Messages = append(d.Messages, p)
		d.Compressed = append(d.Compressed, f.Flags&FlagCompressed != 0)
	}
	d.Complete = rest == nil
	return d
}

// ---------------------------------------------------------------------------
// Timeouts.

// ParseGRPCTimeout parses the strict grammar 1*8DIGIT unit. ok=false when the
// string is not in the grammar. The value is returned in nanoseconds as a
// big-enough pair (value, unit-nanos) to avoid overflow.
func ParseGRPCTimeout(s string) (value uint64, unitNanos uint64, ok bool) {
	if len(s) < 2 || len(s) > 9 {
		return 0, 0, false
	}
	switch s[len(s)-1] {
	case 'H':
		unitNanos = 3600e9
	case 'M':
		unitNanos = 60e9
	case 'S':
		unitNanos = 1e9
	case 'm':
		unitNanos = 1e6
	case 'u':
		unitNanos = 1e3
	case 'n':
		unitNanos = 1
	default:
		return 0, 0, false
	}
	for _, c := range s[:len(s)-1] {
		if c < '0' || c > '9' {
			return 0, 0, false
		}
	}
	v, err := strconv.ParseUint(s[:len(s)-1], 10, 64)
	if err != nil {
		return 0, 0, false
	}
	return v, unitNanos, true
}

// ParseConnectTimeout parses 1*10DIGIT milliseconds.
func ParseConnectTimeout(s string) (ms uint64, ok bool) {
	if len(s) < 1 || len(s) > 10 {
		return 0, false
	}
	for _, c := range s {
		if c < '0' || c > '9' {
			return 0, false
		}
	}
	v, err := strconv.ParseUint(s, 10, 64)
	return v, err == nil
}

// ---------------------------------------------------------------------------
// Content types.

// AcceptedContentTypes is the reference set for a handler with the given
// codec names.
func AcceptedContentTypes(streaming bool, codecs []string) []string {
	set := map[string]bool{}
	for _, c := range codecs {
		if streaming {
			set["application/connect+"+c] = true
		} else {
			set["application/"+c] = true
		}
		set["application/grpc+"+c] = true
		set["application/grpc-web+"+c] = true
		if c == "proto" {
			set["application/grpc"] = true
			set["application/grpc-web"] = true
		}
	}
	out := make([]string, 0, len(set))
	for k := range set {
		out = append(out, k)
	}
	sort.Strings(out)
	return out
}

// ValidUTF8 is a convenience re-export.
func ValidUTF8(s string) bool { return utf8.ValidString(s) }

// WebTrailerBlock formats trailers as a gRPC-Web trailer payload with
// lower-case names and CRLF line ends, as the specification describes.
func WebTrailerBlock(t http.Header) []byte {
	keys := make([]string, 0, len(t))
	for k := range t {
		keys = append(keys, k)
	}
	sort.Strings(keys)
	var b bytes.Buffer
	for _, k := range keys {
		for _, v := range t[k] {
			fmt.Fprintf(&b, "%s: %s\r\n", strings.ToLower(k), v)
		}
	}
	return b.Bytes()
}
