// Package gen holds the seeded generators shared by the checks.
package gen

import (
	"encoding/binary"
	"fmt"
	"math/rand"
	"net/http"
	"strings"

	"google.golang.org/protobuf/encoding/protojson"
	"google.golang.org/protobuf/proto"
	"verif.local/harness/verifpb"
)

// Msg is the harness message type.
type Msg = verifpb.Msg

// Payload builds size bytes that embed id every 64 bytes (so that cross-talk
// and stale buffers are visible anywhere in the payload). compressible selects
// a highly repetitive filler, otherwise PRNG bytes derived from id.
func Payload(id uint64, size int, compressible bool) []byte {
	if size <= 0 {
		return nil
	}
	b := make([]byte, size)
	if compressible {
		for i := range b {
			b[i] = 'a' + byte(i%3)
		}
	} else {
		r := rand.New(rand.NewSource(int64(id)*7919 + int64(size)))
		r.Read(b)
	}
	var tag [8]byte
	binary.BigEndian.PutUint64(tag[:], id)
	for off := 0; off+8 <= size; off += 64 {
		copy(b[off:], tag[:])
	}
	return b
}

// PayloadOK verifies the embedded ids of a payload produced by Payload.
func PayloadOK(id uint64, b []byte) bool {
	for off := 0; off+8 <= len(b); off += 64 {
		if binary.BigEndian.Uint64(b[off:]) != id {
			return false
		}
	}
	return true
}

// New builds a message with the given id and payload size.
func New(id uint64, size int, compressible bool) *Msg {
	return &Msg{Id: id, Payload: Payload(id, size, compressible)}
}

// Zero is the zero-valued message (0 bytes in proto, {} in JSON).
func Zero() *Msg { return &Msg{} }

// EncodedSize returns the codec-encoded size of m.
func EncodedSize(codec string, m *Msg) int {
	if codec == "json" {
		b, err := protojson.Marshal(m)
		if err != nil {
			panic(err)
		}
		return len(b)
	}
	return proto.Size(m)
}

// OfEncodedSize builds a message whose encoding under codec has exactly n
// bytes (n >= 0 for proto, n >= 2 for json; returns nil if impossible).
func OfEncodedSize(codec string, id uint64, n int, compressible bool) *Msg {
	if codec == "proto" {
		if n == 0 {
			return &Msg{}
		}
		// note field: tag(1) + len varint + bytes
		for l := n; l >= 0; l-- {
			m := &Msg{Note: fill(id, l, compressible)}
			if s := proto.Size(m); s == n {
				return m
			} else if s < n {
				break
			}
		}
		// try with id only / combos
		for l := n; l >= 0; l-- {
			m := &Msg{Id: id | 1, Note: fill(id, l, compressible)}
			if proto.Size(m) == n {
				return m
			}
		}
		return nil
	}
	if n < 2 {
		return nil
	}
	if n == 2 {
		return &Msg{}
	}
	// {"note":"..."} = 11 + len for ASCII without escapes
	for l := n; l >= 0; l-- {
		m := &Msg{Note: fill(id, l, compressible)}
		b, _ := protojson.Marshal(m)
		if len(b) == n {
			return m
		}
		if len(b) < n {
			break
		}
	}
	return nil
}

func fill(id uint64, l int, compressible bool) string {
	if l <= 0 {
		return ""
	}
	const hexd = "0123456789abcdef"
	b := make([]byte, l)
	if compressible {
		for i := range b {
			b[i] = 'x'
		}
	} else {
		r := rand.New(rand.NewSource(int64(id) + int64(l)*31))
		for i := range b {
			b[i] = hexd[r.Intn(16)]
		}
	}
	tag := fmt.Sprintf("<%d>", id)
	copy(b, tag)
	return string(b)
}

// Describe summarises a message for evidence samples.
func Describe(m *Msg) string {
	if m == nil {
		return "nil"
	}
	if proto.Size(m) == 0 {
		return "Z"
	}
	return fmt.Sprintf("id=%d,len=%d", m.Id, proto.Size(m))
}

// DescribeSeq summarises a sequence.
func DescribeSeq(ms []*Msg) string {
	parts := make([]string, len(ms))
	for i, m := range ms {
		parts[i] = Describe(m)
	}
	return "[" + strings.Join(parts, " ") + "]"
}

// SameSeq compares two message sequences with proto.Equal.
func SameSeq(a, b []*Msg) (bool, string) {
	if len(a) != len(b) {
		return false, fmt.Sprintf("length %d != %d", len(a), len(b))
	}
	for i := range a {
		if !proto.Equal(a[i], b[i]) {
			return false, fmt.Sprintf("element %d differs: got %s want %s", i, Describe(a[i]), Describe(b[i]))
		}
	}
	return true, ""
}

// ---------------------------------------------------------------------------
// Text classes (error messages, header values).

// TextClasses returns named UTF-8 strings covering the classes of C02.
func TextClasses(r *rand.Rand, long int) map[string]string {
	longs := make([]byte, long)
	for i := range longs {
		longs[i] = "abcdefghij klmnop%é"[r.Intn(19)]
	}
	return map[string]string{
		"empty":      "",
		"ascii":      "something went wrong: id 42",
		"utf8-2":     "café naïve ü",
		"utf8-3":     "日本語 €",
		"utf8-4":     "\U0001F600 \U00010348",
		"nul":        "a\x00b",
		"controls":   "\x01\x02\x07\x1b\x1f tab\there",
		"del":        "x\x7fy",
		"percent":    "100% sure",
		"pct-escape": "%41 %zz %4",
		"pct-trail":  "trailing %",
		"crlf":       "line1\r\nline2\nline3\rline4",
		"blanks":     "  leading and trailing  ",
		"tabs":       "\tlead\ttrail\t",
		"quotes":     `he said "hi" \ back\slash 'q'`,
		"long":       strings.ToValidUTF8(string(longs), "?"),
	}
}

// ---------------------------------------------------------------------------
// Metadata multimaps.

const valueAlphabet = "abcdefghijklmnopqrstuvwxyzABCDEFGHIJKLMNOPQRSTUVWXYZ0123456789 ,;\"'=/+-_.:!#$&()*<>?@[]^`{|}~\\"

// Meta builds a random header multimap with keys X-<prefix>-N (canonical
// form), 1..4 printable-ASCII values each (no leading/trailing blanks), and
// some -Bin keys carrying base64 (unpadded) of random bytes. The raw bytes of
// -Bin values are returned in bins (key -> values).
func Meta(r *rand.Rand, prefix string, nkeys int, enc func([]byte) string) (http.Header, map[string][][]byte) {
	h := make(http.Header)
	bins := make(map[string][][]byte)
	for i := 0; i < nkeys; i++ {
		nv := 1 + r.Intn(4)
		if r.Intn(4) == 0 {
			k := http.CanonicalHeaderKey(fmt.Sprintf("X-%s-%d-Bin", prefix, i))
			for j := 0; j < nv; j++ {
				raw := make([]byte, r.Intn(40))
				r.Read(raw)
				h[k] = append(h[k], enc(raw))
				bins[k] = append(bins[k], raw)
			}
			continue
		}
		k := http.CanonicalHeaderKey(fmt.Sprintf("X-%s-%d", prefix, i))
		for j := 0; j < nv; j++ {
			n := 1 + r.Intn(30)
			b := make([]byte, n)
			for x := range b {
				b[x] = valueAlphabet[r.Intn(len(valueAlphabet))]
			}
			if b[0] == ' ' {
				b[0] = 'v'
			}
			if b[n-1] == ' ' {
				b[n-1] = 'v'
			}
			h[k] = append(h[k], string(b))
		}
	}
	return h, bins
}

// Compositions enumerates all compositions of n (ordered lists of positive
// integers summing to n) - there are 2^(n-1).
func Compositions(n int) [][]int {
	if n == 0 {
		return [][]int{{}}
	}
	var out [][]int
	for mask := 0; mask < 1<<(n-1); mask++ {
		var c []int
		run := 1
		for i := 0; i < n-1; i++ {
			if mask&(1<<i) != 0 {
				c = append(c, run)
				run = 1
			} else {
				run++
			}
		}
		c = append(c, run)
		out = append(out, c)
	}
	return out
}
