// Package wire puts the library on a wire the harness controls: a recording
// RoundTripper (tap) for real sockets, a canned HTTPClient with scripted
// response bodies, and a recording http.ResponseWriter for driving
// Handler.ServeHTTP directly.
package wire

import (
	"bytes"
	"errors"
	"fmt"
	"io"
	"net/http"
	"strings"
	"sync"
	"sync/atomic"
)

// CallHeader carries the harness call id end to end.
const CallHeader = "X-Verif-Call"

// ---------------------------------------------------------------------------
// Tap: recording RoundTripper.

// Exchange is what the tap saw of one HTTP exchange.
type Exchange struct {
	mu         sync.Mutex
	CallID     string
	Method     string
	URL        string
	ReqHeader  http.Header
	ReqBody    bytes.Buffer
	Status     int
	Proto      string
	RespHeader http.Header
	RespBody   bytes.Buffer
	Trailer    http.Header // response trailers as of body EOF/close
	DoErr      error
	BodyErr    error // first non-EOF error returned by the response body
	BodyEOF    bool
	BodyCloses int32
	ReqCloses  int32
	done       chan struct{}
}

// Snapshot returns a copy of the response body bytes seen so far.
func (e *Exchange) RespBytes() []byte {
	e.mu.Lock()
	defer e.mu.Unlock()
	return append([]byte(nil), e.RespBody.Bytes()...)
}

// ReqBytes returns a copy of the request body bytes seen so far.
func (e *Exchange) ReqBytes() []byte {
	e.mu.Lock()
	defer e.mu.Unlock()
	return append([]byte(nil), e.ReqBody.Bytes()...)
}

// Closes returns how often the response body was closed.
func (e *Exchange) Closes() int { return int(atomic.LoadInt32(&e.BodyCloses)) }

// State returns body EOF/err under lock.
func (e *Exchange) State() (eof bool, bodyErr error, trailer http.Header) {
	e.mu.Lock()
	defer e.mu.Unlock()
	return e.BodyEOF, e.BodyErr, e.Trailer.Clone()
}

// Tap wraps a RoundTripper and records every exchange by call id.
type Tap struct {
	Next http.RoundTripper
	mu   sync.Mutex
	byID map[string]*Exchange
	all  []*Exchange
	Keep bool // keep bodies (default true via NewTap)
	// CloseErr, when set, is what every response body's Close returns after
	// it has really closed the body (a decorating RoundTripper whose Close
	// reports a late transport complaint): the call's outcome was decided by
	// what had been read before.
	CloseErr error
	// HoldBack makes every response body keep the last byte of each read for
	// the next one (a buffering decorator): when the transport then fails,
	// Read returns that byte together with the error - (n > 0, err), which
	// io.Reader allows. Only for responses whose sender stalls or ends; a
	// peer that waits for an answer to the withheld byte would deadlock.
	HoldBack bool
}

// NewTap builds a tap around next.
func NewTap(next http.RoundTripper) *Tap {
	return &Tap{Next: next, byID: make(map[string]*Exchange), Keep: true}
}

// Get returns the exchange recorded for a call id (nil if none).
func (t *Tap) Get(id string) *Exchange {
	t.mu.Lock()
	defer t.mu.Unlock()
	return t.byID[id]
}

// Forget drops the record of a call id.
func (t *Tap) Forget(id string) {
	t.mu.Lock()
	delete(t.byID, id)
	t.mu.Unlock()
}

type tapReqBody struct {
	io.ReadCloser
	ex   *Exchange
	keep bool
}

func (b *tapReqBody) Read(p []byte) (int, error) {
	n, err := b.ReadCloser.Read(p)
	if n > 0 && b.keep {
		b.ex.mu.Lock()
		b.ex.ReqBody.Write(p[:n])
		b.ex.mu.Unlock()
	}
	return n, err
}

func (b *tapReqBody) Close() error {
	atomic.AddInt32(&b.ex.ReqCloses, 1)
	return b.ReadCloser.Close()
}

type tapRespBody struct {
	io.ReadCloser
	ex       *Exchange
	resp     *http.Response
	keep     bool
	closeErr error
	hold     bool
	pending  []byte
}

func (b *tapRespBody) Read(p []byte) (int, error) {
	if !b.hold || len(p) == 0 {
		return b.readUnder(p)
	}
	off := 0
	if len(b.pending) > 0 {
		p[0] = b.pending[0]
		b.pending = b.pending[:0]
		off = 1
		if len(p) == 1 {
			return 1, nil
		}
	}
	n, err := b.readUnder(p[off:])
	total := off + n
	if err == nil && total > 1 {
		b.pending = append(b.pending[:0], p[total-1])
		total--
	}
	return total, err
}

func (b *tapRespBody) readUnder(p []byte) (int, error) {
	n, err := b.ReadCloser.Read(p)
	b.ex.mu.Lock()
	if n > 0 && b.keep {
		b.ex.RespBody.Write(p[:n])
	}
	if err != nil {
		if errors.Is(err, io.EOF) {
			b.ex.BodyEOF = true
			b.ex.Trailer = b.resp.Trailer.Clone()
		} else if b.ex.BodyErr == nil {
			b.ex.BodyErr = err
		}
	}
	b.ex.mu.Unlock()
	return n, err
}

func (b *tapRespBody) Close() error {
	atomic.AddInt32(&b.ex.BodyCloses, 1)
	err := b.ReadCloser.Close()
	if b.closeErr != nil {
		return b.closeErr
	}
	return err
}

// RoundTrip implements http.RoundTripper.
func (t *Tap) RoundTrip(req *http.Request) (*http.Response, error) {
	ex := &Exchange{
		CallID:    req.Header.Get(CallHeader),
		Method:    req.Method,
		URL:       req.URL.String(),
		ReqHeader: req.Header.Clone(),
	}
	t.mu.Lock()
	if ex.CallID != "" {
		t.byID[ex.CallID] = ex
	}
	t.mu.Unlock()
	if req.Body != nil {
		req.Body = &tapReqBody{ReadCloser: req.Body, ex: ex, keep: t.Keep}
	}
	resp, err := t.Next.RoundTrip(req)
	if err != nil {
		ex.mu.Lock()
		ex.DoErr = err
		ex.mu.Unlock()
		return nil, err
	}
	ex.mu.Lock()
	ex.Status = resp.StatusCode
	ex.Proto = resp.Proto
	ex.RespHeader = resp.Header.Clone()
	ex.mu.Unlock()
	resp.Body = &tapRespBody{ReadCloser: resp.Body, ex: ex, resp: resp, keep: t.Keep, closeErr: t.CloseErr, hold: t.HoldBack}
	return resp, nil
}

// ---------------------------------------------------------------------------
// Scripted body.

// ScriptedBody is a response/request body that delivers Data according to a
// segmentation and ends in a scripted way.
type ScriptedBody struct {
	Data []byte
	// Chunks are the sizes of successive reads (the rest is delivered in one
	// piece when exhausted). A read never returns more than len(p).
	Chunks []int
	// EOFWithData makes the final data read return io.EOF together with it.
	EOFWithData bool
	// FinalErr is returned once the data is exhausted (nil = io.EOF).
	FinalErr error
	// OnEOF is called (once) when a clean io.EOF is first returned, e.g. to
	// populate response trailers the way net/http does.
	OnEOF func()

	mu      sync.Mutex
	off     int
	idx     int
	Closed  int32
	Reads   int32
	eofDone bool
	// AfterClose counts reads that happened after Close.
	AfterClose int32
}

func (b *ScriptedBody) finalErr() error {
	if b.FinalErr != nil {
		return b.FinalErr
	}
	if !b.eofDone {
		b.eofDone = true
		if b.OnEOF != nil {
			b.OnEOF()
		}
	}
	return io.EOF
}

// Read implements io.Reader.
func (b *ScriptedBody) Read(p []byte) (int, error) {
	b.mu.Lock()
	defer b.mu.Unlock()
	atomic.AddInt32(&b.Reads, 1)
	if atomic.LoadInt32(&b.Closed) > 0 {
		atomic.AddInt32(&b.AfterClose, 1)
		return 0, errors.New("http: read on closed response body")
	}
	if len(p) == 0 {
		return 0, nil
	}
	rest := len(b.Data) - b.off
	if rest == 0 {
		return 0, b.finalErr()
	}
	n := rest
	if b.idx < len(b.Chunks) {
		if c := b.Chunks[b.idx]; c > 0 && c < n {
			n = c
		}
		b.idx++
	}
	if n > len(p) {
		n = len(p)
	}
	copy(p, b.Data[b.off:b.off+n])
	b.off += n
	if b.off == len(b.Data) && b.EOFWithData {
		return n, b.finalErr()
	}
	return n, nil
}

// Close implements io.Closer.
func (b *ScriptedBody) Close() error {
	atomic.AddInt32(&b.Closed, 1)
	return nil
}

// Consumed reports how many bytes were delivered.
func (b *ScriptedBody) Consumed() int {
	b.mu.Lock()
	defer b.mu.Unlock()
	return b.off
}

// ---------------------------------------------------------------------------
// Canned HTTP client.

// Canned is an HTTPClient that records the request and answers with a
// response built by Respond.
type Canned struct {
	// Respond builds the response. reqBody is nil when Background is set (the
	// body is then drained concurrently and available through Wait).
	Respond func(req *http.Request, reqBody []byte) (*http.Response, error)
	// Background drains the request body in a goroutine and returns the
	// response at once (needed for bidi programs that read before closing).
	Background bool
	// StopAfter, if > 0, stops reading the request body after that many bytes
	// and closes it (a peer that stops reading).
	mu       sync.Mutex
	Requests []*CannedRequest
}

// CannedRequest is one recorded request.
type CannedRequest struct {
	Header http.Header
	Method string
	URL    string
	Body   []byte
	Err    error
	Done   chan struct{}
}

// Do implements connect.HTTPClient.
func (c *Canned) Do(req *http.Request) (*http.Response, error) {
	cr := &CannedRequest{Header: req.Header.Clone(), Method: req.Method, URL: req.URL.String(), Done: make(chan struct{})}
	c.mu.Lock()
	c.Requests = append(c.Requests, cr)
	c.mu.Unlock()
	drain := func() {
		defer close(cr.Done)
		if req.Body == nil {
			return
		}
		b, err := io.ReadAll(req.Body)
		cr.Body, cr.Err = b, err
		_ = req.Body.Close()
	}
	if c.Background {
		go drain()
		return c.Respond(req, nil)
	}
	drain()
	return c.Respond(req, cr.Body)
}

// Last returns the most recent request.
func (c *Canned) Last() *CannedRequest {
	c.mu.Lock()
	defer c.mu.Unlock()
	if len(c.Requests) == 0 {
		return nil
	}
	return c.Requests[len(c.Requests)-1]
}

// NewResponse builds an *http.Response the way net/http would hand it over:
// canonical header keys, Trailer map populated at EOF.
func NewResponse(req *http.Request, status int, header http.Header, body *ScriptedBody, trailer http.Header) *http.Response {
	h := make(http.Header, len(header))
	for k, v := range header {
		ck := http.CanonicalHeaderKey(k)
		h[ck] = append(h[ck], v...)
	}
	resp := &http.Response{
		Status:     http.StatusText(status),
		StatusCode: status,
		Proto:      "HTTP/2.0",
		ProtoMajor: 2,
		Header:     h,
		Body:       body,
		Request:    req,
		Trailer:    make(http.Header),
	}
	resp.Status = strings.TrimSpace(itoa(status) + " " + http.StatusText(status))
	if trailer != nil {
		// Two models of how net/http publishes trailers, chosen by a property of
		// the case itself (so that a replay sees the same one): HTTP/1.1 style -
		// the map exists from the start and is filled in when the body hits EOF;
		// HTTP/2 style without announced trailers - Response.Trailer stays nil
		// and a fresh map is assigned at EOF. Either way the values only exist
		// once the body has been read to the end.
		late := (len(body.Data)+len(body.Chunks))%2 == 1
		if late {
			resp.Trailer = nil
		}
		prev := body.OnEOF
		body.OnEOF = func() {
			if prev != nil {
				prev()
			}
			if resp.Trailer == nil {
				resp.Trailer = make(http.Header)
			}
			for k, v := range trailer {
				ck := http.CanonicalHeaderKey(k)
				resp.Trailer[ck] = append(resp.Trailer[ck], v...)
			}
		}
	}
	return resp
}

func itoa(i int) string {
	if i == 0 {
		return "0"
	}
	neg := i < 0
	if neg {
		i = -i
	}
	var b [20]byte
	p := len(b)
	for i > 0 {
		p--
		b[p] = byte('0' + i%10)
		i /= 10
	}
	if neg {
		p--
		b[p] = '-'
	}
	return string(b[p:])
}

// ---------------------------------------------------------------------------
// Recording ResponseWriter.

// Recorder is an http.ResponseWriter + http.Flusher that records what a
// handler wrote, with net/http's header-snapshot and trailer semantics.
type Recorder struct {
	mu          sync.Mutex
	header      http.Header
	Status      int
	Snapshot    http.Header // headers as of the first write
	Body        bytes.Buffer
	Writes      int
	Flushes     int
	WroteHeader bool
	// FailWrite, if > 0, makes the FailWrite-th call to Write (1-based) and
	// all later ones fail with FailErr.
	FailWrite int
	FailErr   error
}

// NewRecorder returns an empty recorder.
func NewRecorder() *Recorder { return &Recorder{header: make(http.Header)} }

// Header implements http.ResponseWriter.
func (r *Recorder) Header() http.Header { return r.header }

// WriteHeader implements http.ResponseWriter.
func (r *Recorder) WriteHeader(status int) {
	r.mu.Lock()
	defer r.mu.Unlock()
	r.writeHeaderLocked(status)
}

func (r *Recorder) writeHeaderLocked(status int) {
	if r.WroteHeader {
		return
	}
	r.WroteHeader = true
	r.Status = status
	r.Snapshot = r.header.Clone()
}

// Write implements http.ResponseWriter.
func (r *Recorder) Write(p []byte) (int, error) {
	r.mu.Lock()
	defer r.mu.Unlock()
	r.writeHeaderLocked(http.StatusOK)
	r.Writes++
	if r.FailWrite > 0 && r.Writes >= r.FailWrite {
		if r.FailErr != nil {
			return 0, r.FailErr
		}
		return 0, errors.New("verif: injected write failure")
	}
	return r.Body.Write(p)
}

// Flush implements http.Flusher.
func (r *Recorder) Flush() {
	r.mu.Lock()
	defer r.mu.Unlock()
	r.writeHeaderLocked(http.StatusOK)
	r.Flushes++
}

// Result is the finished response as a peer would see it.
type Result struct {
	Status  int
	Header  http.Header
	Body    []byte
	Trailer http.Header
	Writes  int
}

// Finish computes the response as seen by the peer after the handler returned.
func (r *Recorder) Finish() *Result {
	r.mu.Lock()
	defer r.mu.Unlock()
	r.writeHeaderLocked(http.StatusOK)
	res := &Result{Status: r.Status, Header: make(http.Header), Trailer: make(http.Header), Body: append([]byte(nil), r.Body.Bytes()...), Writes: r.Writes}
	declared := map[string]bool{}
	for k, v := range r.Snapshot {
		if strings.HasPrefix(k, http.TrailerPrefix) {
			continue
		}
		res.Header[k] = append([]string(nil), v...)
		if k == "Trailer" {
			for _, line := range v {
				for _, name := range strings.Split(line, ",") {
					declared[http.CanonicalHeaderKey(strings.TrimSpace(name))] = true
				}
			}
		}
	}
	for k, v := range r.header {
		if strings.HasPrefix(k, http.TrailerPrefix) {
			name := strings.TrimPrefix(k, http.TrailerPrefix)
			res.Trailer[name] = append(res.Trailer[name], v...)
			continue
		}
		if declared[k] {
			res.Trailer[k] = append(res.Trailer[k], v...)
		}
	}
	return res
}

// ---------------------------------------------------------------------------
// Loopback: an HTTPClient that serves the request in memory.

// LoopExchange is one request/response pair that went through a Loopback.
type LoopExchange struct {
	ReqHeader http.Header
	ReqBody   []byte
	URL       string
	Path      string
	Result    *Result
	Panicked  bool
	Panic     any
}

// Loopback is an HTTPClient that reads the whole request body, runs the
// handler on it in memory (as an HTTP/2 request) and returns the recorded
// response. Every exchange is kept.
type Loopback struct {
	Handler http.Handler
	mu      sync.Mutex
	Log     []*LoopExchange
	Panics  int // handler panics recovered (like net/http does)
}

// Do implements connect.HTTPClient.
func (l *Loopback) Do(req *http.Request) (*http.Response, error) {
	var body []byte
	if req.Body != nil {
		b, err := io.ReadAll(req.Body)
		_ = req.Body.Close()
		if err != nil {
			return nil, err
		}
		body = b
	}
	ex := &LoopExchange{ReqHeader: req.Header.Clone(), ReqBody: body, URL: req.URL.String(), Path: req.URL.Path}
	rec := NewRecorder()
	sreq := ServerRequest(req.Context(), req.Method, req.URL.Path, req.Header, &ScriptedBody{Data: body}, 2)
	func() {
		// net/http recovers handler panics and kills the connection; do the same
		defer func() {
			if r := recover(); r != nil {
				ex.Panicked = true
				ex.Panic = r
			}
		}()
		l.Handler.ServeHTTP(rec, sreq)
	}()
	ex.Result = rec.Finish()
	l.mu.Lock()
	l.Log = append(l.Log, ex)
	if ex.Panicked {
		l.Panics++
	}
	l.mu.Unlock()
	if ex.Panicked {
		return nil, fmt.Errorf("verif loopback: handler panicked: %v", ex.Panic)
	}
	return ResponseFromResult(req, ex.Result, nil), nil
}

// Mu exposes the log mutex (for callers that prune the log).
func (l *Loopback) Mu() *sync.Mutex { return &l.mu }

// Last returns the most recent exchange.
func (l *Loopback) Last() *LoopExchange {
	l.mu.Lock()
	defer l.mu.Unlock()
	if len(l.Log) == 0 {
		return nil
	}
	return l.Log[len(l.Log)-1]
}

// ServerRequest builds a server-side *http.Request.
func ServerRequest(ctx interface {
	Done() <-chan struct{}
}, method, path string, header http.Header, body io.ReadCloser, protoMajor int) *http.Request {
	return serverRequest(ctx, method, path, header, body, protoMajor)
}

// ResponseFromResult turns a recorded result into a client-side response.
// body overrides the scripted body when non-nil (it must carry the data).
func ResponseFromResult(req *http.Request, res *Result, body *ScriptedBody) *http.Response {
	if body == nil {
		body = &ScriptedBody{Data: res.Body}
	}
	var trailer http.Header
	if len(res.Trailer) > 0 {
		trailer = res.Trailer
	}
	return NewResponse(req, res.Status, res.Header, body, trailer)
}

// OpenBody is a request body whose sender has not finished: it delivers Data
// and then blocks in Read until Release or Close is called (a streaming client
// that sent what it had and now waits for the answer).
type OpenBody struct {
	Data []byte
	mu   sync.Mutex
	off  int
	once sync.Once
	done chan struct{}
}

// NewOpenBody returns an OpenBody that first delivers data.
func NewOpenBody(data []byte) *OpenBody { return &OpenBody{Data: data, done: make(chan struct{})} }

func (b *OpenBody) Read(p []byte) (int, error) {
	b.mu.Lock()
	if b.off < len(b.Data) {
		n := copy(p, b.Data[b.off:])
		b.off += n
		b.mu.Unlock()
		return n, nil
	}
	b.mu.Unlock()
	<-b.done
	return 0, io.EOF
}

// Release ends the body (the sender closes its side).
func (b *OpenBody) Release() { b.once.Do(func() { close(b.done) }) }

// Close is what net/http calls when the handler is done with the request.
func (b *OpenBody) Close() error { b.Release(); return nil }

// Released reports whether the body was ended.
func (b *OpenBody) Released() bool {
	select {
	case <-b.done:
		return true
	default:
		return false
	}
}
