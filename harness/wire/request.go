package wire

import (
	"context"
	"io"
	"net/http"
	"net/url"
)

func serverRequest(ctxAny interface{ Done() <-chan struct{} }, method, path string, header http.Header, body io.ReadCloser, protoMajor int) *http.Request {
	ctx, _ := ctxAny.(context.Context)
	if ctx == nil {
		ctx = context.Background()
	}
	u := &url.URL{Path: path}
	req := &http.Request{
		Method:     method,
		URL:        u,
		Proto:      "HTTP/1.1",
		ProtoMajor: 1,
		ProtoMinor: 1,
		Header:     header.Clone(),
		Body:       body,
		Host:       "verif.local",
		RequestURI: path,
		RemoteAddr: "127.0.0.1:1",
	}
	if req.Header == nil {
		req.Header = make(http.Header)
	}
	if body == nil {
		req.Body = http.NoBody
	}
	switch protoMajor {
	case 2:
		req.Proto, req.ProtoMajor, req.ProtoMinor = "HTTP/2.0", 2, 0
	case 3:
		req.Proto, req.ProtoMajor, req.ProtoMinor = "HTTP/3.0", 3, 0
	case 10:
		req.Proto, req.ProtoMajor, req.ProtoMinor = "HTTP/1.0", 1, 0
	}
	return req.WithContext(ctx)
}
