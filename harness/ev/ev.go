// Package ev is the verdict/evidence plumbing shared by all checks: counting
// what was explored, recording violations with replay files, matching known
// findings, and writing /verif/evidence/<ID>.json.
package ev

import (
	"crypto/sha256"
	"encoding/hex"
	"encoding/json"
	"fmt"
	"hash/fnv"
	"math/rand"
	"os"
	"path/filepath"
	"sort"
	"strconv"
	"strings"
	"sync"
	"time"
)

// Violation is one refuting observation.
type Violation struct {
	Key    string `json:"key"`
	What   string `json:"what"`
	Detail any    `json:"detail,omitempty"`
	Replay string `json:"replay,omitempty"`
	Known  bool   `json:"known,omitempty"`
}

// Run accumulates what one check execution observed.
type Run struct {
	ID    string
	Tier  string
	Seed  int64
	Level string
	Dir   string // /verif (KNOWN_FINDINGS.json lives here)
	Out   string // where evidence/ and replays/ are written (default Dir)

	start        time.Time
	mu           sync.Mutex
	evals        int64
	shapes       map[uint64]struct{}
	samples      []any
	shapeSamples []string
	maxSamples   int
	counters     map[string]int64
	violations   []Violation
	forcedSaturation bool
	nViolations  int64
	nKnown       int64
	inconclusive map[string]int64
	knownOpen    map[string]string
	replayKey    string
	assumptions  []string
	rule         string
	extra        map[string]any
}

// New creates the run context from the environment (VERIF_TIER, VERIF_SEED,
// VERIF_DIR, VERIF_REPLAY_KEY).
func New(id, level string) *Run {
	r := &Run{
		ID:           id,
		Tier:         os.Getenv("VERIF_TIER"),
		Level:        level,
		Dir:          os.Getenv("VERIF_DIR"),
		start:        time.Now(),
		shapes:       make(map[uint64]struct{}),
		counters:     make(map[string]int64),
		inconclusive: make(map[string]int64),
		knownOpen:    make(map[string]string),
		maxSamples:   6,
		extra:        make(map[string]any),
		replayKey:    os.Getenv("VERIF_REPLAY_KEY"),
	}
	if r.Tier != "thorough" {
		r.Tier = "quick"
	}
	if r.Dir == "" {
		r.Dir = "/verif"
	}
	r.Out = os.Getenv("VERIF_OUT")
	if r.Out == "" {
		r.Out = r.Dir
	}
	r.Seed = 1
	if s := os.Getenv("VERIF_SEED"); s != "" {
		if v, err := strconv.ParseInt(s, 10, 64); err == nil {
			r.Seed = v
		}
	}
	r.loadKnown()
	return r
}

func (r *Run) loadKnown() {
	b, err := os.ReadFile(filepath.Join(r.Dir, "KNOWN_FINDINGS.json"))
	if err != nil {
		return
	}
	var f struct {
		Entries []struct {
			Status   string `json:"status"`
			Property string `json:"property"`
			Key      string `json:"key"`
			What     string `json:"what"`
		} `json:"entries"`
	}
	if json.Unmarshal(b, &f) != nil {
		return
	}
	for _, e := range f.Entries {
		if e.Status == "open" && e.Property == r.ID {
			r.knownOpen[e.Key] = e.What
		}
	}
}

// Quick reports whether this is the quick tier.
func (r *Run) Quick() bool { return r.Tier != "thorough" }

// Pick returns q in the quick tier and t in the thorough tier.
func (r *Run) Pick(q, t int) int {
	if r.Quick() {
		return q
	}
	return t
}

// Want reports whether a case key should be executed (replay filter).
func (r *Run) Want(key string) bool {
	return r.replayKey == "" || r.replayKey == key || strings.HasPrefix(r.replayKey, key+"/")
}

// ReplayKey returns the key being replayed ("" in a normal run).
func (r *Run) ReplayKey() string { return r.replayKey }

// Replaying reports whether the run is a replay of one recorded case.
func (r *Run) Replaying() bool { return r.replayKey != "" }

// Rand returns a PRNG determined by the seed and a stream name only.
func (r *Run) Rand(stream string) *rand.Rand {
	h := fnv.New64a()
	fmt.Fprintf(h, "%d/%s/%s", r.Seed, r.ID, stream)
	return rand.New(rand.NewSource(int64(h.Sum64())))
}

// SetRule states how cases are generated and what makes one distinct.
func (r *Run) SetRule(rule string) { r.rule = rule }

// Assume records an assumption / trusted-base item for the evidence file.
func (r *Run) Assume(s string) { r.assumptions = append(r.assumptions, s) }

// Eval counts one executed case. shape identifies the case's non-trivial
// shape ("" = trivial, not counted as distinct).
func (r *Run) Eval(shape string) {
	r.mu.Lock()
	r.evals++
	if shape != "" {
		h := fnv.New64a()
		h.Write([]byte(shape))
		if _, seen := r.shapes[h.Sum64()]; !seen && len(r.shapeSamples) < 4 {
			r.shapeSamples = append(r.shapeSamples, shape)
		}
		r.shapes[h.Sum64()] = struct{}{}
	}
	r.mu.Unlock()
}

// Sample stores up to a handful of concrete cases for the evidence file.
func (r *Run) Sample(v any) {
	r.mu.Lock()
	if len(r.samples) < r.maxSamples {
		r.samples = append(r.samples, v)
	}
	r.mu.Unlock()
}

// Count adds n to a named monitor counter.
func (r *Run) Count(name string, n int64) {
	r.mu.Lock()
	r.counters[name] += n
	r.mu.Unlock()
}

// Counter reads a named counter.
func (r *Run) Counter(name string) int64 {
	r.mu.Lock()
	defer r.mu.Unlock()
	return r.counters[name]
}

// Set stores an extra key in the coverage object.
func (r *Run) Set(name string, v any) {
	r.mu.Lock()
	r.extra[name] = v
	r.mu.Unlock()
}

// Inconclusive counts an observation that is neither a violation nor a pass.
func (r *Run) Inconclusive(class string) {
	r.mu.Lock()
	r.inconclusive[class]++
	r.mu.Unlock()
}

// Violation records a refuting observation. key identifies the witness class
// (used for known-finding matching and replay), detail is the full witness.
func (r *Run) Violation(key, what string, detail any) {
	r.mu.Lock()
	defer r.mu.Unlock()
	if known, ok := r.knownOpen[key]; ok {
		r.nKnown++
		if r.nKnown <= 10 {
			fmt.Printf("KNOWN-FINDING: property=%s %s [%s]\n", r.ID, known, key)
		}
		return
	}
	r.nViolations++
	if len(r.violations) >= 25 {
		return
	}
	v := Violation{Key: key, What: what, Detail: detail}
	sum := sha256.Sum256([]byte(key + "\x00" + what))
	name := fmt.Sprintf("%s-%s.json", r.ID, hex.EncodeToString(sum[:6]))
	dir := filepath.Join(r.Out, "replays")
	_ = os.MkdirAll(dir, 0o755)
	path := filepath.Join(dir, name)
	rep := map[string]any{
		"property": r.ID, "tier": r.Tier, "seed": r.Seed, "key": key, "what": what, "detail": detail,
	}
	if b, err := json.MarshalIndent(rep, "", " "); err == nil {
		_ = os.WriteFile(path, b, 0o644)
	}
	v.Replay = path
	r.violations = append(r.violations, v)
	fmt.Printf("VIOLATION property=%s replay=%s\n", r.ID, path)
	shown := printable(what)
	if len(shown) > 400 {
		shown = shown[:400] + "... (full text in the replay file)"
	}
	fmt.Printf("  what: %s\n  key: %s\n", shown, printable(key))
}

// KnownOpen reports whether key is listed as an open known finding.
func (r *Run) KnownOpen(key string) bool {
	r.mu.Lock()
	defer r.mu.Unlock()
	_, ok := r.knownOpen[key]
	return ok
}

// Saturated reports that enough violations were recorded to stop exploring
// (a run that is already failing need not pay for more watchdog timeouts).
func (r *Run) Saturated() bool {
	r.mu.Lock()
	defer r.mu.Unlock()
	return r.nViolations >= 25 || r.forcedSaturation
}

// ForceSaturation makes Saturated true: used when hang after hang is being
// confirmed, so that a failing run does not pay one watchdog per further case.
func (r *Run) ForceSaturation() {
	r.mu.Lock()
	r.forcedSaturation = true
	r.mu.Unlock()
}

// Violations returns how many (unknown) violations were recorded.
func (r *Run) Violations() int64 {
	r.mu.Lock()
	defer r.mu.Unlock()
	return r.nViolations
}

// Finish writes the evidence file and returns the process exit code:
// 0 held, 1 violation, 2 broken (nothing observed / required monitor silent).
func (r *Run) Finish(required ...string) int {
	r.mu.Lock()
	defer r.mu.Unlock()
	broken := ""
	if r.evals == 0 {
		broken = "no case was executed"
	}
	for _, name := range required {
		if r.counters[name] == 0 && !r.replayingLocked() {
			broken = "required monitor observed nothing: " + name
		}
	}
	cov := map[string]any{
		"evaluations":         r.evals,
		"distinct_nontrivial": len(r.shapes),
		"rule":                r.rule,
		"samples":             r.samples,
		"monitors":            r.counters,
	}
	if len(r.inconclusive) > 0 {
		cov["inconclusive"] = r.inconclusive
	}
	for k, v := range r.extra {
		cov[k] = v
	}
	if len(r.samples) == 0 {
		// fall back to the shapes of the first distinct cases
		fb := make([]any, 0, len(r.shapeSamples))
		for _, s := range r.shapeSamples {
			fb = append(fb, map[string]any{"case_shape": s})
		}
		cov["samples"] = fb
	}
	evd := map[string]any{
		"property_id": r.ID,
		"tier":        r.Tier,
		"seed":        r.Seed,
		"level":       r.Level,
		"coverage":    cov,
		"assumptions": append([]string{"oracles and scripted peers of the harness are correct; Go runtime, net/http and protobuf-go are trusted"}, r.assumptions...),
		"wall_s":      time.Since(r.start).Seconds(),
		"violations":  r.nViolations,
	}
	if r.nKnown > 0 {
		evd["known_findings_hit"] = r.nKnown
	}
	if len(r.violations) > 0 {
		evd["violation_list"] = r.violations
	}
	if broken != "" {
		evd["broken"] = broken
	}
	if !r.replayingLocked() {
		dir := filepath.Join(r.Out, "evidence")
		_ = os.MkdirAll(dir, 0o755)
		b, _ := json.MarshalIndent(evd, "", " ")
		if err := os.WriteFile(filepath.Join(dir, r.ID+".json"), b, 0o644); err != nil {
			fmt.Fprintf(os.Stderr, "cannot write evidence: %v\n", err)
			return 2
		}
	}
	names := make([]string, 0, len(r.counters))
	for k := range r.counters {
		names = append(names, k)
	}
	sort.Strings(names)
	fmt.Printf("%s %s seed=%d: evaluations=%d distinct=%d violations=%d known=%d wall=%.1fs\n",
		r.ID, r.Tier, r.Seed, r.evals, len(r.shapes), r.nViolations, r.nKnown, time.Since(r.start).Seconds())
	for _, k := range names {
		fmt.Printf("  monitor %-40s %d\n", k, r.counters[k])
	}
	for k, v := range r.inconclusive {
		fmt.Printf("  inconclusive %-35s %d\n", k, v)
	}
	if r.nViolations > 0 {
		return 1
	}
	if broken != "" {
		fmt.Fprintf(os.Stderr, "BROKEN check %s: %s\n", r.ID, broken)
		return 2
	}
	return 0
}

func (r *Run) replayingLocked() bool { return r.replayKey != "" }

// printable escapes bytes that would turn the report into a binary file.
func printable(s string) string {
	q := strconv.QuoteToASCII(s)
	return q[1 : len(q)-1]
}

// MergeInpkg folds the result file of an in-package (overlay) monitor into
// this run. A missing file is counted as inconclusive, never as a pass.
func (r *Run) MergeInpkg(class string) {
	path := os.Getenv("VERIF_INPKG_RESULT")
	if r.Replaying() {
		return
	}
	if path == "" {
		r.Inconclusive("in-package monitor " + class + " did not run")
		return
	}
	b, err := os.ReadFile(path)
	if err != nil {
		r.Inconclusive("in-package monitor " + class + " result unreadable")
		return
	}
	var res struct {
		Evaluations int64            `json:"evaluations"`
		Counters    map[string]int64 `json:"counters"`
		Violations  []struct {
			Key    string `json:"key"`
			What   string `json:"what"`
			Detail any    `json:"detail"`
		} `json:"violations"`
		Samples []any `json:"samples"`
	}
	if err := json.Unmarshal(b, &res); err != nil {
		r.Inconclusive("in-package monitor " + class + " result unparsable")
		return
	}
	r.mu.Lock()
	r.evals += res.Evaluations
	for k, v := range res.Counters {
		r.counters["inpkg."+k] += v
		h := fnv.New64a()
		h.Write([]byte("inpkg." + k))
		r.shapes[h.Sum64()] = struct{}{}
	}
	r.mu.Unlock()
	for _, s := range res.Samples {
		r.Sample(s)
	}
	for _, v := range res.Violations {
		r.Violation(v.Key, v.What, v.Detail)
	}
}
