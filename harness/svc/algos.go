package svc

import (
	"bytes"
	"errors"
	"fmt"
	"io"
	"sync"
	"sync/atomic"
	"time"

	connect "github.com/bufbuild/connect-go"
	"verif.local/harness/refcodec"
)

// Custom test algorithms: trivially invertible framings with a magic byte so
// that a wrong decompressor fails loudly.
//
//	zz-rev: 'R' + reversed bytes
//	Zz-Xor: 'X' + bytes xor 0x5A
//	zz-len: 'L' + 4-byte big-endian length + bytes
//	zz-lazy: nothing at all for an empty message, otherwise 'Y' + bytes; its
//	         decompressor (like gzip's) rejects an empty source. Not part of
//	         AlgoNames: only checks that ask for it by name use it.

// AlgoNames is the custom universe (gzip is added by the library itself).
var AlgoNames = []string{"zz-rev", "Zz-Xor", "zz-len"}

func algoEncode(name string, b []byte) []byte {
	switch name {
	case "zz-rev":
		out := make([]byte, 0, len(b)+1)
		out = append(out, 'R')
		for i := len(b) - 1; i >= 0; i-- {
			out = append(out, b[i])
		}
		return out
	case "Zz-Xor":
		out := make([]byte, 0, len(b)+1)
		out = append(out, 'X')
		for _, c := range b {
			out = append(out, c^0x5A)
		}
		return out
	case "zz-lazy":
		if len(b) == 0 {
			return nil
		}
		return append([]byte{'Y'}, b...)
	case "zz-len":
		out := make([]byte, 0, len(b)+5)
		out = append(out, 'L', byte(len(b)>>24), byte(len(b)>>16), byte(len(b)>>8), byte(len(b)))
		return append(out, b...)
	}
	panic("unknown algo " + name)
}

func algoDecode(name string, b []byte) ([]byte, error) {
	if len(b) == 0 {
		if name == "zz-lazy" {
			return []byte{}, nil
		}
		return nil, errors.New(name + ": empty input")
	}
	switch name {
	case "zz-lazy":
		if b[0] != 'Y' {
			return nil, fmt.Errorf("zz-lazy: bad magic %#x", b[0])
		}
		return append([]byte(nil), b[1:]...), nil
	case "zz-rev":
		if b[0] != 'R' {
			return nil, fmt.Errorf("zz-rev: bad magic %#x", b[0])
		}
		out := make([]byte, 0, len(b)-1)
		for i := len(b) - 1; i >= 1; i-- {
			out = append(out, b[i])
		}
		return out, nil
	case "Zz-Xor":
		if b[0] != 'X' {
			return nil, fmt.Errorf("Zz-Xor: bad magic %#x", b[0])
		}
		out := make([]byte, 0, len(b)-1)
		for _, c := range b[1:] {
			out = append(out, c^0x5A)
		}
		return out, nil
	case "zz-len":
		if b[0] != 'L' || len(b) < 5 {
			return nil, fmt.Errorf("zz-len: bad magic/short")
		}
		n := int(b[1])<<24 | int(b[2])<<16 | int(b[3])<<8 | int(b[4])
		if n != len(b)-5 {
			return nil, fmt.Errorf("zz-len: declared %d have %d", n, len(b)-5)
		}
		return append([]byte(nil), b[5:]...), nil
	}
	return nil, errors.New("unknown algo " + name)
}

// RefAlgos returns the reference (de)compressors for gzip and the custom
// universe.
func RefAlgos() refcodec.Algos {
	a := refcodec.DefaultAlgos()
	for _, n := range append(append([]string(nil), AlgoNames...), "zz-lazy") {
		n := n
		a[n] = struct {
			Compress   func([]byte) []byte
			Decompress refcodec.Decompressor
		}{
			Compress:   func(b []byte) []byte { return algoEncode(n, b) },
			Decompress: func(b []byte) ([]byte, error) { return algoDecode(n, b) },
		}
	}
	return a
}

// AlgoStats counts uses and discipline violations of the instrumented
// (de)compressors of one algorithm.
type AlgoStats struct {
	// FailOver > 0: the compressor refuses inputs longer than this many bytes -
	// its Close returns an error and nothing is written (a block compressor
	// with an input cap; Compressor.Close may fail like any io.Closer).
	FailOver int32
	Refusals int64
	// CloseVerdict != 0: a decompressor that finds its input corrupt does not
	// say so from Reset or Read; it hands out the bytes it has and reports the
	// problem from Close (a trailing-checksum format: Decompressor.Close may
	// return an error). Reset discards that state, as the interface requires.
	CloseVerdict   int32
	LateVerdicts   int64
	Compressions   int64
	Decompressions int64
	Violations     int64
	mu             sync.Mutex
	Notes          []string
	// Pair != 0: the first Read of every checkout waits (briefly) until another
	// decompressor of this algorithm is reading too, so that calls which run at
	// about the same time really do hold their pooled decompressors at the same
	// time. A pool that contains one object twice then hands it to both.
	Pair   int32
	waiter chan struct{}
	Paired int64
}

func (s *AlgoStats) rendezvous() {
	s.mu.Lock()
	if s.waiter != nil {
		close(s.waiter)
		s.waiter = nil
		s.mu.Unlock()
		atomic.AddInt64(&s.Paired, 1)
		return
	}
	ch := make(chan struct{})
	s.waiter = ch
	s.mu.Unlock()
	select {
	case <-ch:
	case <-time.After(150 * time.Millisecond):
		s.mu.Lock()
		if s.waiter == ch {
			s.waiter = nil
		}
		s.mu.Unlock()
	}
}

func (s *AlgoStats) violate(f string, a ...any) {
	atomic.AddInt64(&s.Violations, 1)
	s.mu.Lock()
	if len(s.Notes) < 10 {
		s.Notes = append(s.Notes, fmt.Sprintf(f, a...))
	}
	s.mu.Unlock()
}

type zzCompressor struct {
	name   string
	stats  *AlgoStats
	mu     sync.Mutex
	w      io.Writer
	buf    bytes.Buffer
	open   bool // between Reset and Close
	inUse  int32
	closed bool
}

func (c *zzCompressor) enter() {
	if atomic.AddInt32(&c.inUse, 1) != 1 {
		c.stats.violate("%s compressor used by two goroutines at once", c.name)
	}
}
func (c *zzCompressor) leave() { atomic.AddInt32(&c.inUse, -1) }

func (c *zzCompressor) Write(p []byte) (int, error) {
	c.enter()
	defer c.leave()
	if !c.open {
		c.stats.violate("%s compressor Write outside Reset..Close", c.name)
	}
	return c.buf.Write(p)
}

func (c *zzCompressor) Close() error {
	c.enter()
	defer c.leave()
	if !c.open {
		// Closing twice is tolerated by gzip.Writer; count it as discipline only
		// when data would be emitted twice.
		return nil
	}
	c.open = false
	if cap := atomic.LoadInt32(&c.stats.FailOver); cap > 0 && c.buf.Len() > int(cap) {
		atomic.AddInt64(&c.stats.Refusals, 1)
		return fmt.Errorf("%s: input of %d bytes is over this compressor's cap of %d", c.name, c.buf.Len(), cap)
	}
	atomic.AddInt64(&c.stats.Compressions, 1)
	_, err := c.w.Write(algoEncode(c.name, c.buf.Bytes()))
	return err
}

func (c *zzCompressor) Reset(w io.Writer) {
	c.enter()
	defer c.leave()
	c.w = w
	c.buf.Reset()
	c.open = true
}

type zzDecompressor struct {
	name  string
	stats *AlgoStats
	out   *bytes.Reader
	err   error
	open  bool
	inUse int32
	// busy: between a successful Reset on real data and Close, i.e. while one
	// call owns the object.
	busy     int32
	readOnce int32
	closeErr error
}

func (d *zzDecompressor) enter() {
	if atomic.AddInt32(&d.inUse, 1) != 1 {
		d.stats.violate("%s decompressor used by two goroutines at once", d.name)
	}
}
func (d *zzDecompressor) leave() { atomic.AddInt32(&d.inUse, -1) }

func (d *zzDecompressor) Read(p []byte) (int, error) {
	if atomic.LoadInt32(&d.stats.Pair) != 0 && atomic.CompareAndSwapInt32(&d.readOnce, 0, 1) {
		d.stats.rendezvous()
	}
	d.enter()
	defer d.leave()
	if !d.open {
		d.stats.violate("%s decompressor Read outside Reset..Close", d.name)
		return 0, errors.New("read on closed decompressor")
	}
	if d.err != nil {
		return 0, d.err
	}
	return d.out.Read(p)
}

func (d *zzDecompressor) Close() error {
	d.enter()
	defer d.leave()
	d.open = false
	atomic.StoreInt32(&d.busy, 0)
	if err := d.closeErr; err != nil {
		d.closeErr = nil
		atomic.AddInt64(&d.stats.LateVerdicts, 1)
		return err
	}
	return nil
}

func (d *zzDecompressor) Reset(r io.Reader) error {
	d.enter()
	defer d.leave()
	raw, err := io.ReadAll(r)
	d.open = true
	d.err = nil
	d.closeErr = nil
	if err != nil {
		d.err = err
		return err
	}
	if len(raw) == 0 {
		// The library parks pooled decompressors on an empty reader before it
		// returns them to the pool. In pair mode the parking call dawdles: if the
		// object were already back in the pool, another call could take it in the
		// meantime, and the parking would then hit an object that call owns.
		if atomic.LoadInt32(&d.stats.Pair) != 0 {
			time.Sleep(3 * time.Millisecond)
		}
		if atomic.LoadInt32(&d.busy) != 0 {
			d.stats.violate("%s decompressor was reset by its previous owner after it had been handed to the next call (it went back to the pool too early)", d.name)
		}
		d.out = bytes.NewReader(nil)
		d.err = io.ErrUnexpectedEOF
		return d.err
	}
	atomic.AddInt64(&d.stats.Decompressions, 1)
	dec, err := algoDecode(d.name, raw)
	if err != nil && atomic.LoadInt32(&d.stats.CloseVerdict) != 0 && d.name == "zz-len" && len(raw) >= 5 && raw[0] == 'L' {
		// the length field is this format's integrity check: verdict at Close
		d.closeErr = err
		dec, err = append([]byte(nil), raw[5:]...), nil
	}
	if err != nil {
		d.err = err
		d.out = bytes.NewReader(nil)
		return err
	}
	if !atomic.CompareAndSwapInt32(&d.busy, 0, 1) {
		d.stats.violate("%s decompressor handed to a second call before the first one released it (the pool holds the same object twice)", d.name)
	}
	atomic.StoreInt32(&d.readOnce, 0)
	d.out = bytes.NewReader(dec)
	return nil
}

// Algo returns instrumented constructor functions for a custom algorithm.
func Algo(name string, stats *AlgoStats) (func() connect.Decompressor, func() connect.Compressor) {
	return func() connect.Decompressor { return &zzDecompressor{name: name, stats: stats} },
		func() connect.Compressor { return &zzCompressor{name: name, stats: stats} }
}
