// Package svc provides the scripted service (four handlers whose behaviour is
// a program looked up by call id), real HTTP/1.1 and HTTP/2 servers, and the
// client-side drivers, all logging what each side's API observed.
package svc

import (
	"context"
	"crypto/tls"
	"errors"
	"fmt"
	"io"
	"log"
	"net"
	"net/http"
	"net/http/httptest"
	"strings"
	"sync"
	"sync/atomic"
	"time"

	connect "github.com/bufbuild/connect-go"
	"google.golang.org/protobuf/proto"
	"verif.local/harness/verifpb"
	"verif.local/harness/wire"
)

// Msg is the message type of every procedure.
type Msg = verifpb.Msg

// Kind is the RPC kind.
type Kind int

// The four kinds.
const (
	Unary Kind = iota
	ClientStream
	ServerStream
	Bidi
)

// Kinds lists all kinds.
var Kinds = []Kind{Unary, ClientStream, ServerStream, Bidi}

func (k Kind) String() string {
	return [...]string{"unary", "client", "server", "bidi"}[k]
}

// Path returns the procedure path of a kind.
func (k Kind) Path() string {
	return "/verif.v1.Svc/" + [...]string{"Unary", "Client", "Server", "Bidi"}[k]
}

// StreamType returns the connect stream type.
func (k Kind) StreamType() connect.StreamType {
	return [...]connect.StreamType{connect.StreamTypeUnary, connect.StreamTypeClient, connect.StreamTypeServer, connect.StreamTypeBidi}[k]
}

// Protocols lists the three protocols.
var Protocols = []string{"connect", "grpc", "grpcweb"}

// Codecs lists the built-in codecs.
var Codecs = []string{"proto", "json"}

// ---------------------------------------------------------------------------
// Handler programs.

// Step is one action of a handler program.
type Step struct {
	Op  string // recv | recvall | send | waitctx | hold | sleep | panic | trailer | header | fn
	Msg *Msg
	Val any           // panic value
	K   string        // header/trailer key
	V   []string      // header/trailer values
	D   time.Duration // sleep
	Fn  func(ctx context.Context, c *Call)
}

// Program scripts a handler.
type Program struct {
	Header  http.Header // response headers set before anything else
	Trailer http.Header // response trailers set before anything else
	Steps   []Step
	Return  error // returned when the steps are done
	// ReturnCtxErr makes the handler return ctx.Err() at the end instead.
	ReturnCtxErr bool
	// StopOnRecvErr makes the handler return a receive error as soon as one
	// (other than end of stream) is seen.
	StopOnRecvErr bool
	// StopOnSendErr makes the handler return the first send error.
	StopOnSendErr bool
	// Retain keeps references (no clones) to everything received.
	Retain bool
	// ReturnFirstRecvErr makes the handler return, once its steps are done, the
	// first receive error it saw (other than end of stream).
	ReturnFirstRecvErr bool
	// OnUnaryRequest, if set, is called by the unary handler with the very
	// request object it was given, before the steps run.
	OnUnaryRequest func(ctx context.Context, req *connect.Request[Msg])
}

// HLog is what the handler side observed.
type HLog struct {
	mu          sync.Mutex
	Invocations int32
	Kind        Kind
	Spec        connect.Spec
	ReqHeader   http.Header
	Received    []*Msg // clones taken at receipt
	Retained    []*Msg // the very objects handed out (only with Retain)
	HolderSum   uint64 // sum of Msg().Id read from the reused holder, un-cloned
	HolderNotes []string
	RecvErr     error // first non-nil receive error (EOF included)
	SawEOF      bool
	SendErrs    []error
	Sent        int
	Deadline    time.Time
	HasDeadline bool
	Entered     time.Time
	CtxErr      error // ctx.Err() when the handler returned
	CtxDone     bool  // waitctx observed Done
	Returned    error
	Panicked    bool
	Finished    chan struct{}
}

// Call couples a program with its log.
type Call struct {
	ID      string
	Prog    *Program
	Log     *HLog
	Release chan struct{} // closes "hold"/"waitctx" steps
	once    sync.Once
}

// ReleaseNow unblocks hold/waitctx steps.
func (c *Call) ReleaseNow() { c.once.Do(func() { close(c.Release) }) }

// Registry maps call ids to calls.
type Registry struct {
	mu    sync.Mutex
	calls map[string]*Call
	seq   uint64
	// Unknown counts invocations without a registered call id.
	Unknown int64
	// Default is used for requests without a registered id (nil = echo/sum).
	Default *Program
}

// NewRegistry creates an empty registry.
func NewRegistry() *Registry { return &Registry{calls: make(map[string]*Call)} }

// New registers a program and returns its call.
func (r *Registry) New(prefix string, p *Program) *Call {
	id := fmt.Sprintf("%s-%d", prefix, atomic.AddUint64(&r.seq, 1))
	c := &Call{ID: id, Prog: p, Log: &HLog{Finished: make(chan struct{})}, Release: make(chan struct{})}
	r.mu.Lock()
	r.calls[id] = c
	r.mu.Unlock()
	return c
}

// Drop forgets a call.
func (r *Registry) Drop(c *Call) {
	r.mu.Lock()
	delete(r.calls, c.ID)
	r.mu.Unlock()
}

func (r *Registry) lookup(h http.Header) *Call {
	id := h.Get(wire.CallHeader)
	r.mu.Lock()
	c := r.calls[id]
	r.mu.Unlock()
	if c != nil {
		return c
	}
	atomic.AddInt64(&r.Unknown, 1)
	p := r.Default
	if p == nil {
		p = &Program{Steps: []Step{{Op: "recvall"}, {Op: "sendsum"}}}
	}
	return &Call{ID: id, Prog: p, Log: &HLog{Finished: make(chan struct{})}, Release: make(chan struct{})}
}

// hconn abstracts the four handler-side stream shapes.
type hconn interface {
	recv() (*Msg, *Msg, error) // clone, original, error
	send(*Msg) error
	reqHeader() http.Header
	respHeader() http.Header
	respTrailer() http.Header
}

func isEOF(err error) bool { return errors.Is(err, io.EOF) }

// run interprets the program against a handler connection.
func (c *Call) run(ctx context.Context, kind Kind, spec connect.Spec, hc hconn) (retErr error) {
	l := c.Log
	atomic.AddInt32(&l.Invocations, 1)
	l.mu.Lock()
	l.Kind = kind
	l.Spec = spec
	l.Entered = time.Now()
	l.ReqHeader = hc.reqHeader().Clone()
	l.Deadline, l.HasDeadline = ctx.Deadline()
	l.mu.Unlock()
	defer func() {
		l.mu.Lock()
		l.CtxErr = ctx.Err()
		l.Returned = retErr
		l.mu.Unlock()
		select {
		case <-l.Finished:
		default:
			close(l.Finished)
		}
	}()
	for k, v := range c.Prog.Header {
		hc.respHeader()[k] = append(hc.respHeader()[k], v...)
	}
	for k, v := range c.Prog.Trailer {
		hc.respTrailer()[k] = append(hc.respTrailer()[k], v...)
	}
	recvOne := func() (bool, error) {
		m, orig, err := hc.recv()
		l.mu.Lock()
		defer l.mu.Unlock()
		if err != nil {
			if l.RecvErr == nil {
				l.RecvErr = err
			}
			if isEOF(err) {
				l.SawEOF = true
			}
			return false, err
		}
		l.Received = append(l.Received, m)
		if c.Prog.Retain {
			l.Retained = append(l.Retained, orig)
		}
		return true, nil
	}
	var sum uint64
	for _, st := range c.Prog.Steps {
		switch st.Op {
		case "recv":
			if ok, err := recvOne(); !ok && !isEOF(err) && c.Prog.StopOnRecvErr {
				return err
			}
		case "recvall":
			for {
				ok, err := recvOne()
				if !ok {
					if !isEOF(err) && c.Prog.StopOnRecvErr {
						return err
					}
					break
				}
			}
		case "send", "sendsum":
			m := st.Msg
			if st.Op == "sendsum" {
				l.mu.Lock()
				sum = 0
				for _, r := range l.Received {
					sum += r.Id
				}
				m = &Msg{Id: sum, Sum: int64(len(l.Received))}
				l.mu.Unlock()
			}
			err := hc.send(m)
			l.mu.Lock()
			if err != nil {
				l.SendErrs = append(l.SendErrs, err)
			} else {
				l.Sent++
			}
			l.mu.Unlock()
			if err != nil && c.Prog.StopOnSendErr {
				return err
			}
		case "waitctx":
			select {
			case <-ctx.Done():
				l.mu.Lock()
				l.CtxDone = true
				l.mu.Unlock()
			case <-c.Release:
			}
		case "hold":
			<-c.Release
		case "sleep":
			time.Sleep(st.D)
		case "panic":
			l.mu.Lock()
			l.Panicked = true
			l.mu.Unlock()
			panic(st.Val)
		case "trailer":
			hc.respTrailer()[st.K] = append(hc.respTrailer()[st.K], st.V...)
		case "header":
			hc.respHeader()[st.K] = append(hc.respHeader()[st.K], st.V...)
		case "fn":
			st.Fn(ctx, c)
		default:
			panic("svc: unknown op " + st.Op)
		}
	}
	if c.Prog.ReturnCtxErr {
		return ctx.Err()
	}
	if c.Prog.ReturnFirstRecvErr {
		l.mu.Lock()
		first := l.RecvErr
		l.mu.Unlock()
		if first != nil && !isEOF(first) {
			return first
		}
	}
	return c.Prog.Return
}

// --- unary
type uconn struct {
	req  *connect.Request[Msg]
	done bool
	resp *Msg
	hdr  http.Header
	trl  http.Header
}

func (u *uconn) recv() (*Msg, *Msg, error) {
	if u.done {
		return nil, nil, io.EOF
	}
	u.done = true
	return proto.Clone(u.req.Msg).(*Msg), u.req.Msg, nil
}
func (u *uconn) send(m *Msg) error        { u.resp = m; return nil }
func (u *uconn) reqHeader() http.Header   { return u.req.Header() }
func (u *uconn) respHeader() http.Header  { return u.hdr }
func (u *uconn) respTrailer() http.Header { return u.trl }

// --- client stream
type csconn struct {
	st   *connect.ClientStream[Msg]
	log  *HLog
	resp *Msg
	hdr  http.Header
	trl  http.Header
}

func (c *csconn) recv() (*Msg, *Msg, error) {
	if c.st.Receive() {
		// Read the reused holder exactly the way user code does.
		m := c.st.Msg()
		c.log.mu.Lock()
		c.log.HolderSum += m.Id
		c.log.mu.Unlock()
		return proto.Clone(m).(*Msg), m, nil
	}
	if err := c.st.Err(); err != nil {
		return nil, nil, err
	}
	return nil, nil, io.EOF
}
func (c *csconn) send(m *Msg) error        { c.resp = m; return nil }
func (c *csconn) reqHeader() http.Header   { return c.st.RequestHeader() }
func (c *csconn) respHeader() http.Header  { return c.hdr }
func (c *csconn) respTrailer() http.Header { return c.trl }

// --- server stream
type ssconn struct {
	req  *connect.Request[Msg]
	st   *connect.ServerStream[Msg]
	done bool
}

func (s *ssconn) recv() (*Msg, *Msg, error) {
	if s.done {
		return nil, nil, io.EOF
	}
	s.done = true
	return proto.Clone(s.req.Msg).(*Msg), s.req.Msg, nil
}
func (s *ssconn) send(m *Msg) error        { return s.st.Send(m) }
func (s *ssconn) reqHeader() http.Header   { return s.req.Header() }
func (s *ssconn) respHeader() http.Header  { return s.st.ResponseHeader() }
func (s *ssconn) respTrailer() http.Header { return s.st.ResponseTrailer() }

// --- bidi
type bdconn struct {
	st *connect.BidiStream[Msg, Msg]
}

func (b *bdconn) recv() (*Msg, *Msg, error) {
	m, err := b.st.Receive()
	if err != nil {
		return nil, nil, err
	}
	return proto.Clone(m).(*Msg), m, nil
}
func (b *bdconn) send(m *Msg) error        { return b.st.Send(m) }
func (b *bdconn) reqHeader() http.Header   { return b.st.RequestHeader() }
func (b *bdconn) respHeader() http.Header  { return b.st.ResponseHeader() }
func (b *bdconn) respTrailer() http.Header { return b.st.ResponseTrailer() }

// Handlers builds the four handlers over a registry.
func Handlers(reg *Registry, opts ...connect.HandlerOption) map[Kind]*connect.Handler {
	out := make(map[Kind]*connect.Handler)
	out[Unary] = connect.NewUnaryHandler(Unary.Path(), func(ctx context.Context, req *connect.Request[Msg]) (*connect.Response[Msg], error) {
		c := reg.lookup(req.Header())
		u := &uconn{req: req, hdr: make(http.Header), trl: make(http.Header)}
		if c.Prog != nil && c.Prog.OnUnaryRequest != nil {
			// (a gateway-style handler: it hands the request it received on to
			// another client before doing anything else)
			c.Prog.OnUnaryRequest(ctx, req)
		}
		if err := c.run(ctx, Unary, req.Spec(), u); err != nil {
			return nil, err
		}
		if u.resp == nil {
			u.resp = &Msg{}
		}
		res := connect.NewResponse(u.resp)
		for k, v := range u.hdr {
			res.Header()[k] = v
		}
		for k, v := range u.trl {
			res.Trailer()[k] = v
		}
		return res, nil
	}, opts...)
	out[ClientStream] = connect.NewClientStreamHandler(ClientStream.Path(), func(ctx context.Context, st *connect.ClientStream[Msg]) (*connect.Response[Msg], error) {
		c := reg.lookup(st.RequestHeader())
		cs := &csconn{st: st, log: c.Log, hdr: make(http.Header), trl: make(http.Header)}
		if err := c.run(ctx, ClientStream, connect.Spec{StreamType: connect.StreamTypeClient, Procedure: ClientStream.Path()}, cs); err != nil {
			return nil, err
		}
		if cs.resp == nil {
			cs.resp = &Msg{}
		}
		res := connect.NewResponse(cs.resp)
		for k, v := range cs.hdr {
			res.Header()[k] = v
		}
		for k, v := range cs.trl {
			res.Trailer()[k] = v
		}
		return res, nil
	}, opts...)
	out[ServerStream] = connect.NewServerStreamHandler(ServerStream.Path(), func(ctx context.Context, req *connect.Request[Msg], st *connect.ServerStream[Msg]) error {
		c := reg.lookup(req.Header())
		return c.run(ctx, ServerStream, req.Spec(), &ssconn{req: req, st: st})
	}, opts...)
	out[Bidi] = connect.NewBidiStreamHandler(Bidi.Path(), func(ctx context.Context, st *connect.BidiStream[Msg, Msg]) error {
		c := reg.lookup(st.RequestHeader())
		return c.run(ctx, Bidi, connect.Spec{StreamType: connect.StreamTypeBidi, Procedure: Bidi.Path()}, &bdconn{st: st})
	}, opts...)
	return out
}

// Mux mounts the four handlers.
func Mux(h map[Kind]*connect.Handler) *http.ServeMux {
	mux := http.NewServeMux()
	for k, hd := range h {
		mux.Handle(k.Path(), hd)
	}
	return mux
}

// ---------------------------------------------------------------------------
// Servers.

// Server is a pair of real servers (HTTP/1.1 cleartext, HTTP/2 over TLS) in
// front of one mux and one registry.
type Server struct {
	Reg      *Registry
	Handlers map[Kind]*connect.Handler
	H1       *httptest.Server
	H2       *httptest.Server
	Tap1     *wire.Tap
	Tap2     *wire.Tap
	c1       *http.Client
	c2       *http.Client
	errLog   *logSink
	rawOnce  sync.Once
	raw1     *http.Client
	raw2     *http.Client
}

// logSink captures the servers' error log (net/http reports recovered handler
// panics there).
type logSink struct {
	mu     sync.Mutex
	panics int
	lines  []string
}

func (l *logSink) Write(p []byte) (int, error) {
	l.mu.Lock()
	defer l.mu.Unlock()
	s := string(p)
	if strings.Contains(s, "panic serving") {
		l.panics++
		if len(l.lines) < 5 {
			if len(s) > 4000 {
				s = s[:4000]
			}
			l.lines = append(l.lines, s)
		}
	}
	return len(p), nil
}

// ServerPanics returns how many handler panics net/http recovered, with the
// first few log entries.
func (s *Server) ServerPanics() (int, []string) {
	s.errLog.mu.Lock()
	defer s.errLog.mu.Unlock()
	return s.errLog.panics, append([]string(nil), s.errLog.lines...)
}

// NewServer starts both servers with handlers built from opts.
func NewServer(opts ...connect.HandlerOption) *Server {
	reg := NewRegistry()
	hs := Handlers(reg, opts...)
	return NewServerWith(reg, hs, Mux(hs))
}

// NewServerWith starts both servers around an existing handler.
func NewServerWith(reg *Registry, hs map[Kind]*connect.Handler, h http.Handler) *Server {
	s := &Server{Reg: reg, Handlers: hs}
	s.errLog = &logSink{}
	s.H1 = httptest.NewUnstartedServer(h)
	s.H1.Config.ErrorLog = log.New(s.errLog, "", 0)
	s.H1.Start()
	s.H2 = httptest.NewUnstartedServer(h)
	s.H2.EnableHTTP2 = true
	s.H2.Config.ErrorLog = log.New(s.errLog, "", 0)
	s.H2.StartTLS()
	t1 := &http.Transport{
		MaxIdleConnsPerHost: 64,
		DialContext:         (&net.Dialer{Timeout: 10 * time.Second}).DialContext,
		DisableCompression:  true,
	}
	s.Tap1 = wire.NewTap(t1)
	s.c1 = &http.Client{Transport: s.Tap1}
	base := s.H2.Client().Transport.(*http.Transport)
	t2 := base.Clone()
	t2.TLSClientConfig = base.TLSClientConfig.Clone()
	if t2.TLSClientConfig == nil {
		t2.TLSClientConfig = &tls.Config{}
	}
	t2.ForceAttemptHTTP2 = true
	t2.DisableCompression = true
	s.Tap2 = wire.NewTap(t2)
	s.c2 = &http.Client{Transport: s.Tap2}
	return s
}

// HTTPClient returns the tapped client and base URL for an HTTP version.
func (s *Server) HTTPClient(http2 bool) (*http.Client, string, *wire.Tap) {
	if http2 {
		return s.c2, s.H2.URL, s.Tap2
	}
	return s.c1, s.H1.URL, s.Tap1
}

// RawClients builds a client set against this server without the recording
// tap (the race-detector workload must not add synchronisation of its own
// around the transport).
func (s *Server) RawClients(http2 bool, opts ...connect.ClientOption) *ClientSet {
	s.rawOnce.Do(func() {
		t1 := s.Tap1.Next.(*http.Transport).Clone()
		t2 := s.Tap2.Next.(*http.Transport).Clone()
		s.raw1 = &http.Client{Transport: t1}
		s.raw2 = &http.Client{Transport: t2}
	})
	if http2 {
		return NewClientSet(s.raw2, s.H2.URL, opts...)
	}
	return NewClientSet(s.raw1, s.H1.URL, opts...)
}

// RawHTTPClient returns the untapped HTTP client and base URL.
func (s *Server) RawHTTPClient(http2 bool) (*http.Client, string) {
	s.RawClients(http2) // make sure the raw clients exist
	if http2 {
		return s.raw2, s.H2.URL
	}
	return s.raw1, s.H1.URL
}

// Close stops both servers.
func (s *Server) Close() {
	s.c1.CloseIdleConnections()
	s.c2.CloseIdleConnections()
	if s.raw1 != nil {
		s.raw1.CloseIdleConnections()
		s.raw2.CloseIdleConnections()
	}
	done := make(chan struct{})
	go func() {
		s.H1.CloseClientConnections()
		s.H2.CloseClientConnections()
		s.H1.Close()
		s.H2.Close()
		close(done)
	}()
	select {
	case <-done:
	case <-time.After(20 * time.Second):
	}
}

// ---------------------------------------------------------------------------
// Clients.

// ProtoOpts returns the client options selecting protocol and codec.
func ProtoOpts(protocol, codec string) []connect.ClientOption {
	var o []connect.ClientOption
	switch protocol {
	case "grpc":
		o = append(o, connect.WithGRPC())
	case "grpcweb":
		o = append(o, connect.WithGRPCWeb())
	}
	if codec == "json" {
		o = append(o, connect.WithProtoJSON())
	}
	return o
}

// ClientSet is one client per procedure, sharing options and transport.
type ClientSet struct {
	C    map[Kind]*connect.Client[Msg, Msg]
	Tap  *wire.Tap
	Base string
	// CloseTwice makes Do close every stream a second time (the common
	// `defer stream.Close()` plus an explicit Close): the second result is
	// ignored, the call must otherwise be unaffected.
	CloseTwice bool
}

// NewClientSet builds the four clients over any HTTPClient.
func NewClientSet(hc connect.HTTPClient, base string, opts ...connect.ClientOption) *ClientSet {
	cs := &ClientSet{C: make(map[Kind]*connect.Client[Msg, Msg]), Base: base}
	for _, k := range Kinds {
		cs.C[k] = connect.NewClient[Msg, Msg](hc, base+k.Path(), opts...)
	}
	return cs
}

// Clients builds a client set against this server.
func (s *Server) Clients(http2 bool, opts ...connect.ClientOption) *ClientSet {
	hc, base, tap := s.HTTPClient(http2)
	cs := NewClientSet(hc, base, opts...)
	cs.Tap = tap
	return cs
}

// CLog is what the client side observed of one call.
type CLog struct {
	// TrailerPost: the response trailers as seen after three more Receive
	// calls past the end of a bidi stream (nil for the other kinds).
	TrailerPost http.Header
	Kind        Kind
	Msgs        []*Msg // clones at receipt
	HolderSum   uint64 // read from the reused holder without cloning
	Err         error  // terminal error (nil = clean end)
	SendErrs    []error
	Header      http.Header
	Trailer     http.Header
	CloseErr    error
	Sent        int
	PostEnd     []error // results of Receive calls made after the stream had ended (bidi)
}

// Do runs the canonical client program for a kind: send everything, close the
// request side, receive until the end, close the response side.
func (cs *ClientSet) Do(ctx context.Context, kind Kind, id string, hdr http.Header, sends []*Msg) *CLog {
	l := &CLog{Kind: kind}
	setHdr := func(h http.Header) {
		h.Set(wire.CallHeader, id)
		for k, v := range hdr {
			h[k] = append(h[k], v...)
		}
	}
	switch kind {
	case Unary:
		var m *Msg
		if len(sends) > 0 {
			m = sends[0]
		} else {
			m = &Msg{}
		}
		req := connect.NewRequest(m)
		setHdr(req.Header())
		l.Sent = 1
		res, err := cs.C[kind].CallUnary(ctx, req)
		if err != nil {
			l.Err = err
			return l
		}
		l.Msgs = append(l.Msgs, proto.Clone(res.Msg).(*Msg))
		l.Header, l.Trailer = res.Header().Clone(), res.Trailer().Clone()
	case ClientStream:
		st := cs.C[kind].CallClientStream(ctx)
		setHdr(st.RequestHeader())
		for _, m := range sends {
			if err := st.Send(m); err != nil {
				l.SendErrs = append(l.SendErrs, err)
				break
			}
			l.Sent++
		}
		res, err := st.CloseAndReceive()
		if err != nil {
			l.Err = err
			return l
		}
		l.Msgs = append(l.Msgs, proto.Clone(res.Msg).(*Msg))
		l.Header, l.Trailer = res.Header().Clone(), res.Trailer().Clone()
	case ServerStream:
		var m *Msg
		if len(sends) > 0 {
			m = sends[0]
		} else {
			m = &Msg{}
		}
		req := connect.NewRequest(m)
		setHdr(req.Header())
		l.Sent = 1
		st, err := cs.C[kind].CallServerStream(ctx, req)
		if err != nil {
			l.Err = err
			return l
		}
		for st.Receive() {
			h := st.Msg()
			l.HolderSum += h.Id
			l.Msgs = append(l.Msgs, proto.Clone(h).(*Msg))
		}
		l.Err = st.Err()
		l.Header, l.Trailer = st.ResponseHeader().Clone(), st.ResponseTrailer().Clone()
		l.CloseErr = st.Close()
		if cs.CloseTwice {
			_ = st.Close()
		}
	case Bidi:
		st := cs.C[kind].CallBidiStream(ctx)
		setHdr(st.RequestHeader())
		sendDone := make(chan struct{})
		go func() {
			defer close(sendDone)
			for _, m := range sends {
				if err := st.Send(m); err != nil {
					l.SendErrs = append(l.SendErrs, err)
					break
				}
				l.Sent++
			}
			if err := st.CloseRequest(); err != nil {
				l.SendErrs = append(l.SendErrs, err)
			}
		}()
		for {
			m, err := st.Receive()
			if err != nil {
				if !errors.Is(err, io.EOF) {
					l.Err = err
				}
				break
			}
			l.Msgs = append(l.Msgs, proto.Clone(m).(*Msg))
		}
		<-sendDone
		l.Header, l.Trailer = st.ResponseHeader().Clone(), st.ResponseTrailer().Clone()
		// keep polling after the end: Receive must keep reporting an error
		for i := 0; i < 3; i++ {
			m, err := st.Receive()
			l.PostEnd = append(l.PostEnd, err)
			if err == nil {
				l.Msgs = append(l.Msgs, proto.Clone(m).(*Msg))
			}
		}
		l.TrailerPost = st.ResponseTrailer().Clone()
		l.CloseErr = st.CloseResponse()
		if cs.CloseTwice {
			_ = st.CloseResponse()
		}
	}
	return l
}

// WithTimeout runs f and reports whether it returned before d.
func WithTimeout(d time.Duration, f func()) bool {
	done := make(chan struct{})
	go func() {
		defer close(done)
		f()
	}()
	select {
	case <-done:
		return true
	case <-time.After(d):
		return false
	}
}
