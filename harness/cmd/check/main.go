// Command check runs one property check. The parent process re-executes
// itself as a child so that a fatal runtime error in the library (which no
// recover() can see) is attributed and reported instead of silently killing
// the monitors.
package main

import (
	"bytes"
	"encoding/json"
	"fmt"
	"io"
	"os"
	"os/exec"
	"path/filepath"
	"runtime"
	"strings"
	"sync"
	"syscall"
	"time"

	"verif.local/harness/checks"
	"verif.local/harness/ev"
)

func usage() {
	fmt.Fprintln(os.Stderr, "usage: check <ID> quick|thorough")
	os.Exit(2)
}

func main() {
	if len(os.Args) < 3 {
		usage()
	}
	id, tier := os.Args[1], os.Args[2]
	fn, ok := checks.All[id]
	if !ok {
		fmt.Fprintf(os.Stderr, "unknown check %q\n", id)
		os.Exit(2)
	}
	if os.Getenv("VERIF_CHILD") == "1" {
		os.Setenv("VERIF_TIER", tier)
		go memoryWatchdog()
		run := ev.New(id, checks.Levels[id])
		os.Exit(fn(run))
	}
	os.Exit(parent(id, tier))
}

func parent(id, tier string) int {
	dir := os.Getenv("VERIF_DIR")
	if dir == "" {
		dir = "/verif"
	}
	if out := os.Getenv("VERIF_OUT"); out != "" {
		dir = out
	}
	logDir := filepath.Join(dir, "logs")
	_ = os.MkdirAll(logDir, 0o755)
	errPath := filepath.Join(logDir, id+"."+tier+".stderr")
	errFile, err := os.Create(errPath)
	if err != nil {
		fmt.Fprintln(os.Stderr, err)
		return 2
	}
	defer errFile.Close()
	// (a budget, not a verdict: the quick tier takes 1-3 minutes per check on a
	// tree where the property holds; a tree that makes call after call hang pays
	// one watchdog per hang and needs most of this to reach its verdicts)
	limit := 40 * time.Minute
	if tier == "thorough" {
		limit = 3 * time.Hour
	}
	cmd := exec.Command(os.Args[0], os.Args[1:]...)
	cmd.Env = append(os.Environ(), "VERIF_CHILD=1", "GOTRACEBACK=all")
	racePrefix := filepath.Join(logDir, id+".race")
	if checks.RaceEnabled {
		old, _ := filepath.Glob(racePrefix + ".*")
		for _, f := range old {
			_ = os.Remove(f)
		}
		cmd.Env = append(cmd.Env, "GORACE=halt_on_error=0 exitcode=0 history_size=5 log_path="+racePrefix)
	}
	var tail ring
	vcount := &violationCounter{}
	cmd.Stdout = io.MultiWriter(os.Stdout, vcount)
	cmd.Stderr = io.MultiWriter(errFile, &tail)
	if err := cmd.Start(); err != nil {
		fmt.Fprintln(os.Stderr, err)
		return 2
	}
	done := make(chan error, 1)
	go func() { done <- cmd.Wait() }()
	timedOut := false
	select {
	case err = <-done:
	case <-time.After(limit):
		timedOut = true
		_ = cmd.Process.Signal(syscall.SIGQUIT)
		select {
		case err = <-done:
		case <-time.After(20 * time.Second):
			_ = cmd.Process.Kill()
			err = <-done
		}
	}
	if timedOut {
		if n := vcount.count(); n > 0 {
			// The violations already reported (each with its replay file) stand;
			// only the rest of the exploration is missing. A tree that makes call
			// after call hang can use up the budget one watchdog at a time.
			fmt.Fprintf(os.Stderr, "check %s exceeded its wall-clock watchdog (%v) after reporting %d violation(s): they stand, the exploration is incomplete (see %s)\n", id, limit, n, errPath)
			return 1
		}
		fmt.Fprintf(os.Stderr, "check %s exceeded its wall-clock watchdog (%v): inconclusive, see %s\n", id, limit, errPath)
		return 2
	}
	code := 0
	if err != nil {
		code = 2
		if ee, ok := err.(*exec.ExitError); ok {
			code = ee.ExitCode()
		}
	}
	if code == 1 || code == 0 || code == 2 {
		if checks.RaceEnabled && os.Getenv("VERIF_REPLAY_KEY") == "" {
			if rc := raceReports(id, dir, racePrefix); rc == 1 || (rc > code) {
				code = rc
			}
		}
		if code != 2 {
			return code
		}
	}
	out := tail.String()
	crashed := strings.Contains(out, "panic:") || strings.Contains(out, "fatal error:") || strings.Contains(out, "unexpected signal")
	if crashed && strings.Contains(out, "github.com/bufbuild/connect-go") {
		// The process died with library frames on the stack: that is the
		// "never panics" clause failing, attributed to the last case logged.
		replay := filepath.Join(dir, "replays", fmt.Sprintf("%s-crash.txt", id))
		_ = os.MkdirAll(filepath.Dir(replay), 0o755)
		_ = os.WriteFile(replay, []byte(out), 0o644)
		fmt.Printf("VIOLATION property=%s replay=%s\n", id, replay)
		fmt.Printf("  what: process crashed with connect-go frames on the stack (see replay file)\n")
		return 1
	}
	fmt.Fprintf(os.Stderr, "check %s failed (exit %d); stderr tail:\n%s\n", id, code, lastLines(out, 40))
	return 2
}

// violationCounter counts the VIOLATION lines the child prints.
type violationCounter struct {
	mu   sync.Mutex
	part []byte
	n    int
}

func (v *violationCounter) Write(p []byte) (int, error) {
	v.mu.Lock()
	defer v.mu.Unlock()
	v.part = append(v.part, p...)
	for {
		i := bytes.IndexByte(v.part, '\n')
		if i < 0 {
			break
		}
		if bytes.HasPrefix(v.part[:i], []byte("VIOLATION property=")) {
			v.n++
		}
		v.part = v.part[i+1:]
	}
	if len(v.part) > 1<<16 {
		v.part = v.part[len(v.part)-(1<<10):]
	}
	return len(p), nil
}

func (v *violationCounter) count() int {
	v.mu.Lock()
	defer v.mu.Unlock()
	return v.n
}

type ring struct{ buf bytes.Buffer }

func (r *ring) Write(p []byte) (int, error) {
	r.buf.Write(p)
	if r.buf.Len() > 1<<20 {
		b := r.buf.Bytes()
		keep := append([]byte(nil), b[len(b)-(1<<19):]...)
		r.buf.Reset()
		r.buf.Write(keep)
	}
	return len(p), nil
}
func (r *ring) String() string { return r.buf.String() }

func lastLines(s string, n int) string {
	lines := strings.Split(s, "\n")
	if len(lines) > n {
		lines = lines[len(lines)-n:]
	}
	return strings.Join(lines, "\n")
}

// memoryWatchdog ends the child with a diagnostic (exit 2, broken/inconclusive)
// before a runaway allocation can take the whole sandbox down.
func memoryWatchdog() {
	const limit = 40 << 30
	for {
		time.Sleep(250 * time.Millisecond)
		var m runtime.MemStats
		runtime.ReadMemStats(&m)
		if m.HeapAlloc > limit {
			fmt.Fprintf(os.Stderr, "verif: memory watchdog: heap %d bytes exceeds %d; aborting check (inconclusive)\n", m.HeapAlloc, uint64(limit))
			buf := make([]byte, 1<<20)
			n := runtime.Stack(buf, true)
			os.Stderr.Write(buf[:n])
			os.Exit(2)
		}
	}
}

// raceReports parses the race detector's log files, de-duplicates the report
// blocks, attributes them (a block with a connect-go frame is the library's),
// adds the counts to the evidence file and returns 1 if the library raced.
func raceReports(id, dir, prefix string) int {
	files, _ := filepath.Glob(prefix + ".*")
	type block struct {
		text string
		lib  bool
		key  string
	}
	seen := map[string]*block{}
	total := 0
	for _, f := range files {
		b, err := os.ReadFile(f)
		if err != nil {
			continue
		}
		for _, part := range strings.Split(string(b), "==================") {
			if !strings.Contains(part, "WARNING: DATA RACE") {
				continue
			}
			total++
			var frames []string
			lib := false
			for _, line := range strings.Split(part, "\n") {
				t := strings.TrimSpace(line)
				if strings.HasPrefix(t, "github.com/bufbuild/connect-go.") || strings.HasPrefix(t, "github.com/bufbuild/connect-go/") {
					lib = true
					if i := strings.Index(t, "("); i > 0 && len(frames) < 4 {
						frames = append(frames, t[:strings.LastIndex(t, "(")])
					}
				}
			}
			key := strings.Join(frames, " | ")
			if key == "" {
				key = "non-library:" + firstFrame(part)
			}
			if _, ok := seen[key]; !ok {
				seen[key] = &block{text: part, lib: lib, key: key}
			}
		}
	}
	libBlocks, other := 0, 0
	rc := 0
	for _, b := range seen {
		if b.lib {
			libBlocks++
			sum := 0
			for _, c := range b.key {
				sum = sum*31 + int(c)
			}
			replay := filepath.Join(dir, "replays", fmt.Sprintf("%s-race-%08x.txt", id, uint32(sum)))
			_ = os.MkdirAll(filepath.Dir(replay), 0o755)
			_ = os.WriteFile(replay, []byte(b.text), 0o644)
			fmt.Printf("VIOLATION property=%s replay=%s\n", id, replay)
			fmt.Printf("  what: data race reported by the Go race detector with library frames: %s\n", b.key)
			rc = 1
		} else {
			other++
			fmt.Fprintf(os.Stderr, "race report without library frames (harness or runtime): %s\n", b.key)
		}
	}
	// fold the counts into the evidence file
	evPath := filepath.Join(dir, "evidence", id+".json")
	if raw, err := os.ReadFile(evPath); err == nil {
		var doc map[string]any
		if json.Unmarshal(raw, &doc) == nil {
			if cov, ok := doc["coverage"].(map[string]any); ok {
				cov["race_reports_total"] = total
				cov["race_reports_distinct_with_library_frames"] = libBlocks
				cov["race_reports_distinct_without_library_frames"] = other
				cov["race_log_files"] = len(files)
			}
			if libBlocks > 0 {
				if v, ok := doc["violations"].(float64); ok {
					doc["violations"] = v + float64(libBlocks)
				}
			}
			if out, err := json.MarshalIndent(doc, "", " "); err == nil {
				_ = os.WriteFile(evPath, out, 0o644)
			}
		}
	}
	fmt.Printf("race detector: %d report blocks, %d distinct with library frames, %d distinct without\n", total, libBlocks, other)
	if rc == 0 && other > 0 {
		fmt.Fprintln(os.Stderr, "BROKEN: the harness itself raced; fix the harness")
		return 2
	}
	return rc
}

func firstFrame(part string) string {
	for _, line := range strings.Split(part, "\n") {
		t := strings.TrimSpace(line)
		if strings.Contains(t, "(") && strings.Contains(t, ".") && !strings.HasPrefix(t, "WARNING") && !strings.HasPrefix(t, "Write") && !strings.HasPrefix(t, "Read") && !strings.HasPrefix(t, "Previous") && !strings.HasPrefix(t, "Goroutine") {
			return t
		}
	}
	return "?"
}
