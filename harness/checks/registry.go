// Package checks contains one monitor workload per property.
package checks

import "verif.local/harness/ev"

// All maps property ids to their check functions (exit code returned).
var All = map[string]func(*ev.Run) int{}

// Levels maps property ids to the evidence level they report.
var Levels = map[string]string{}

func register(id, level string, f func(*ev.Run) int) {
	All[id] = f
	Levels[id] = level
}
