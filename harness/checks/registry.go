// Package checks contains one monitor workload per property.
package checks

import "verif.local/harness/ev"

// All maps property ids to their check functions (exit code returned).
var All = map[string]func(*ev.Run) int{}

// Levels maps property ids to the evidence level they report.
var Levels = map[string]string{}

// currentRun is the run of the one check this process executes (the parent
// process starts one child per check).
var currentRun *ev.Run

func register(id, level string, f func(*ev.Run) int) {
	All[id] = func(r *ev.Run) int {
		currentRun = r
		return f(r)
	}
	Levels[id] = level
}
