package checks

import (
	"context"
	"errors"
	"fmt"
	"io"
	"net/http"
	"net/http/httptest"
	"os"
	"strings"
	"sync"
	"sync/atomic"
	"time"

	connect "github.com/bufbuild/connect-go"
	"verif.local/harness/ev"
	"verif.local/harness/gen"
	"verif.local/harness/svc"
)

func init() { register("C14", "fault_enumeration", c14) }

// handler programs -----------------------------------------------------------

type c14Handler struct {
	name    string
	build   func() *svc.Program
	sends   int   // messages the handler tries to send
	drains  bool  // receives until the end of the request stream before anything else
	err     error // what it returns
	waits   bool  // blocks on ctx.Done()
	oneRecv bool
}

func c14Err() error {
	return connect.NewError(connect.CodeFailedPrecondition, errors.New("handler says no"))
}

func c14Sends(n, size int) []svc.Step {
	var st []svc.Step
	for i := 0; i < n; i++ {
		st = append(st, svc.Step{Op: "send", Msg: gen.New(uint64(900+i), size, true)})
	}
	return st
}

func c14Handlers() []c14Handler {
	return []c14Handler{
		{name: "drain-send2-ok", drains: true, sends: 2, build: func() *svc.Program {
			return &svc.Program{Steps: append([]svc.Step{{Op: "recvall"}}, c14Sends(2, 30)...)}
		}},
		{name: "drain-error", drains: true, err: c14Err(), build: func() *svc.Program {
			return &svc.Program{Steps: []svc.Step{{Op: "recvall"}}, Return: c14Err()}
		}},
		{name: "recv1-send1-ok", sends: 1, oneRecv: true, build: func() *svc.Program {
			return &svc.Program{Steps: append([]svc.Step{{Op: "recv"}}, c14Sends(1, 30)...)}
		}},
		{name: "return-ok-at-once", build: func() *svc.Program { return &svc.Program{} }},
		{name: "return-error-at-once", err: c14Err(), build: func() *svc.Program { return &svc.Program{Return: c14Err()} }},
		{name: "send3-then-drain-ok", sends: 3, build: func() *svc.Program {
			return &svc.Program{Steps: append(c14Sends(3, 30), svc.Step{Op: "recvall"})}
		}},
		{name: "recv1-send1-error", sends: 1, oneRecv: true, err: c14Err(), build: func() *svc.Program {
			return &svc.Program{Steps: append([]svc.Step{{Op: "recv"}}, c14Sends(1, 30)...), Return: c14Err()}
		}},
		{name: "drain-send-large-ok", drains: true, sends: 2, build: func() *svc.Program {
			return &svc.Program{Steps: append([]svc.Step{{Op: "recvall"}}, c14Sends(2, 300<<10)...)}
		}},
		{name: "wait-for-cancel", waits: true, build: func() *svc.Program {
			return &svc.Program{Steps: []svc.Step{{Op: "waitctx"}}, ReturnCtxErr: true}
		}},
		{name: "send1-wait-for-cancel", waits: true, sends: 1, build: func() *svc.Program {
			return &svc.Program{Steps: append(c14Sends(1, 30), svc.Step{Op: "waitctx"}), ReturnCtxErr: true}
		}},
	}
}

// client programs -------------------------------------------------------------

type c14Client struct {
	name                  string
	ops                   []string
	cancels               bool
	closes                bool // ends with CR...CP (or the typed API's equivalent)
	sendsAfterHandlerDone bool
}

func c14BidiClients() []c14Client {
	mk := func(s string) c14Client {
		ops := strings.Fields(s)
		c := c14Client{name: strings.ReplaceAll(s, " ", ","), ops: ops}
		for _, o := range ops {
			if o == "X" || o == "X0" {
				c.cancels = true
			}
			if o == "Sfill" {
				c.sendsAfterHandlerDone = true
			}
		}
		c.closes = !c.cancels
		return c
	}
	return []c14Client{
		mk("S CR Rall CP"), mk("S S S CR Rall CP"), mk("CR Rall CP"), mk("S R CR Rall CP"), mk("S CR R CP"), mk("S CR CP"),
		mk("S CR Rall R R CP"), mk("Sbig Sbig CR Rall CP"), mk("Sbad CR Rall CP"), mk("S Sbad CR Rall CP"),
		mk("S X Rall CR CP"), mk("S R X R CR CP"), mk("S CR X CP"), mk("X S CR Rall CP"), mk("Sbad X CR CP"), mk("S X CP"),
		mk("S WH Sfill R R CR CP"), mk("WH Sfill Rall CR CP"), mk("S WH Sfill CR Rall CP"),
		// the client learns about the end of the stream from Receive first and sends afterwards
		mk("S Rall Sfill CR CP"), mk("S R Rall S Sfill R CR CP"),
		// cancelled before the request was ever started, then straight to the response side
		mk("X S R CP"), mk("X S CP"), mk("X S Rall CR CP"),
		// cancelled a moment after the request was started: with a delay injected
		// after the round trip the cancellation lands between the arrival of the
		// response and the point where the library starts watching the context
		mk("S P10 X CP"), mk("S P10 X Rall CR CP"),
		// cancelled before anything was sent, and nothing is ever sent
		mk("X CR Rall CP"), mk("X CR CP"),
		// the context was done before the stream was even created
		mk("X0 CR Rall CP"), mk("X0 CR CP"), mk("X0 S CR Rall CP"),
	}
}

func c14HalfDuplexClients(kind svc.Kind) []c14Client {
	switch kind {
	case svc.Unary:
		return []c14Client{{name: "CALL", ops: []string{"CALL"}, closes: true}, {name: "CALLbad", ops: []string{"CALLbad"}, closes: true},
			{name: "X,CALL", ops: []string{"X", "CALL"}, cancels: true}}
	case svc.ClientStream:
		return []c14Client{{name: "S,S,CAR", ops: []string{"S", "S", "CAR"}, closes: true}, {name: "CAR", ops: []string{"CAR"}, closes: true},
			{name: "Sbad,CAR", ops: []string{"Sbad", "CAR"}, closes: true}, {name: "S,X,CAR", ops: []string{"S", "X", "CAR"}, cancels: true},
			{name: "S,WH,Sfill,CAR", ops: []string{"S", "WH", "Sfill", "CAR"}, closes: true, sendsAfterHandlerDone: true},
			{name: "Sbig,Sbig,CAR", ops: []string{"Sbig", "Sbig", "CAR"}, closes: true}}
	case svc.ServerStream:
		return []c14Client{{name: "CALL,Rall,CP", ops: []string{"CALL", "Rall", "CP"}, closes: true}, {name: "CALL,R,CP", ops: []string{"CALL", "R", "CP"}, closes: true},
			{name: "CALL,CP", ops: []string{"CALL", "CP"}, closes: true}, {name: "CALLbad,CP", ops: []string{"CALLbad", "CP"}, closes: true},
			{name: "CALL,R,X,R,CP", ops: []string{"CALL", "R", "X", "R", "CP"}, cancels: true}, {name: "CALL,Rall,R,R,CP", ops: []string{"CALL", "Rall", "R", "R", "CP"}, closes: true}}
	}
	return nil
}

// c14Compatible rules out client/handler pairs that wait for each other by
// construction (those are not library hangs).
func c14Compatible(cl c14Client, h c14Handler) bool {
	if h.waits && !cl.cancels {
		return false // the handler would only end through the harness release
	}
	noDrainFinish := h.name == "return-ok-at-once" || h.name == "return-error-at-once"
	firstS, firstWH, firstR, firstCR := -1, -1, -1, -1
	for i, o := range cl.ops {
		switch {
		case (o == "S" || o == "Sbig" || o == "CALL") && firstS < 0:
			firstS = i
		case o == "WH" && firstWH < 0:
			firstWH = i
		case (o == "R" || o == "Rall") && firstR < 0:
			firstR = i
		case (o == "CR" || o == "CAR" || o == "CALL" || o == "CALLbad") && firstCR < 0:
			firstCR = i
		}
	}
	if firstWH >= 0 {
		// the handler must be able to finish before the client closes its side
		if h.drains || h.waits || h.name == "send3-then-drain-ok" {
			return false
		}
		if h.oneRecv && (firstS < 0 || firstS > firstWH) {
			return false
		}
	}
	firstX := -1
	for i, o := range cl.ops {
		if (o == "X" || o == "X0") && firstX < 0 {
			firstX = i
		}
	}
	if firstR >= 0 && (firstCR < 0 || firstR < firstCR) && (firstX < 0 || firstR < firstX) {
		// receiving before closing the request (and before any cancel): the
		// handler must answer without waiting for the end of the request
		if h.drains {
			return false
		}
		if h.oneRecv && firstS < 0 {
			return false
		}
	}
	for i, o := range cl.ops {
		if o == "Rall" && (firstCR < 0 || i < firstCR) && (firstX < 0 || i < firstX) {
			// receiving everything before closing the request: the handler must
			// be able to finish without seeing the end of the request
			if h.drains || h.waits || h.name == "send3-then-drain-ok" {
				return false
			}
			if h.oneRecv && firstS < 0 {
				return false
			}
		}
	}
	if firstR >= 0 && firstX > firstR && h.waits && h.sends == 0 {
		return false // nothing to receive before the cancel
	}
	_ = noDrainFinish
	return true
}

var c14YieldPoints = []string{"write.beforePipe", "closeWrite", "makeRequest.beforeDo", "makeRequest.afterDo", "makeRequest.afterValidate", "setError.beforeClosePipe", "read.beforeBody", "closeRead.beforeDiscard"}

type c14Case struct {
	http2   bool
	proto   string
	kind    svc.Kind
	client  c14Client
	handler c14Handler
	inject  []string
}

func (c c14Case) key() string {
	k := fmt.Sprintf("c14/h2=%v/%s/%s/client=%s/handler=%s", c.http2, c.proto, c.kind, c.client.name, c.handler.name)
	if len(c.inject) > 0 {
		k += "/delay=" + strings.Join(c.inject, "+")
	}
	return k
}

func c14(run *ev.Run) int {
	run.SetRule("cases = client programs over {Send, Send(unmarshallable), Send(large), CloseRequest, Receive, CloseResponse, cancel, Send-after-handler-finished} (19 bidi programs on HTTP/2; the typed unary / client-stream / server-stream equivalents on HTTP/1.1 and HTTP/2) x 10 handler programs {receive i, send j, drain or not, large sends, wait for cancel, return nil|error} x 3 protocols, without injection (parallel batches) and with a 25 ms delay injected at every single yield point of the duplex call (thorough: every pair) on a reduced program set (sequential); also handler-side read limit with the client waiting on an open request side; programs whose context is done before the stream exists (X0); history: a plain HTTP/1.1 peer answering 200, the same bidi program three times on one client; oracle = stream reference model: every op returns (watchdog), received is a prefix of the handler's sends and complete when the client kept receiving, draining handlers see the client's sends then EOF, after the handler finished Send fails with an error wrapping io.EOF within 3000 x 64 KiB and Receive reports the handler's outcome, Receive errors are sticky, response body closed >= 1x, no library goroutine left; distinct by (HTTP version, protocol, kind, client program, handler program, injected points); responses with an empty body on the wire (zero-valued message below the compression threshold) through a body-decorating transport: the decorator's Close is called")
	run.Assume("'next Receive reports the handler's outcome' is judged only when the tap shows the terminator reached the client (gRPC over HTTP/1.1 can lose trailers when the handler leaves the request body unread: net/http behaviour)")
	srv := svc.NewServer()
	defer srv.Close()
	var sigMu sync.Mutex
	var trace []string
	delays := map[string]time.Duration{}
	connect.VerifSetYield(func(point string) {
		sigMu.Lock()
		trace = append(trace, point)
		d := delays[point]
		sigMu.Unlock()
		if d > 0 {
			time.Sleep(d)
		}
	})
	defer connect.VerifSetYield(nil)
	handlers := c14Handlers()
	var plain, injected []c14Case
	for _, h2 := range []bool{true, false} {
		for _, p := range svc.Protocols {
			for _, kind := range svc.Kinds {
				if kind == svc.Bidi && !h2 {
					continue
				}
				clients := c14HalfDuplexClients(kind)
				if kind == svc.Bidi {
					clients = c14BidiClients()
				}
				for _, cl := range clients {
					for _, h := range handlers {
						if !c14Compatible(cl, h) {
							continue
						}
						plain = append(plain, c14Case{http2: h2, proto: p, kind: kind, client: cl, handler: h})
					}
				}
			}
		}
	}
	// injection set: bidi over HTTP/2 + server stream over HTTP/1.1, reduced programs
	pickClients := map[string]bool{"S,P10,X,CP": true, "S,P10,X,Rall,CR,CP": true, "S,CR,Rall,CP": true, "S,R,CR,Rall,CP": true, "S,X,CP": true, "S,R,X,R,CR,CP": true, "S,CR,CP": true, "S,WH,Sfill,R,R,CR,CP": true, "Sbad,CR,Rall,CP": true, "S,X,Rall,CR,CP": true}
	pickHandlers := map[string]bool{"drain-send2-ok": true, "send3-then-drain-ok": true, "recv1-send1-error": true, "send1-wait-for-cancel": true}
	var pointSets [][]string
	for _, p := range c14YieldPoints {
		pointSets = append(pointSets, []string{p})
	}
	if !run.Quick() {
		for i := range c14YieldPoints {
			for j := i + 1; j < len(c14YieldPoints); j++ {
				pointSets = append(pointSets, []string{c14YieldPoints[i], c14YieldPoints[j]})
			}
		}
	}
	for _, p := range svc.Protocols {
		for _, cl := range c14BidiClients() {
			if !pickClients[cl.name] {
				continue
			}
			for _, h := range handlers {
				if !pickHandlers[h.name] || !c14Compatible(cl, h) {
					continue
				}
				for _, ps := range pointSets {
					injected = append(injected, c14Case{http2: true, proto: p, kind: svc.Bidi, client: cl, handler: h, inject: ps})
				}
			}
		}
		for _, cl := range c14HalfDuplexClients(svc.ServerStream) {
			for _, h := range handlers[:3] {
				if !c14Compatible(cl, h) {
					continue
				}
				for _, ps := range pointSets[:8] {
					if run.Quick() && (ps[0] == "write.beforePipe" || ps[0] == "closeWrite") {
						continue
					}
					injected = append(injected, c14Case{http2: false, proto: p, kind: svc.ServerStream, client: cl, handler: h, inject: ps})
				}
			}
		}
	}
	run.Set("cases_without_injection", len(plain))
	run.Set("cases_with_injection", len(injected))
	signatures := map[string]struct{}{}
	// ---- plain cases in parallel batches with a goroutine census in between
	const batch = 48
	for off := 0; off < len(plain); off += batch {
		end := off + batch
		if end > len(plain) {
			end = len(plain)
		}
		var keys []string
		parallel(16, end-off, func(i int) {
			c := plain[off+i]
			if !run.Want(c.key()) || run.Saturated() {
				return
			}
			c14Run(run, srv, c)
		})
		for _, c := range plain[off:end] {
			keys = append(keys, c.key())
		}
		sigMu.Lock()
		trace = trace[:0]
		sigMu.Unlock()
		if run.Saturated() {
			break
		}
		c14Census(run, fmt.Sprintf("c14/census/batch=%d", off/batch), keys)
		fmt.Fprintf(os.Stderr, "progress: plain batch %d/%d done at %s\n", off/batch+1, (len(plain)+batch-1)/batch, time.Now().Format("15:04:05.000"))
	}
	// ---- injected cases, one at a time
	for _, c := range injected {
		if !run.Want(c.key()) || run.Saturated() {
			continue
		}
		sigMu.Lock()
		trace = trace[:0]
		for k := range delays {
			delete(delays, k)
		}
		for _, p := range c.inject {
			delays[p] = 25 * time.Millisecond
		}
		sigMu.Unlock()
		c14Run(run, srv, c)
		sigMu.Lock()
		sig := strings.Join(trace, ">")
		for k := range delays {
			delete(delays, k)
		}
		sigMu.Unlock()
		signatures[sig] = struct{}{}
		run.Count("injected.cases", 1)
		c14Census(run, c.key()+"/census", []string{c.key()})
		fmt.Fprintf(os.Stderr, "progress: injected %s done at %s\n", c.key(), time.Now().Format("15:04:05.000"))
	}
	c14ReadLimit(run, srv)
	c14DoFails(run)
	c14HandlerReadLimit(run)
	c14EmptyResponses(run)
	c14PlainHTTP1Peer(run)
	run.Set("distinct_interleaving_signatures", len(signatures))
	run.Count("interleaving.signatures", int64(len(signatures)))
	serverPanicCheck(run, srv, "c14")
	return run.Finish("cases", "ops.returned", "census.runs", "body.close.checked", "send_after_finish.checked", "sticky.checked", "injected.cases")
}

var c14Alive struct {
	mu  sync.Mutex
	fns []context.CancelFunc
}

func c14KeepAlive(cancel context.CancelFunc) {
	c14Alive.mu.Lock()
	c14Alive.fns = append(c14Alive.fns, cancel)
	c14Alive.mu.Unlock()
}

func c14ReleaseContexts() {
	c14Alive.mu.Lock()
	fns := c14Alive.fns
	c14Alive.fns = nil
	c14Alive.mu.Unlock()
	for _, f := range fns {
		f()
	}
}

// c14Census waits for quiescence and reports library goroutines that remain.
// The contexts of the calls that were closed properly are still alive while it
// looks; they are cancelled afterwards.
func c14Census(run *ev.Run, key string, cases []string) {
	run.Count("census.runs", 1)
	defer c14ReleaseContexts()
	var left []string
	for i := 0; i < 100; i++ {
		left = libraryGoroutines()
		if len(left) == 0 {
			return
		}
		time.Sleep(50 * time.Millisecond)
	}
	if len(left) > 6 {
		left = left[:6]
	}
	run.Violation(key, fmt.Sprintf("%d goroutines with connect-go frames are still alive 5 s after every call of the batch finished", len(left)), map[string]any{"cases": cases, "goroutines": left})
}

func c14Run(run *ev.Run, srv *svc.Server, c c14Case) {
	key := c.key()
	prog := c.handler.build()
	call := srv.Reg.New("c14", prog)
	defer srv.Reg.Drop(call)
	cs := srv.Clients(c.http2, svc.ProtoOpts(c.proto, "proto")...)
	defer cs.Tap.Forget(call.ID)
	jitter := "none"
	if len(c.inject) == 0 {
		// two thirds of the un-injected cases run under a seeded schedule of
		// small delays at the HTTP boundary (request-body reads by the transport,
		// response-body reads by the library): the stream model must hold under
		// any of them
		r := run.Rand(key + "/jitter")
		if prof := r.Intn(3); prof > 0 {
			pick := func() time.Duration {
				return []time.Duration{0, 0, 0, time.Millisecond, 5 * time.Millisecond, 20 * time.Millisecond}[r.Intn(6)]
			}
			hc, base, tap := srv.HTTPClient(c.http2)
			jt := jitterTransport{next: hc.Transport}
			for k := 0; k < 8; k++ {
				var a, b time.Duration
				if prof == 1 {
					a = pick()
				} else {
					b = pick()
				}
				jt.reqReads = append(jt.reqReads, a)
				jt.resReads = append(jt.resReads, b)
			}
			cs = svc.NewClientSet(&http.Client{Transport: jt}, base, svc.ProtoOpts(c.proto, "proto")...)
			cs.Tap = tap
			jitter = []string{"", "request-reads", "response-reads"}[prof]
			run.Count("cases.with_boundary_jitter", 1)
		}
	}
	ctx, cancel := context.WithCancel(context.Background())
	sd := &scripted{cs: cs, kind: c.kind, callID: call.ID, ctx: ctx, cancel: cancel, timeout: 15 * time.Second, handlerDone: call.Log.Finished}
	cr := sd.run(c.client.ops)
	run.Count("cases", 1)
	if cr.Slow {
		// an operation needed longer than its watchdog but did return: the
		// machine is too slow to time this case (recorded as inconclusive)
		call.ReleaseNow()
		cancel()
		return
	}
	inj := "none"
	if len(c.inject) > 0 {
		inj = strings.Join(c.inject, "+")
	}
	run.Eval(fmt.Sprintf("h2=%v|%s|%s|%s|%s|%s", c.http2, c.proto, c.kind, c.client.name, c.handler.name, inj))
	ex := cs.Tap.Get(call.ID)
	detail := map[string]any{"case": key, "ops": describeOps(cr), "client_received": gen.DescribeSeq(cr.Received), "boundary_jitter": jitter}
	fail := func(suffix, what string) {
		hl := call.Log
		detail["handler_received"] = gen.DescribeSeq(hl.Received)
		detail["handler_returned"] = errStr(hl.Returned)
		if ex != nil {
			eof, berr, tr := ex.State()
			detail["tap"] = map[string]any{"status": ex.Status, "body_eof": eof, "body_err": errStr(berr), "trailers": tr, "body_closes": ex.Closes()}
		}
		run.Violation(key+"/"+suffix, what, detail)
	}
	defer func() {
		call.ReleaseNow()
		if cr.Hung || c.client.cancels {
			cancel()
			return
		}
		// A client that closed both sides owes the library nothing more: its
		// context stays alive until the goroutine census has run, as the context
		// of a long-lived caller would.
		c14KeepAlive(cancel)
	}()
	// I1: every op returned
	for _, o := range cr.Ops {
		if !o.Returned {
			detail["goroutines"] = trunc(o.Dump, 30000)
			fail("hang", fmt.Sprintf("client operation %s did not return within 15 s", o.Op))
			return
		}
		run.Count("ops.returned", 1)
	}
	// every error is coded
	for _, o := range cr.Ops {
		if o.Err != nil && !errors.Is(o.Err, io.EOF) {
			var ce *connect.Error
			if !errors.As(o.Err, &ce) || ce.Code() == 0 {
				fail("uncoded", fmt.Sprintf("operation %s returned an uncoded error: %v", o.Op, o.Err))
				return
			}
		}
	}
	// wait for the handler (it terminates by construction once released/cancelled)
	if c.client.cancels || c.handler.waits {
		select {
		case <-call.Log.Finished:
		case <-time.After(3 * time.Second):
			call.ReleaseNow()
		}
	}
	// a handler that was never invoked (request never sent) has nothing to finish
	handlerWait := time.Now()
	for {
		select {
		case <-call.Log.Finished:
		case <-time.After(50 * time.Millisecond):
			if atomic.LoadInt32(&call.Log.Invocations) == 0 && time.Since(handlerWait) > 400*time.Millisecond {
				break
			}
			if time.Since(handlerWait) < 20*time.Second {
				continue
			}
			fail("handler-hang", "handler did not finish within 20 s after the client program ended")
			return
		}
		break
	}
	hl := call.Log
	// I2: received is a prefix of what the handler sends
	var hsends []*gen.Msg
	for _, st := range prog.Steps {
		if st.Op == "send" {
			hsends = append(hsends, st.Msg)
		}
	}
	if c.kind == svc.Unary || c.kind == svc.ClientStream {
		if len(hsends) > 1 {
			hsends = hsends[len(hsends)-1:] // these kinds answer with their last "send"
		}
		if len(hsends) == 0 {
			hsends = []*gen.Msg{{}}
		}
	}
	if okp, why := isPrefix(cr.Received, hsends); !okp {
		fail("not-prefix", "client received messages that are not a prefix of the handler's sends: "+why)
		return
	}
	usedBad := false
	rall := false
	for _, o := range c.client.ops {
		if o == "Sbad" || o == "CALLbad" {
			usedBad = true
		}
		if o == "Rall" || o == "CAR" || (o == "CALL" && c.kind == svc.Unary) {
			rall = true
		}
	}
	// Did the transport deliver the complete response to the library? (If the
	// tap saw the body fail - e.g. net/http closing an HTTP/1.1 connection
	// because the handler left the request unread - the handler's outcome is
	// not observable by any client.)
	terminatorSeen := false
	if ex != nil && ex.Status != 0 {
		eof, berr, tr := ex.State()
		terminatorSeen = eof && berr == nil
		if c.proto == "grpc" {
			terminatorSeen = (eof && tr.Get("Grpc-Status") != "") || ex.RespHeader.Get("Grpc-Status") != ""
		}
	}
	lastRecvErr := func() error {
		var e error
		for _, o := range cr.Ops {
			if (o.Op == "R" || o.Op == "CAR" || (o.Op == "CALL" && c.kind == svc.Unary)) && o.Err != nil {
				e = o.Err
				break
			}
		}
		return e
	}
	// I3: a client that keeps receiving without cancelling learns the handler's outcome
	if rall && !c.client.cancels && !usedBad && !c.client.sendsAfterHandlerDone && hl.Invocations == 1 && terminatorSeen {
		run.Count("outcome.checked", 1)
		e := lastRecvErr()
		if c.handler.err == nil {
			if len(cr.Received) != len(hsends) {
				fail("incomplete", fmt.Sprintf("client kept receiving but got %d of the handler's %d messages", len(cr.Received), len(hsends)))
				return
			}
			if e != nil && !errors.Is(e, io.EOF) {
				fail("spurious-error", "handler returned nil but the client's Receive reported "+errStr(e))
				return
			}
		} else if connect.CodeOf(e) != connect.CodeOf(c.handler.err) || e == nil {
			fail("outcome", fmt.Sprintf("handler returned %v, the client's Receive reported %v", c.handler.err, e))
			return
		}
	}
	// I4: a draining handler sees exactly the client's sends, then EOF
	if c.handler.drains && !c.client.cancels && hl.Invocations == 1 && !c.client.sendsAfterHandlerDone && !usedBad && (c.kind == svc.ClientStream || c.kind == svc.Bidi) {
		run.Count("drain.checked", 1)
		if same, why := gen.SameSeq(hl.Received, cr.SentOK); !same {
			fail("drain", "draining handler did not see exactly the client's successful sends: "+why)
			return
		}
		if !hl.SawEOF {
			fail("no-eof", "client closed its side but the draining handler did not see end-of-request: "+errStr(hl.RecvErr))
			return
		}
	}
	// I5: Send after the handler finished
	if c.client.sendsAfterHandlerDone && hl.Invocations == 1 {
		run.Count("send_after_finish.checked", 1)
		var fillErr error
		fills := 0
		for _, o := range cr.Ops {
			if o.Op == "Sfill" {
				fills++
				if o.Err != nil {
					fillErr = o.Err
				}
			}
		}
		run.Count("send_after_finish.sends_until_eof", int64(fills))
		mk := fmt.Sprintf("send_after_finish.max_sends_until_eof.h2=%v", c.http2)
		if int64(fills) > run.Counter(mk) {
			run.Count(mk, int64(fills)-run.Counter(mk))
		}
		// On HTTP/2 the peer cannot take more than its flow-control window
		// (1 MiB per stream for net/http's server) once the handler has
		// returned, so the failure has to come within a few sends; 40 x 64 KiB
		// leaves a wide margin (4-5 sends observed).
		if c.http2 && fills > 40 {
			fail("send-fails-late", fmt.Sprintf("%d sends of 64 KiB succeeded after the handler had finished before Send failed; on HTTP/2 the handler side keeps consuming the request", fills-1))
			return
		}
		if fillErr == nil {
			fail("send-never-fails", fmt.Sprintf("%d sends of 64 KiB after the handler had finished all succeeded; Send must fail with an error wrapping io.EOF", fills))
			return
		}
		if !errors.Is(fillErr, io.EOF) {
			fail("send-wrong-error", "Send after the handler finished failed with an error that does not wrap io.EOF: "+errStr(fillErr))
			return
		}
		if terminatorSeen {
			e := lastRecvErr()
			if c.handler.err != nil && connect.CodeOf(e) != connect.CodeOf(c.handler.err) {
				fail("outcome-after-send", fmt.Sprintf("after Send reported the stream closed, Receive must report the handler's outcome %v, got %v", c.handler.err, e))
				return
			}
			if c.handler.err == nil && e != nil && !errors.Is(e, io.EOF) {
				fail("outcome-after-send", "handler returned nil but Receive reported "+errStr(e))
				return
			}
		}
	}
	// I6: Receive errors are sticky
	seenErr := false
	for _, o := range cr.Ops {
		if o.Op != "R" {
			continue
		}
		if seenErr {
			run.Count("sticky.checked", 1)
			if o.Err == nil {
				fail("not-sticky", "Receive reported an error and a later Receive succeeded")
				return
			}
		}
		if o.Err != nil {
			seenErr = true
		}
	}
	// I7: the response body was closed
	endsWithClose := false
	for _, o := range c.client.ops {
		if o == "CP" || o == "CAR" || (o == "CALL" && c.kind == svc.Unary) || (o == "CALLbad" && c.kind == svc.Unary) {
			endsWithClose = true
		}
	}
	if ex != nil && ex.Status != 0 && endsWithClose {
		run.Count("body.close.checked", 1)
		// the transport may still be tearing down; Close is called synchronously by the API
		if ex.Closes() < 1 {
			fail("body-not-closed", "the client program finished but the HTTP response body was never closed")
			return
		}
	}
	if len(c.inject) == 0 && c.kind == svc.Bidi && c.proto == "connect" && c.handler.name == "drain-send2-ok" {
		run.Sample(map[string]any{"case": key, "ops": describeOps(cr), "received": len(cr.Received)})
	}
	if len(c.inject) > 0 && c.client.name == "S,X,CP" {
		run.Sample(map[string]any{"case": key, "ops": describeOps(cr)})
	}
}

// c14ReadLimit: the receiver rejects a message locally (client read limit)
// while the stream is still open in both directions and the handler is waiting
// for the client's next move. The client program is an ordinary one (send,
// receive, close request, receive the rest, close response); every call must
// return, the rejected Receive included.
func c14ReadLimit(run *ev.Run, srv *svc.Server) {
	type rl struct {
		kind    svc.Kind
		ops     []string
		handler string
		build   func() *svc.Program
	}
	big := func() svc.Step { return svc.Step{Op: "send", Msg: gen.New(990, 400, true)} }
	small := func() svc.Step { return svc.Step{Op: "send", Msg: gen.New(991, 10, true)} }
	families := []rl{
		{svc.Bidi, []string{"S", "R", "CR", "Rall", "CP"}, "recv1-sendbig-drain-ok", func() *svc.Program {
			return &svc.Program{Steps: []svc.Step{{Op: "recv"}, big(), {Op: "recvall"}}}
		}},
		{svc.Bidi, []string{"S", "R", "S", "CR", "Rall", "CP"}, "recv1-sendbig-drain-send1-ok", func() *svc.Program {
			return &svc.Program{Steps: []svc.Step{{Op: "recv"}, big(), {Op: "recvall"}, small()}}
		}},
		{svc.ServerStream, []string{"CALL", "R", "R", "CP"}, "sendbig-send1-ok", func() *svc.Program {
			return &svc.Program{Steps: []svc.Step{{Op: "recv"}, big(), small()}}
		}},
	}
	var wg sync.WaitGroup
	for _, p := range svc.Protocols {
		for _, f := range families {
			key := fmt.Sprintf("c14/readlimit/h2=true/%s/%s/client=%s/handler=%s", p, f.kind, strings.Join(f.ops, ","), f.handler)
			if !run.Want(key) {
				continue
			}
			wg.Add(1)
			go func(p string, f rl, key string) {
				defer wg.Done()
				call := srv.Reg.New("c14rl", f.build())
				defer srv.Reg.Drop(call)
				cs := srv.Clients(true, append(svc.ProtoOpts(p, "proto"), connect.WithReadMaxBytes(100))...)
				defer cs.Tap.Forget(call.ID)
				ctx, cancel := context.WithCancel(context.Background())
				sd := &scripted{cs: cs, kind: f.kind, callID: call.ID, ctx: ctx, cancel: cancel, timeout: 15 * time.Second, handlerDone: call.Log.Finished, noGrace: run.KnownOpen(key + "/hang")}
				cr := sd.run(f.ops)
				if cr.Slow {
					cancel()
					call.ReleaseNow()
					return
				}
				if cr.Hung {
					defer cancel()
				} else {
					c14KeepAlive(cancel)
				}
				run.Count("cases", 1)
				run.Count("readlimit.cases", 1)
				run.Eval(fmt.Sprintf("readlimit|%s|%s|%s", p, f.kind, f.handler))
				detail := map[string]any{"case": key, "client_read_limit": 100, "ops": describeOps(cr)}
				for _, o := range cr.Ops {
					run.Count("ops.returned", 1)
					if !o.Returned {
						detail["goroutines"] = trunc(o.Dump, 20000)
						run.Violation(key+"/hang", fmt.Sprintf("client operation %s did not return within 15 s (the handler had answered and was waiting for the client)", o.Op), detail)
						cancel()
						call.ReleaseNow()
						return
					}
				}
				sawErr := false
				for _, o := range cr.Ops {
					if o.Op == "R" && o.Err != nil && !errors.Is(o.Err, io.EOF) {
						sawErr = true
					}
				}
				if !sawErr {
					run.Violation(key+"/not-rejected", "no Receive reported the over-limit message", detail)
				}
				if fin, _ := waitHandler(call, 5*time.Second); !fin {
					run.Violation(key+"/handler", "the handler did not finish within 5 s of the client closing both sides", detail)
				}
			}(p, f, key)
		}
	}
	wg.Wait()
	c14Census(run, "c14/readlimit/census", []string{"c14/readlimit"})
}

// c14DoFails: the HTTP client fails before there is any response (connection
// refused, TLS failure, a custom HTTPClient returning an error), possibly after
// it has read part of the request body. The client program still closes both
// sides; every call returns, and nothing of the library stays behind while the
// caller's context is still alive.
func c14DoFails(run *ev.Run) {
	type prog struct {
		kind svc.Kind
		ops  []string
	}
	progs := []prog{
		{svc.Bidi, []string{"S", "CR", "Rall", "CP"}},
		{svc.Bidi, []string{"S", "R", "CR", "CP"}},
		{svc.Bidi, []string{"CR", "CP"}},
		{svc.Bidi, []string{"S", "S", "CP"}},
		{svc.ServerStream, []string{"CALL", "Rall", "CP"}},
		{svc.ClientStream, []string{"S", "CAR"}},
		{svc.Unary, []string{"CALL"}},
	}
	var keys []string
	for _, p := range svc.Protocols {
		for _, pr := range progs {
			for _, reads := range []int{0, 1} { // (a transport that waits for more of an open request stream than the program sends would be a harness deadlock)
				key := fmt.Sprintf("c14/do-fails/%s/%s/client=%s/reads=%d", p, pr.kind, strings.Join(pr.ops, ","), reads)
				if !run.Want(key) {
					continue
				}
				keys = append(keys, key)
				ft := &failingTransport{reads: reads, chunk: 7}
				cs := svc.NewClientSet(ft, "http://verif.local", svc.ProtoOpts(p, "proto")...)
				ctx, cancel := context.WithCancel(context.Background())
				sd := &scripted{cs: cs, kind: pr.kind, callID: "none", ctx: ctx, cancel: cancel, timeout: 15 * time.Second, handlerDone: make(chan struct{})}
				cr := sd.run(pr.ops)
				run.Count("cases", 1)
				run.Count("do_fails.cases", 1)
				run.Eval(fmt.Sprintf("do-fails|%s|%s|%s|reads=%d", p, pr.kind, strings.Join(pr.ops, ","), reads))
				if cr.Slow {
					cancel()
					continue
				}
				detail := map[string]any{"case": key, "ops": describeOps(cr)}
				hung := false
				for _, o := range cr.Ops {
					run.Count("ops.returned", 1)
					if !o.Returned {
						detail["goroutines"] = trunc(o.Dump, 20000)
						run.Violation(key+"/hang", fmt.Sprintf("client operation %s did not return after the HTTP client had failed", o.Op), detail)
						hung = true
						break
					}
					if o.Err != nil && !errors.Is(o.Err, io.EOF) {
						var ce *connect.Error
						if !errors.As(o.Err, &ce) || ce.Code() == 0 {
							run.Violation(key+"/uncoded", fmt.Sprintf("operation %s returned an uncoded error: %v", o.Op, o.Err), detail)
							break
						}
					}
				}
				if hung {
					cancel()
					continue
				}
				c14KeepAlive(cancel) // the caller's context outlives the call
			}
		}
	}
	c14Census(run, "c14/do-fails/census", keys)
}

// c14HandlerReadLimit: the read limit is on the handler. A bidi client sends a
// message above it and then waits for the answer with its request side still
// open (it has more to say, depending on the answer). The handler's Receive
// rejects the message; rejecting it must not wait for the client to finish the
// request stream, or both sides wait for each other.
func c14HandlerReadLimit(run *ev.Run) {
	srv := svc.NewServer(connect.WithReadMaxBytes(100))
	defer srv.Close()
	type rl struct {
		ops     []string
		handler string
		build   func() *svc.Program
	}
	families := []rl{
		{[]string{"Sbig", "R", "CR", "CP"}, "recv1-return-its-error", func() *svc.Program {
			return &svc.Program{ReturnFirstRecvErr: true, Steps: []svc.Step{{Op: "recv"}}}
		}},
		{[]string{"S", "Sbig", "R", "CR", "Rall", "CP"}, "recv2-send1-drain-ok", func() *svc.Program {
			return &svc.Program{Steps: []svc.Step{{Op: "recv"}, {Op: "recv"}, {Op: "send", Msg: gen.New(992, 10, true)}, {Op: "recvall"}}}
		}},
	}
	var wg sync.WaitGroup
	for _, p := range svc.Protocols {
		for _, f := range families {
			key := fmt.Sprintf("c14/handler-readlimit/h2=true/%s/bidi/client=%s/handler=%s", p, strings.Join(f.ops, ","), f.handler)
			if !run.Want(key) {
				continue
			}
			wg.Add(1)
			go func(p string, f rl, key string) {
				defer wg.Done()
				call := srv.Reg.New("c14hrl", f.build())
				defer srv.Reg.Drop(call)
				cs := srv.Clients(true, svc.ProtoOpts(p, "proto")...)
				defer cs.Tap.Forget(call.ID)
				ctx, cancel := context.WithCancel(context.Background())
				sd := &scripted{cs: cs, kind: svc.Bidi, callID: call.ID, ctx: ctx, cancel: cancel, timeout: 15 * time.Second, handlerDone: call.Log.Finished}
				cr := sd.run(f.ops)
				if cr.Slow {
					cancel()
					call.ReleaseNow()
					return
				}
				if cr.Hung {
					defer cancel()
				} else {
					c14KeepAlive(cancel)
				}
				run.Count("cases", 1)
				run.Count("readlimit.handler_cases", 1)
				run.Eval(fmt.Sprintf("handler-readlimit|%s|%s", p, f.handler))
				detail := map[string]any{"case": key, "handler_read_limit": 100, "ops": describeOps(cr)}
				for _, o := range cr.Ops {
					run.Count("ops.returned", 1)
					if !o.Returned {
						detail["goroutines"] = trunc(o.Dump, 20000)
						run.Violation(key+"/hang", fmt.Sprintf("client operation %s did not return within 15 s (the handler was rejecting an over-limit message while the client waited for its answer)", o.Op), detail)
						cancel()
						call.ReleaseNow()
						return
					}
				}
				if fin, _ := waitHandler(call, 5*time.Second); !fin {
					run.Violation(key+"/handler", "the handler did not finish within 5 s of the client closing both sides", detail)
				}
			}(p, f, key)
		}
	}
	wg.Wait()
}

// c14PlainHTTP1Peer: the peer is not this library - an HTTP/1.1 server (a
// proxy that downgraded the connection, a misrouted path) that reads the
// request and answers 200. Bidi calls cannot work there and fail; the same
// client then makes the same call again and again. Every operation of every
// call returns, and nothing of the library stays behind.
func c14PlainHTTP1Peer(run *ev.Run) {
	for _, p := range svc.Protocols {
		key := fmt.Sprintf("c14/plain-http1-peer/%s", p)
		if !run.Want(key) {
			continue
		}
		ct := contentType(p, "proto", svc.Bidi)
		peer := httptest.NewServer(http.HandlerFunc(func(w http.ResponseWriter, r *http.Request) {
			_, _ = io.Copy(io.Discard, r.Body)
			w.Header().Set("Content-Type", ct)
			w.WriteHeader(200)
		}))
		hc := &http.Client{Transport: &http.Transport{}}
		cs := svc.NewClientSet(hc, peer.URL, svc.ProtoOpts(p, "proto")...)
		for n := 1; n <= 3; n++ {
			ctx, cancel := context.WithCancel(context.Background())
			sd := &scripted{cs: cs, kind: svc.Bidi, callID: fmt.Sprintf("peer-%d", n), ctx: ctx, cancel: cancel, timeout: 15 * time.Second}
			cr := sd.run([]string{"S", "CR", "R", "CP"})
			run.Count("cases", 1)
			run.Count("plain_http1_peer.calls", 1)
			run.Eval(fmt.Sprintf("plain-http1-peer|%s|call=%d", p, n))
			detail := map[string]any{"protocol": p, "call_number_on_this_client": n, "ops": describeOps(cr)}
			hung := false
			for _, o := range cr.Ops {
				run.Count("ops.returned", 1)
				if !o.Returned {
					detail["goroutines"] = trunc(o.Dump, 20000)
					run.Violation(fmt.Sprintf("%s/call=%d/hang", key, n), fmt.Sprintf("operation %s of bidi call number %d on a client whose peer is a plain HTTP/1.1 server did not return within 15 s", o.Op, n), detail)
					hung = true
					break
				}
			}
			if hung || cr.Slow {
				cancel()
				break
			}
			c14KeepAlive(cancel)
		}
		hc.CloseIdleConnections()
		peer.Close()
	}
	c14Census(run, "c14/plain-http1-peer/census", []string{"c14/plain-http1-peer"})
}

// c14EmptyResponses: responses whose body is empty on the wire (a zero-valued
// message below the handler's compression threshold, so Content-Length is 0)
// travel through a transport that decorates every response body; the
// decorator's Close must still be called - that is where such middleware
// (tracing, in-flight limits) finishes its bookkeeping.
func c14EmptyResponses(run *ev.Run) {
	srv := svc.NewServer(connect.WithCompressMinBytes(64))
	defer srv.Close()
	for _, h2 := range []bool{false, true} {
		for _, p := range svc.Protocols {
			for _, kind := range []svc.Kind{svc.Unary, svc.ClientStream, svc.ServerStream} {
				for _, shape := range []string{"zero-valued-message", "small-message"} {
					key := fmt.Sprintf("c14/empty-response/h2=%v/%s/%s/%s", h2, p, kind, shape)
					if !run.Want(key) {
						continue
					}
					msg := &gen.Msg{}
					if shape == "small-message" {
						msg = &gen.Msg{Id: 42}
					}
					prog := &svc.Program{Steps: []svc.Step{{Op: "recvall"}, {Op: "send", Msg: msg}}}
					call := srv.Reg.New("c14e", prog)
					cs := srv.Clients(h2, svc.ProtoOpts(p, "proto")...)
					var cl *svc.CLog
					ok, dump := watchdog(30*time.Second, func() {
						cl = cs.Do(context.Background(), kind, call.ID, nil, []*gen.Msg{{Id: 1}})
					})
					run.Count("cases", 1)
					run.Eval(fmt.Sprintf("empty-response|%v|%s|%s|%s", h2, p, kind, shape))
					ex := cs.Tap.Get(call.ID)
					detail := map[string]any{"case": key}
					if !ok {
						run.Violation(key+"/hang", "call did not return", trunc(dump, 20000))
					} else if cl.Err != nil {
						detail["client_err"] = errStr(cl.Err)
						run.Violation(key+"/failed", "an ordinary call with a tiny response failed: "+errStr(cl.Err), detail)
					} else if ex != nil && ex.Status != 0 {
						run.Count("body.close.checked", 1)
						detail["response_body_bytes"] = ex.RespBody.Len()
						if ex.Closes() < 1 {
							run.Violation(key+"/body-not-closed", "the call returned but the HTTP response body (as decorated by the transport) was never closed", detail)
						}
					}
					srv.Reg.Drop(call)
					cs.Tap.Forget(call.ID)
				}
			}
		}
	}
}
