package checks

import (
	"context"
	"fmt"
	"strings"
	"sync/atomic"
	"time"

	connect "github.com/bufbuild/connect-go"
	"verif.local/harness/ev"
	"verif.local/harness/gen"
	"verif.local/harness/refcodec"
	"verif.local/harness/svc"
)

// failingCompressor runs calls through a registered compression whose
// Compressor.Close refuses inputs over 600 bytes (it returns an error and
// writes nothing, which the interface allows), in both directions, over real
// sockets. Two oracles share the executions: delivery (C08: a message the
// compressor refused is never delivered as anything else, the sender learns
// about it, small messages are unaffected) and the wire (C05: whatever the
// handler sends in that situation is still a well-formed response under the
// reference decoder - in particular no encoding header over a body that was
// not encoded).
func failingCompressor(run *ev.Run, prefix string, wireOracle bool) {
	stats := &svc.AlgoStats{FailOver: 600}
	zd, zc := svc.Algo("Zz-Xor", stats)
	srv := svc.NewServer(connect.WithCompression("Zz-Xor", zd, zc))
	defer srv.Close()
	for _, h2 := range []bool{false, true} {
		for _, protocol := range svc.Protocols {
			for _, kind := range svc.Kinds {
				if kind == svc.Bidi && !h2 {
					continue
				}
				for _, dir := range []string{"response", "request"} {
					for _, size := range []int{40, 3000} {
						key := fmt.Sprintf("%s/failing-compressor/h2=%v/%s/%s/%s/size=%d", prefix, h2, protocol, kind, dir, size)
						if !run.Want(key) {
							continue
						}
						big := gen.New(7001, size, false)
						small := &gen.Msg{Id: 1}
						prog := &svc.Program{Steps: []svc.Step{{Op: "recvall"}, {Op: "send", Msg: small}}}
						sends := []*gen.Msg{big}
						if dir == "response" {
							prog = &svc.Program{Steps: []svc.Step{{Op: "recvall"}, {Op: "send", Msg: big}}}
							sends = []*gen.Msg{small}
						}
						opts := append(svc.ProtoOpts(protocol, "proto"), connect.WithAcceptCompression("Zz-Xor", zd, zc))
						if dir == "request" {
							opts = append(opts, connect.WithSendCompression("Zz-Xor"))
						}
						call := srv.Reg.New("fc", prog)
						cs := srv.Clients(h2, opts...)
						before := atomic.LoadInt64(&stats.Refusals)
						var cl *svc.CLog
						ok, dump := watchdog(30*time.Second, func() {
							cl = cs.Do(context.Background(), kind, call.ID, nil, sends)
						})
						refused := atomic.LoadInt64(&stats.Refusals) - before
						run.Eval(fmt.Sprintf("failing-compressor|%v|%s|%s|%s|%d", h2, protocol, kind, dir, size))
						run.Count("failing_compressor.calls", 1)
						hl := call.Log
						detail := map[string]any{"case": key, "refusals": refused}
						if !ok {
							run.Violation(key+"/hang", "call did not return", trunc(dump, 20000))
							srv.Reg.Drop(call)
							continue
						}
						select {
						case <-hl.Finished:
						case <-time.After(10 * time.Second):
						}
						detail["client_err"], detail["client_msgs"], detail["handler_received"] = errStr(cl.Err), gen.DescribeSeq(cl.Msgs), gen.DescribeSeq(hl.Received)
						ex := cs.Tap.Get(call.ID)
						if !wireOracle {
							want := []*gen.Msg{big}
							got := cl.Msgs
							if dir == "request" {
								got = hl.Received
							}
							switch {
							case refused == 0:
								// within the cap: everything is delivered as sent
								if same, why := gen.SameSeq(got, want); !same || cl.Err != nil {
									run.Violation(key+"/small-affected", "a message within the compressor's cap was not delivered intact: "+why+" / "+errStr(cl.Err), detail)
								}
							default:
								run.Count("failing_compressor.refusals_observed", 1)
								// the sender was told: its Send (or, for a unary response,
								// the client's call) failed
								told := cl.Err != nil || len(cl.SendErrs) > 0
								if dir == "response" && kind != svc.Unary && kind != svc.ClientStream {
									told = len(hl.SendErrs) > 0 || cl.Err != nil
								}
								same, _ := gen.SameSeq(got, want)
								switch {
								case !told:
									run.Violation(key+"/silent", "the compressor refused the message and neither a Send nor the call reported a failure", detail)
								case dir == "response" && len(got) > 0 && !same:
									run.Violation(key+"/delivered-different", "the compressor refused the message, yet the client was handed a message (different from the one sent)", detail)
								case dir == "request" && len(got) > 0 && !same && cl.Err == nil:
									run.Violation(key+"/delivered-different", "the compressor refused the message, yet the handler was handed a different message and the call succeeded", detail)
								case dir == "request" && len(got) > 0 && !same:
									// (pinned tree, unary: the request still goes out with an empty
									// body after the failed Send and the handler runs on a
									// zero-valued message; the client's call fails, so no result of
									// it is used. Recorded as an observation - C08 does not speak
									// about calls whose sender already failed.)
									run.Count("failing_compressor.handler_ran_after_failed_unary_send", 1)
								}
							}
						} else if ex != nil && ex.Status != 0 && dir == "response" {
							streaming := !(protocol == "connect" && kind == svc.Unary)
							d := refcodec.DecodeResponse(protocol, streaming, ex.Status, ex.RespHeader, ex.RespBytes(), ex.Trailer, svc.RefAlgos())
							run.Count("failing_compressor.responses_decoded", 1)
							if len(d.Problems) > 0 {
								detail["problems"] = d.Problems
								detail["status"], detail["header"] = ex.Status, ex.RespHeader
								detail["body_text"] = trunc(string(ex.RespBytes()), 300)
								run.Violation(key+"/malformed", "response written after a compressor failure is not well-formed: "+strings.Join(d.Problems, "; "), detail)
							}
						}
						srv.Reg.Drop(call)
						cs.Tap.Forget(call.ID)
					}
				}
			}
		}
	}
}
