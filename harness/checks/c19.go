package checks

import (
	"context"
	"errors"
	"fmt"
	"net/http"
	"reflect"
	"runtime"
	"strings"
	"sync"
	"time"

	connect "github.com/bufbuild/connect-go"
	"google.golang.org/protobuf/proto"
	"google.golang.org/protobuf/types/known/anypb"
	"google.golang.org/protobuf/types/known/wrapperspb"
	"verif.local/harness/ev"
	"verif.local/harness/gen"
	"verif.local/harness/svc"
	"verif.local/harness/wire"
)

func init() { register("C19", "exploration", c19) }

type c19Struct struct {
	A int
	B string
}

type isAbortErr struct{}

func (isAbortErr) Error() string        { return "looks like an abort" }
func (isAbortErr) Is(target error) bool { return target == http.ErrAbortHandler }

type c19Value struct {
	name string
	val  any
}

func c19Values() []c19Value {
	ptr := &c19Struct{A: 7, B: "ptr"}
	return []c19Value{
		{"nil", nil},
		{"error", errors.New("plain error")},
		{"connect-error", connect.NewError(connect.CodeAborted, errors.New("already coded"))},
		{"wrapped-connect-error", fmt.Errorf("wrapped: %w", connect.NewError(connect.CodeNotFound, errors.New("inner")))},
		{"string", "a string value"},
		{"int", 42},
		{"struct", c19Struct{A: 1, B: "s"}},
		{"pointer", ptr},
		{"error-wrapping-sentinel", fmt.Errorf("context: %w", http.ErrAbortHandler)},
		{"error-Is-sentinel", isAbortErr{}},
		{"typed-nil-pointer", (*c19Struct)(nil)},
		{"map", map[string]int{"a": 1}},
		{"byte-slice", []byte{0, 1, 2}},
		{"runtime-error", c19RuntimeError()},
		{"bool-false", false},
		{"empty-string", ""},
		{"sentinel", http.ErrAbortHandler},
	}
}

// c19RuntimeError is a genuine runtime.Error value (a nil-map write caught
// once), so that handlers can panic with what real bugs panic with.
func c19RuntimeError() (r any) {
	defer func() { r = recover() }()
	var m map[string]int
	m["x"] = 1
	return nil
}

// c19Recorder is the recovery function under test plus its call log.
type c19Recorder struct {
	mu    sync.Mutex
	calls []any
	specs []connect.Spec
	// plain: the recovery function returns an uncoded error (errors.New), as
	// the documentation allows; returned / seen: the values it returned and
	// the values an interceptor outside WithRecover saw coming back.
	plain    bool
	returned []error
	seen     []error
}

// seeIcept sits outside the recovery interceptor and records the error
// values that come back through it.
type seeIcept struct{ rec *c19Recorder }

func (i seeIcept) note(err error) {
	if err != nil {
		i.rec.mu.Lock()
		i.rec.seen = append(i.rec.seen, err)
		i.rec.mu.Unlock()
	}
}
func (i seeIcept) WrapUnary(next connect.UnaryFunc) connect.UnaryFunc {
	return func(ctx context.Context, req connect.AnyRequest) (connect.AnyResponse, error) {
		res, err := next(ctx, req)
		i.note(err)
		return res, err
	}
}
func (i seeIcept) WrapStreamingClient(next connect.StreamingClientFunc) connect.StreamingClientFunc {
	return next
}
func (i seeIcept) WrapStreamingHandler(next connect.StreamingHandlerFunc) connect.StreamingHandlerFunc {
	return func(ctx context.Context, conn connect.StreamingHandlerConn) error {
		err := next(ctx, conn)
		i.note(err)
		return err
	}
}

func (r *c19Recorder) handle(_ context.Context, spec connect.Spec, _ http.Header, v any) error {
	r.mu.Lock()
	r.calls = append(r.calls, v)
	r.specs = append(r.specs, spec)
	n := len(r.calls)
	if r.plain {
		e := fmt.Errorf("recovered #%d plain", n)
		r.returned = append(r.returned, e)
		r.mu.Unlock()
		return e
	}
	r.mu.Unlock()
	ce := connect.NewError(connect.CodeDataLoss, fmt.Errorf("recovered #%d", n))
	if d, err := anypb.New(wrapperspb.String("from-recover")); err == nil {
		ce.AddDetail(d)
	}
	return ce
}

func (r *c19Recorder) take() []any {
	r.mu.Lock()
	defer r.mu.Unlock()
	out := r.calls
	r.calls = nil
	return out
}

// c19Layouts: where WithRecover sits among other interceptors/options.
func c19Layouts() []string {
	return []string{"recover-only", "recover,x,y", "x,recover,y", "x,y,recover", "opts[x],opts[recover]", "opts[x],opts[recover],opts[y]", "handleropts[x,recover]", "one-group[x,y],recover", "recover,empty", "x,recover,empty", "handleropts[recover,empty]", "empty,recover", "annotate,recover", "annotate,recover,y", "see,recover-plain"}
}

type noopIcept struct{ n *int32 }

func (noopIcept) WrapUnary(next connect.UnaryFunc) connect.UnaryFunc { return next }
func (noopIcept) WrapStreamingClient(next connect.StreamingClientFunc) connect.StreamingClientFunc {
	return next
}
func (noopIcept) WrapStreamingHandler(next connect.StreamingHandlerFunc) connect.StreamingHandlerFunc {
	return next
}

// annotateIcept is an interceptor outside the recovery one that annotates the
// errors passing through it (fmt.Errorf with %w, as logging or tracing
// middleware does): a coded error stays reachable through errors.As, a panic
// is not an error and passes by untouched.
type annotateIcept struct{}

func (annotateIcept) WrapUnary(next connect.UnaryFunc) connect.UnaryFunc {
	return func(ctx context.Context, req connect.AnyRequest) (connect.AnyResponse, error) {
		res, err := next(ctx, req)
		if err != nil {
			err = fmt.Errorf("outer interceptor saw a failure: %w", err)
		}
		return res, err
	}
}
func (annotateIcept) WrapStreamingClient(next connect.StreamingClientFunc) connect.StreamingClientFunc {
	return next
}
func (annotateIcept) WrapStreamingHandler(next connect.StreamingHandlerFunc) connect.StreamingHandlerFunc {
	return func(ctx context.Context, conn connect.StreamingHandlerConn) error {
		err := next(ctx, conn)
		if err != nil {
			err = fmt.Errorf("outer interceptor saw a failure: %w", err)
		}
		return err
	}
}

func c19Opts(layout string, rec *c19Recorder) []connect.HandlerOption {
	x, y := connect.WithInterceptors(noopIcept{}), connect.WithInterceptors(noopIcept{})
	rc := connect.WithRecover(rec.handle)
	switch layout {
	case "recover-only":
		return []connect.HandlerOption{rc}
	case "recover,x,y":
		return []connect.HandlerOption{rc, x, y}
	case "x,recover,y":
		return []connect.HandlerOption{x, rc, y}
	case "x,y,recover":
		return []connect.HandlerOption{x, y, rc}
	case "opts[x],opts[recover]":
		return []connect.HandlerOption{connect.WithOptions(x), connect.WithHandlerOptions(rc)}
	case "opts[x],opts[recover],opts[y]":
		return []connect.HandlerOption{connect.WithOptions(x), connect.WithHandlerOptions(rc), connect.WithOptions(y)}
	case "handleropts[x,recover]":
		return []connect.HandlerOption{connect.WithHandlerOptions(x, rc)}
	case "recover,empty":
		return []connect.HandlerOption{rc, connect.WithInterceptors()}
	case "x,recover,empty":
		return []connect.HandlerOption{x, rc, connect.WithInterceptors()}
	case "handleropts[recover,empty]":
		return []connect.HandlerOption{connect.WithHandlerOptions(rc, connect.WithInterceptors())}
	case "empty,recover":
		return []connect.HandlerOption{connect.WithInterceptors(), rc}
	case "see,recover-plain":
		rec.plain = true
		return []connect.HandlerOption{connect.WithInterceptors(seeIcept{rec}), rc}
	case "annotate,recover":
		return []connect.HandlerOption{connect.WithInterceptors(annotateIcept{}), rc}
	case "annotate,recover,y":
		return []connect.HandlerOption{connect.WithInterceptors(annotateIcept{}), rc, y}
	case "one-group[x,y],recover":
		return []connect.HandlerOption{connect.WithInterceptors(noopIcept{}, noopIcept{}), rc}
	}
	panic(layout)
}

func c19Program(kind svc.Kind, point string, v *c19Value) (*svc.Program, []*gen.Msg) {
	p := &svc.Program{}
	pan := svc.Step{Op: "panic"}
	if v != nil {
		pan.Val = v.val
	}
	add := func() {
		if v != nil {
			p.Steps = append(p.Steps, pan)
		}
	}
	var sent []*gen.Msg
	if point == "start" {
		add()
	}
	p.Steps = append(p.Steps, svc.Step{Op: "recv"})
	m1, m2 := &gen.Msg{Id: 101}, &gen.Msg{Id: 102}
	streams := kind == svc.ServerStream || kind == svc.Bidi
	if streams {
		p.Steps = append(p.Steps, svc.Step{Op: "send", Msg: m1})
		if point != "start" {
			sent = append(sent, m1)
		}
	}
	if point == "mid" {
		add()
	}
	if streams {
		p.Steps = append(p.Steps, svc.Step{Op: "send", Msg: m2})
		if point == "end" || v == nil {
			sent = append(sent, m2)
		}
	} else {
		p.Steps = append(p.Steps, svc.Step{Op: "send", Msg: m1})
	}
	if point == "end" {
		add()
	}
	if v == nil {
		if streams {
			sent = []*gen.Msg{m1, m2}
		} else {
			sent = []*gen.Msg{m1}
		}
	}
	return p, sent
}

func c19(run *ev.Run) int {
	run.SetRule("cases = panic values {nil, error, *connect.Error, wrapped *connect.Error, string, int, struct, pointer, error wrapping the abort sentinel, error whose Is matches it, the sentinel itself} x 4 kinds x 3 protocols x panic point {before first receive, between sends, after last send} x client context {no deadline, far deadline} x 12 placements of WithRecover among other interceptors/option groups x {in-memory loopback; real HTTP/1.1 and HTTP/2 servers (quick: one placement, thorough: all 12)}; what the recovery function returns {coded error with details and metadata, plain error, wrapped coded error, each of the 16 codes} compared with the same error returned by a non-panicking handler; gateway-style unary handlers that forward the request object they received to another client before panicking; concurrent phase: G goroutines x K calls on shared handlers (real HTTP/2 + HTTP/1.1), every panic value unique, one in three calls not panicking, ; also recovery functions returning several KiB of textoracle = multiset of recovered values equals multiset of panics and every client sees the error built from its own value; sentinel cases run ServeHTTP directly under recover(); plus non-panicking calls with and without WithRecover (differential); exhaustive in this bound; distinct by (value, kind, protocol, point, placement, transport); history: a WithInterceptors value shared by handlers with their own WithRecover; layouts include an outer interceptor that annotates every error with %w")
	values := c19Values()
	layouts := c19Layouts()
	points := []string{"start", "mid", "end"}
	type job struct {
		layout string
		proto  string
		kind   svc.Kind
	}
	var jobs []job
	for _, l := range layouts {
		for _, p := range svc.Protocols {
			for _, k := range svc.Kinds {
				jobs = append(jobs, job{l, p, k})
			}
		}
	}
	// recorded requests to drive ServeHTTP directly for the sentinel
	corp := buildCorpus(corpusSpec{protos: svc.Protocols, codecs: []string{"proto"}, kinds: svc.Kinds, gzips: []bool{false}, counts: []int{1}, scenarios: []string{"ok"}})
	reqOf := map[string]*recorded{}
	for _, c := range corp {
		reqOf[c.Proto+"/"+c.Kind.String()] = c
	}
	parallel(16, len(jobs), func(ji int) {
		j := jobs[ji]
		rec := &c19Recorder{}
		reg := svc.NewRegistry()
		hs := svc.Handlers(reg, c19Opts(j.layout, rec)...)
		lb := &wire.Loopback{Handler: svc.Mux(hs)}
		cs := svc.NewClientSet(lb, "http://verif.local", svc.ProtoOpts(j.proto, "proto")...)
		// plain handlers for the differential part
		reg0 := svc.NewRegistry()
		hs0 := svc.Handlers(reg0)
		cs0 := svc.NewClientSet(&wire.Loopback{Handler: svc.Mux(hs0)}, "http://verif.local", svc.ProtoOpts(j.proto, "proto")...)
		for _, point := range points {
			for vi := range values {
				v := values[vi]
				key := fmt.Sprintf("c19/loopback/%s/%s/%s/%s/%s", j.layout, j.proto, j.kind, point, v.name)
				if !run.Want(key) {
					continue
				}
				if v.name == "sentinel" {
					c19Sentinel(run, reg, hs[j.kind], rec, reqOf[j.proto+"/"+j.kind.String()], j.kind, point, key)
					continue
				}
				prog, sent := c19Program(j.kind, point, &v)
				call := reg.New("c19", prog)
				var cl *svc.CLog
				ctx, cancelCtx := c19Ctx(key)
				ok, dump := watchdog(30*time.Second, func() { cl = cs.Do(ctx, j.kind, call.ID, nil, []*gen.Msg{{Id: 1}}) })
				cancelCtx()
				reg.Drop(call)
				run.Eval(fmt.Sprintf("loopback|%s|%s|%s|%s|%s", j.layout, j.proto, j.kind, point, v.name))
				if !ok {
					run.Violation(key+"/hang", "call did not return", trunc(dump, 20000))
					continue
				}
				c19Judge(run, key, rec, rec.take(), v, cl, sent, map[string]any{"layout": j.layout, "protocol": j.proto, "kind": j.kind.String(), "point": point, "value": v.name})
			}
			// differential: no panic, with and without WithRecover
			key := fmt.Sprintf("c19/loopback/%s/%s/%s/%s/no-panic", j.layout, j.proto, j.kind, point)
			if run.Want(key) {
				prog, _ := c19Program(j.kind, point, nil)
				call := reg.New("c19", prog)
				cl := cs.Do(context.Background(), j.kind, call.ID, nil, []*gen.Msg{{Id: 1}})
				reg.Drop(call)
				prog0, _ := c19Program(j.kind, point, nil)
				call0 := reg0.New("c19", prog0)
				cl0 := cs0.Do(context.Background(), j.kind, call0.ID, nil, []*gen.Msg{{Id: 1}})
				reg0.Drop(call0)
				run.Eval(fmt.Sprintf("loopback|%s|%s|%s|no-panic", j.layout, j.proto, j.kind))
				run.Count("non_panicking.compared", 1)
				if calls := rec.take(); len(calls) != 0 {
					run.Violation(key+"/called", fmt.Sprintf("recovery function called %d times for a call that did not panic", len(calls)), nil)
				}
				if a, b := clientOutcome(cl, true), clientOutcome(cl0, true); a != b {
					run.Violation(key+"/differs", "a non-panicking call behaves differently with WithRecover installed", map[string]any{"with": a, "without": b})
				}
			}
		}
	})
	c19Real(run, values)
	c19Returns(run)
	c19Forwarding(run, values)
	c19SharedOption(run)
	c19Concurrent(run)
	return run.Finish("panics.recovered", "sentinel.reraised", "non_panicking.compared", "real.calls", "returns.compared", "concurrent.panics", "forwarding.panics")
}

func sameValue(a, b any) bool {
	if a == nil || b == nil {
		return a == nil && b == nil
	}
	ta, tb := reflect.TypeOf(a), reflect.TypeOf(b)
	if ta != tb {
		return false
	}
	if ta.Comparable() {
		return a == b
	}
	return reflect.DeepEqual(a, b)
}

func c19Judge(run *ev.Run, key string, rec *c19Recorder, calls []any, v c19Value, cl *svc.CLog, sent []*gen.Msg, detail map[string]any) {
	detail["recover_calls"] = len(calls)
	detail["client_err"] = errStr(cl.Err)
	detail["client_msgs"] = gen.DescribeSeq(cl.Msgs)
	run.Count("panics.recovered", 1)
	if len(calls) != 1 {
		run.Violation(key+"/calls", fmt.Sprintf("recovery function called %d times for one panic (want exactly 1)", len(calls)), detail)
		return
	}
	got := calls[0]
	okVal := sameValue(got, v.val)
	if v.val == nil {
		_, isNilErr := got.(*runtime.PanicNilError)
		okVal = got == nil || isNilErr
	}
	if !okVal {
		detail["recovered_value"] = fmt.Sprintf("%#v", got)
		run.Violation(key+"/value", fmt.Sprintf("recovery function received %#v, handler panicked with %#v", got, v.val), detail)
		return
	}
	var ce *connect.Error
	if !errors.As(cl.Err, &ce) {
		run.Violation(key+"/client", "client did not receive an error for a panicking handler: "+errStr(cl.Err), detail)
		return
	}
	if rec.plain {
		// an uncoded error from the recovery function reaches the interceptors
		// outside WithRecover as the very value it returned, and the client as
		// unknown with its text
		rec.mu.Lock()
		var ret, saw error
		if len(rec.returned) > 0 {
			ret = rec.returned[len(rec.returned)-1]
		}
		if len(rec.seen) > 0 {
			saw = rec.seen[len(rec.seen)-1]
		}
		rec.mu.Unlock()
		run.Count("recovered.error_identity.checked", 1)
		if ret == nil || saw != ret {
			run.Violation(key+"/outer-interceptor-error", fmt.Sprintf("the interceptor outside WithRecover saw %T %q, the recovery function returned %T %q (not the same value)", saw, errStr(saw), ret, errStr(ret)), detail)
			return
		}
		if ce.Code() != connect.CodeUnknown || ce.Message() != "recovered #1 plain" {
			run.Violation(key+"/client-error", fmt.Sprintf("client received %v, recovery function returned the uncoded error \"recovered #1 plain\"", cl.Err), detail)
		}
		return
	}
	if ce.Code() != connect.CodeDataLoss || ce.Message() != "recovered #1" || len(ce.Details()) != 1 {
		run.Violation(key+"/client-error", fmt.Sprintf("client received %v (details %d), recovery function returned data_loss: recovered #1 with 1 detail", cl.Err, len(ce.Details())), detail)
		return
	}
	run.Sample(map[string]any{"case": detail, "recovered_value": fmt.Sprintf("%#v", got), "client_error": errStr(cl.Err)})
	if same, why := gen.SameSeq(cl.Msgs, sent); !same {
		run.Violation(key+"/messages", "messages sent before the panic were not delivered before the error: "+why, detail)
	}
}

func c19Sentinel(run *ev.Run, reg *svc.Registry, h *connect.Handler, rec *c19Recorder, rq *recorded, kind svc.Kind, point, key string) {
	v := c19Value{"sentinel", http.ErrAbortHandler}
	prog, _ := c19Program(kind, point, &v)
	call := reg.New("c19s", prog)
	defer reg.Drop(call)
	hdr := rq.Ex.ReqHeader.Clone()
	hdr.Set(wire.CallHeader, call.ID)
	var recovered any
	func() {
		defer func() { recovered = recover() }()
		rw := wire.NewRecorder()
		h.ServeHTTP(rw, wire.ServerRequest(context.Background(), "POST", kind.Path(), hdr, &wire.ScriptedBody{Data: rq.Ex.ReqBody}, 2))
	}()
	run.Eval(fmt.Sprintf("direct|sentinel|%s|%s", kind, point))
	run.Count("sentinel.reraised", 1)
	calls := rec.take()
	detail := map[string]any{"kind": kind.String(), "point": point, "recovered": fmt.Sprintf("%#v", recovered), "recover_calls": len(calls), "handler_panicked": call.Log.Panicked}
	if !call.Log.Panicked {
		run.Violation(key+"/not-reached", "harness: the handler program never reached its panic step", detail)
		return
	}
	if len(calls) != 0 {
		run.Violation(key+"/called", "recovery function was called for net/http's abort sentinel", detail)
		return
	}
	if recovered != http.ErrAbortHandler { //nolint:errorlint
		run.Violation(key+"/not-reraised", fmt.Sprintf("panic(http.ErrAbortHandler) was not re-raised untouched: recover() around ServeHTTP returned %#v", recovered), detail)
	}
}

func c19Real(run *ev.Run, values []c19Value) {
	layouts := []string{"x,recover,y"}
	if !run.Quick() {
		layouts = c19Layouts()
	}
	for _, l := range layouts {
		c19RealLayout(run, values, l)
	}
}

func c19RealLayout(run *ev.Run, values []c19Value, layout string) {
	rec := &c19Recorder{}
	srv := svc.NewServer(c19Opts(layout, rec)...)
	defer srv.Close()
	for _, h2 := range []bool{false, true} {
		for _, protocol := range svc.Protocols {
			cs := srv.Clients(h2, svc.ProtoOpts(protocol, "proto")...)
			for _, kind := range svc.Kinds {
				if kind == svc.Bidi && !h2 {
					continue
				}
				for _, point := range []string{"start", "mid", "end"} {
					for vi := range values {
						v := values[vi]
						if v.name == "sentinel" {
							continue
						}
						key := fmt.Sprintf("c19/real/%s/h2=%v/%s/%s/%s/%s", layout, h2, protocol, kind, point, v.name)
						if !run.Want(key) {
							continue
						}
						prog, sent := c19Program(kind, point, &v)
						call := srv.Reg.New("c19r", prog)
						var cl *svc.CLog
						ctx, cancelCtx := c19Ctx(key)
						ok, dump := watchdog(30*time.Second, func() { cl = cs.Do(ctx, kind, call.ID, nil, []*gen.Msg{{Id: 1}}) })
						cancelCtx()
						srv.Reg.Drop(call)
						cs.Tap.Forget(call.ID)
						run.Count("real.calls", 1)
						run.Eval(fmt.Sprintf("real|%s|h2=%v|%s|%s|%s|%s", layout, h2, protocol, kind, point, v.name))
						if !ok {
							run.Violation(key+"/hang", "call did not return", trunc(dump, 20000))
							continue
						}
						c19Judge(run, key, rec, rec.take(), v, cl, sent, map[string]any{"layout": layout, "transport": fmt.Sprintf("real h2=%v", h2), "protocol": protocol, "kind": kind.String(), "point": point, "value": v.name})
					}
				}
			}
		}
	}
	if n, lines := srv.ServerPanics(); n > 0 {
		run.Violation("c19/real/server-panic", fmt.Sprintf("%d panics escaped WithRecover on the real server", n), lines)
	}
}

// c19Returns: "the client receives the error that function returned" for
// other shapes of returned error. The oracle is differential: a handler that
// returns the same error without panicking must look the same to the client.
func c19Returns(run *ev.Run) {
	type ret struct {
		name string
		mk   func() error
	}
	var rets []ret
	for c := connect.CodeCanceled; c <= connect.CodeUnauthenticated; c++ {
		c := c
		rets = append(rets, ret{"code-" + c.String(), func() error {
			e := connect.NewError(c, errors.New("from recover: "+c.String()))
			e.Meta().Set("X-Recovered", "yes")
			e.Meta().Add("X-Recovered-Bin", connect.EncodeBinaryHeader([]byte{0, 255, 7}))
			if d, err := anypb.New(wrapperspb.String("d-" + c.String())); err == nil {
				e.AddDetail(d)
			}
			return e
		}})
	}
	rets = append(rets,
		ret{"plain-error", func() error { return errors.New("a plain error from the recovery function") }},
		ret{"wrapped-coded", func() error {
			return fmt.Errorf("outer: %w", connect.NewError(connect.CodeFailedPrecondition, errors.New("inner coded")))
		}},
		ret{"empty-message", func() error { return connect.NewError(connect.CodeInternal, errors.New("")) }},
		// what recovery functions typically report: the panic value plus a stack
		// trace, several KiB of text and no details
		ret{"long-message-coded", func() error {
			return connect.NewError(connect.CodeInternal, errors.New("panic: boom\n"+strings.Repeat("main.(*server).Handle(0xc00012a000, {0x7f3a, 0x1})\n\t/src/server.go:42 +0x1f\n", 100)))
		}},
		ret{"long-message-plain", func() error {
			return errors.New("panic: boom - " + strings.Repeat("frame é ", 900))
		}},
	)
	for _, protocol := range svc.Protocols {
		for _, kind := range svc.Kinds {
			for _, point := range []string{"start", "mid", "end"} {
				for _, rt := range rets {
					key := fmt.Sprintf("c19/returns/%s/%s/%s/%s", protocol, kind, point, rt.name)
					if !run.Want(key) {
						continue
					}
					rt := rt
					calls := 0
					var mu sync.Mutex
					rc := connect.WithRecover(func(context.Context, connect.Spec, http.Header, any) error {
						mu.Lock()
						calls++
						mu.Unlock()
						return rt.mk()
					})
					reg := svc.NewRegistry()
					cs := svc.NewClientSet(&wire.Loopback{Handler: svc.Mux(svc.Handlers(reg, rc))}, "http://verif.local", svc.ProtoOpts(protocol, "proto")...)
					v := c19Value{"string", "boom"}
					prog, sent := c19Program(kind, point, &v)
					call := reg.New("c19t", prog)
					var cl, cl0 *svc.CLog
					ctx, cancelCtx := c19Ctx(key)
					ok, dump := watchdog(30*time.Second, func() { cl = cs.Do(ctx, kind, call.ID, nil, []*gen.Msg{{Id: 1}}) })
					cancelCtx()
					reg.Drop(call)
					run.Eval("returns|" + protocol + "|" + kind.String() + "|" + point + "|" + rt.name)
					run.Count("returns.compared", 1)
					if !ok {
						run.Violation(key+"/hang", "call did not return", trunc(dump, 20000))
						continue
					}
					// reference: same program, the panic step replaced by returning the error
					reg0 := svc.NewRegistry()
					cs0 := svc.NewClientSet(&wire.Loopback{Handler: svc.Mux(svc.Handlers(reg0))}, "http://verif.local", svc.ProtoOpts(protocol, "proto")...)
					prog0, _ := c19Program(kind, point, &v)
					for i := range prog0.Steps {
						if prog0.Steps[i].Op == "panic" {
							prog0.Steps = prog0.Steps[:i]
							break
						}
					}
					prog0.Return = rt.mk()
					call0 := reg0.New("c19t0", prog0)
					ctx0, cancel0 := c19Ctx(key)
					cl0 = cs0.Do(ctx0, kind, call0.ID, nil, []*gen.Msg{{Id: 1}})
					cancel0()
					reg0.Drop(call0)
					detail := map[string]any{"protocol": protocol, "kind": kind.String(), "point": point, "returned": rt.name, "recover_calls": calls}
					if calls != 1 {
						run.Violation(key+"/calls", fmt.Sprintf("recovery function called %d times for one panic", calls), detail)
						continue
					}
					a, b := c19Outcome(cl), c19Outcome(cl0)
					if a != b {
						detail["with_panic"], detail["returned_directly"] = a, b
						run.Violation(key+"/differs", "the client does not receive the error the recovery function returned (it differs from the same error returned by a handler that did not panic)", detail)
						continue
					}
					if same, why := gen.SameSeq(cl.Msgs, sent); !same {
						run.Violation(key+"/messages", "messages sent before the panic were not delivered before the error: "+why, detail)
					}
					// ... and in absolute terms: the code and message of what the
					// function returned (an uncoded error is reported as unknown)
					want := rt.mk()
					wantCode, wantMsg := connect.CodeUnknown, want.Error()
					var wce *connect.Error
					if errors.As(want, &wce) {
						wantCode, wantMsg = wce.Code(), wce.Message()
					}
					var gce *connect.Error
					if !errors.As(cl.Err, &gce) || gce.Code() != wantCode || gce.Message() != wantMsg {
						detail["client_err"] = errStr(cl.Err)
						run.Violation(key+"/returned-error", fmt.Sprintf("the recovery function returned %v: %q, the client received %v", wantCode, wantMsg, cl.Err), detail)
					}
				}
			}
		}
	}
}

// c19Concurrent: shared handlers, many goroutines, every panic value unique.
func c19Concurrent(run *ev.Run) {
	G, K := 8, 24
	if !run.Quick() {
		G, K = 64, 800
	}
	if run.Replaying() && !run.Want("c19/concurrent") {
		return
	}
	var mu sync.Mutex
	recovered := map[string]int{}
	rc := connect.WithRecover(func(_ context.Context, _ connect.Spec, _ http.Header, v any) error {
		s, _ := v.(string)
		mu.Lock()
		recovered[s]++
		mu.Unlock()
		return connect.NewError(connect.CodeDataLoss, errors.New("recovered "+s))
	})
	srv := svc.NewServer(connect.WithInterceptors(noopIcept{}), rc)
	defer srv.Close()
	type res struct {
		key, want, got string
		panics         bool
	}
	results := make([][]res, G)
	var wg sync.WaitGroup
	for g := 0; g < G; g++ {
		wg.Add(1)
		go func(g int) {
			defer wg.Done()
			rng := run.Rand(fmt.Sprintf("c19/concurrent/%d", g))
			h2 := g%2 == 0
			sets := map[string]*svc.ClientSet{}
			for _, p := range svc.Protocols {
				sets[p] = srv.RawClients(h2, svc.ProtoOpts(p, "proto")...)
			}
			for k := 0; k < K; k++ {
				protocol := svc.Protocols[rng.Intn(len(svc.Protocols))]
				kind := svc.Kinds[rng.Intn(len(svc.Kinds))]
				if kind == svc.Bidi && !h2 {
					kind = svc.ServerStream
				}
				point := []string{"start", "mid", "end"}[rng.Intn(3)]
				id := fmt.Sprintf("pv-%d-%d", g, k)
				panics := rng.Intn(3) != 0
				var v *c19Value
				if panics {
					v = &c19Value{"string", id}
				}
				prog, _ := c19Program(kind, point, v)
				call := srv.Reg.New("c19c", prog)
				var cl *svc.CLog
				ok, _ := watchdog(60*time.Second, func() { cl = sets[protocol].Do(context.Background(), kind, call.ID, nil, []*gen.Msg{{Id: 1}}) })
				srv.Reg.Drop(call)
				r := res{key: fmt.Sprintf("c19/concurrent/%d/%d/%s/%s/%s", g, k, protocol, kind, point), panics: panics}
				if panics {
					r.want = "data_loss: recovered " + id
				}
				if !ok {
					r.got = "<hang>"
				} else {
					if cl.Err != nil {
						r.got = errStr(cl.Err)
					}
				}
				results[g] = append(results[g], r)
			}
		}(g)
	}
	wg.Wait()
	total, npanics := 0, 0
	for g := range results {
		for _, r := range results[g] {
			total++
			run.Eval("concurrent|" + r.key[len("c19/concurrent/"):])
			if r.panics {
				npanics++
			}
			if r.got != r.want {
				run.Violation(r.key, fmt.Sprintf("concurrent call: client saw %q, want %q (the error built from this call's own panic value, or success when it did not panic)", r.got, r.want), map[string]any{"panicked": r.panics})
			}
		}
	}
	run.Count("concurrent.panics", int64(npanics))
	run.Count("concurrent.calls", int64(total))
	mu.Lock()
	defer mu.Unlock()
	for g := range results {
		for i, r := range results[g] {
			id := fmt.Sprintf("pv-%d-%d", g, i)
			n := recovered[id]
			want := 0
			if r.panics {
				want = 1
			}
			if n != want {
				run.Violation(r.key+"/recover-calls", fmt.Sprintf("recovery function called %d times with value %q, want %d", n, id, want), nil)
			}
			delete(recovered, id)
		}
	}
	for v, n := range recovered {
		run.Violation("c19/concurrent/stray", fmt.Sprintf("recovery function called %d times with a value no handler panicked with: %q", n, v), nil)
	}
	if n, lines := srv.ServerPanics(); n > 0 {
		run.Violation("c19/concurrent/server-panic", fmt.Sprintf("%d panics escaped WithRecover on the real server", n), lines)
	}
}

func c19Outcome(l *svc.CLog) string {
	s := clientOutcome(l, true)
	var ce *connect.Error
	if errors.As(l.Err, &ce) {
		s += " meta=" + hdrString(ce.Meta())
		for _, d := range ce.Details() {
			b, _ := proto.Marshal(d)
			s += fmt.Sprintf(" detail=%s:%x", d.MessageName(), b)
		}
	}
	return s
}

// c19Ctx: every other case runs with a (far) client deadline, i.e. with a
// timeout header and a handler context that has a deadline; what the recovery
// function returns must reach the client all the same.
func c19Ctx(key string) (context.Context, context.CancelFunc) {
	n := 0
	for i := 0; i < len(key); i++ {
		n += int(key[i])
	}
	if n%2 == 0 {
		return context.WithTimeout(context.Background(), 10*time.Minute)
	}
	return context.Background(), func() {}
}

// c19Forwarding: a gateway-style unary handler passes the request object it
// received on to another connect client (which is allowed to, and does, stamp
// it as a client request) and panics afterwards. The panic is still the
// handler's, and is recovered like any other.
func c19Forwarding(run *ev.Run, values []c19Value) {
	// the upstream the gateway calls
	upReg := svc.NewRegistry()
	up := &wire.Loopback{Handler: svc.Mux(svc.Handlers(upReg))}
	for _, protocol := range svc.Protocols {
		for _, upProto := range svc.Protocols {
			for vi := range values {
				v := values[vi]
				if v.name == "sentinel" {
					continue
				}
				key := fmt.Sprintf("c19/forwarding/%s/upstream=%s/%s", protocol, upProto, v.name)
				if !run.Want(key) {
					continue
				}
				rec := &c19Recorder{}
				reg := svc.NewRegistry()
				upClient := connect.NewClient[svc.Msg, svc.Msg](up, "http://upstream.local"+svc.Unary.Path(), svc.ProtoOpts(upProto, "proto")...)
				cs := svc.NewClientSet(&wire.Loopback{Handler: svc.Mux(svc.Handlers(reg, connect.WithInterceptors(noopIcept{}), connect.WithRecover(rec.handle)))}, "http://verif.local", svc.ProtoOpts(protocol, "proto")...)
				prog := &svc.Program{Steps: []svc.Step{{Op: "recv"}, {Op: "panic", Val: v.val}}}
				prog.OnUnaryRequest = func(ctx context.Context, req *connect.Request[svc.Msg]) {
					_, _ = upClient.CallUnary(ctx, req)
				}
				call := reg.New("c19f", prog)
				var cl *svc.CLog
				ok, dump := watchdog(30*time.Second, func() { cl = cs.Do(context.Background(), svc.Unary, call.ID, nil, []*gen.Msg{{Id: 1}}) })
				reg.Drop(call)
				run.Eval(fmt.Sprintf("forwarding|%s|%s|%s", protocol, upProto, v.name))
				run.Count("forwarding.panics", 1)
				if !ok {
					run.Violation(key+"/hang", "call did not return", trunc(dump, 20000))
					continue
				}
				c19Judge(run, key, rec, rec.take(), v, cl, nil, map[string]any{"protocol": protocol, "upstream_protocol": upProto, "value": v.name, "handler": "forwards its request to another client, then panics"})
			}
		}
	}
}

// c19SharedOption: handlers of different services share an option value
// (common := WithInterceptors(...)) that follows each service's own
// WithRecover in its option list. The handlers are built one after another; a
// panic in the second (third) handler must reach that handler's recovery
// function - exactly once - and nobody else's.
func c19SharedOption(run *ev.Run) {
	for _, protocol := range svc.Protocols {
		for _, kind := range []svc.Kind{svc.Unary, svc.ServerStream, svc.Bidi} {
			for _, firstHasRecover := range []bool{true, false} {
				key := fmt.Sprintf("c19/shared-option/%s/%s/first-list-has-recover=%v", protocol, kind, firstHasRecover)
				if !run.Want(key) {
					continue
				}
				common := connect.WithInterceptors(noopIcept{})
				recs := []*c19Recorder{{}, {}, {}}
				var sets []*svc.ClientSet
				var regs []*svc.Registry
				for i, rec := range recs {
					reg := svc.NewRegistry()
					var hopts []connect.HandlerOption
					if i == 0 && !firstHasRecover {
						hopts = []connect.HandlerOption{connect.WithInterceptors(noopIcept{}), common}
					} else {
						hopts = []connect.HandlerOption{connect.WithRecover(rec.handle), common}
					}
					regs = append(regs, reg)
					sets = append(sets, svc.NewClientSet(&wire.Loopback{Handler: svc.Mux(svc.Handlers(reg, hopts...))}, "http://verif.local", svc.ProtoOpts(protocol, "proto")...))
				}
				for i := range recs {
					if i == 0 && !firstHasRecover {
						continue
					}
					v := c19Value{"string", fmt.Sprintf("boom-%d", i)}
					prog, sent := c19Program(kind, "mid", &v)
					call := regs[i].New("c19so", prog)
					var cl *svc.CLog
					ok, dump := watchdog(30*time.Second, func() { cl = sets[i].Do(context.Background(), kind, call.ID, nil, []*gen.Msg{{Id: 1}}) })
					regs[i].Drop(call)
					run.Eval(fmt.Sprintf("shared-option|%s|%s|%v|handler=%d", protocol, kind, firstHasRecover, i))
					run.Count("shared_option.panics", 1)
					if !ok {
						run.Violation(key+"/hang", "call did not return", trunc(dump, 20000))
						continue
					}
					for j, other := range recs {
						if j == i {
							continue
						}
						if n := len(other.take()); n != 0 {
							run.Violation(fmt.Sprintf("%s/handler=%d/foreign-recover", key, i), fmt.Sprintf("a panic in handler %d was handed to the recovery function of handler %d (%d calls)", i+1, j+1, n),
								map[string]any{"protocol": protocol, "kind": kind.String(), "client_err": errStr(cl.Err)})
						}
					}
					c19Judge(run, fmt.Sprintf("%s/handler=%d", key, i), recs[i], recs[i].take(), v, cl, sent, map[string]any{"protocol": protocol, "kind": kind.String(), "handler_index": i, "option_lists": "WithRecover(own), shared WithInterceptors value"})
				}
			}
		}
	}
}
