package checks

import (
	"context"
	"errors"
	"fmt"
	"io"
	"net/http"
	"sort"
	"strings"
	"sync"
	"time"

	connect "github.com/bufbuild/connect-go"
	"google.golang.org/protobuf/proto"
	"google.golang.org/protobuf/types/known/anypb"
	"google.golang.org/protobuf/types/known/durationpb"
	"google.golang.org/protobuf/types/known/wrapperspb"
	"verif.local/harness/ev"
	"verif.local/harness/gen"
	"verif.local/harness/refcodec"
	"verif.local/harness/svc"
	"verif.local/harness/wire"
)

func init() { register("C02", "exploration", c02) }

// c02Icept is a handler interceptor that fails calls on request: the error to
// return is looked up by call id.
type c02Icept struct {
	mu     sync.Mutex
	before map[string]error
	after  map[string]error
}

func (i *c02Icept) get(m map[string]error, h http.Header) error {
	i.mu.Lock()
	defer i.mu.Unlock()
	return m[h.Get(wire.CallHeader)]
}

func (i *c02Icept) WrapUnary(next connect.UnaryFunc) connect.UnaryFunc {
	return func(ctx context.Context, req connect.AnyRequest) (connect.AnyResponse, error) {
		if err := i.get(i.before, req.Header()); err != nil {
			return nil, err
		}
		res, err := next(ctx, req)
		if e := i.get(i.after, req.Header()); e != nil {
			return nil, e
		}
		return res, err
	}
}
func (i *c02Icept) WrapStreamingClient(next connect.StreamingClientFunc) connect.StreamingClientFunc {
	return next
}
func (i *c02Icept) WrapStreamingHandler(next connect.StreamingHandlerFunc) connect.StreamingHandlerFunc {
	return func(ctx context.Context, conn connect.StreamingHandlerConn) error {
		if err := i.get(i.before, conn.RequestHeader()); err != nil {
			return err
		}
		err := next(ctx, conn)
		if e := i.get(i.after, conn.RequestHeader()); e != nil {
			return e
		}
		return err
	}
}

func c02Details(r interface{ Intn(int) int }, k int, id uint64) []*anypb.Any {
	var out []*anypb.Any
	for i := 0; i < k; i++ {
		var m proto.Message
		switch r.Intn(4) {
		case 0:
			m = wrapperspb.String(fmt.Sprintf("detail-%d-%d é", id, i))
		case 1:
			m = &gen.Msg{Id: id, Note: "detail", Nums: []int64{-1, 2, int64(i)}}
		case 2:
			m = durationpb.New(time.Duration(id%1000) * time.Millisecond)
		default:
			m = wrapperspb.Bytes([]byte{0, 1, 2, 0xff, byte(i)})
		}
		a, err := anypb.New(m)
		if err != nil {
			panic(err)
		}
		out = append(out, a)
	}
	return out
}

// subseq reports whether want is a subsequence of got.
func subseq(got, want []string) bool {
	i := 0
	for _, g := range got {
		if i < len(want) && g == want[i] {
			i++
		}
	}
	return i == len(want)
}

func c02(run *ev.Run) int {
	run.SetRule("cases = (HTTP version x protocol x codec x kind) x code 1..16 x 16 message text classes, with error source {handler *Error, plain error, interceptor before/after, coded error wrapping a context error, coded error inside a multi-error}, handlers with default settings and with compress-min 64 against gzip-sending clients, client contexts with and without a deadline, details k in {0,1,3}, metadata multimap (one case in three with handler-set response headers/trailers under the same keys) and messages-before-error in {0,1,3} drawn per case from the seed (thorough: details and before enumerated); distinct by (config, code, text class, source, k, before); error causes also wrap io.EOF / io.ErrUnexpectedEOF; a quarter of the cases over a transport whose response bodies return an error from Close after closing")
	run.Assume("messages are valid UTF-8; metadata is printable ASCII without leading/trailing blanks under non-reserved keys; gRPC over HTTP/1.1 keeps trailers under net/http's 4 KiB trailer limit")
	ic := &c02Icept{before: map[string]error{}, after: map[string]error{}}
	srv := svc.NewServer(connect.WithInterceptors(ic))
	defer srv.Close()
	// the same handlers configured to compress what they send above 64 bytes
	// (error bodies and end-of-stream messages included, where the protocol
	// allows it) for clients that send gzip themselves
	srvZ := svc.NewServer(connect.WithInterceptors(ic), connect.WithCompressMinBytes(64))
	defer srvZ.Close()
	type cfgT struct {
		http2 bool
		proto string
		codec string
		kind  svc.Kind
		z     bool
	}
	var cfgs []cfgT
	for _, h2 := range []bool{false, true} {
		for _, p := range svc.Protocols {
			for _, c := range svc.Codecs {
				for _, k := range svc.Kinds {
					if k == svc.Bidi && !h2 {
						continue
					}
					cfgs = append(cfgs, cfgT{h2, p, c, k, false}, cfgT{h2, p, c, k, true})
				}
			}
		}
	}
	classNames := []string{"empty", "ascii", "utf8-2", "utf8-3", "utf8-4", "nul", "controls", "del", "percent", "pct-escape", "pct-trail", "crlf", "blanks", "tabs", "quotes", "long"}
	sources := []string{"handler", "handler", "handler", "plain", "icept-before", "icept-after", "wraps-ctx", "joined"}
	parallel(16, len(cfgs), func(ci int) {
		c := cfgs[ci]
		cfg := fmt.Sprintf("h2=%v/%s/%s/%s", c.http2, c.proto, c.codec, c.kind)
		srv, cs := srv, srv.Clients(c.http2, svc.ProtoOpts(c.proto, c.codec)...)
		if c.z {
			cfg += "/compress-min=64+send-gzip"
			srv = srvZ
			cs = srvZ.Clients(c.http2, append(svc.ProtoOpts(c.proto, c.codec), connect.WithSendGzip())...)
		}
		// the same clients over a transport whose response bodies really
		// close but report an error from Close: the outcome of a call is
		// what was read before, a late complaint must not replace it
		hcN, baseN, tapN := srv.HTTPClient(c.http2)
		tapF := wire.NewTap(tapN.Next)
		tapF.CloseErr = errors.New("verif: response body close reported a late transport error")
		_ = hcN
		copts := svc.ProtoOpts(c.proto, c.codec)
		if c.z {
			copts = append(copts, connect.WithSendGzip())
		}
		csF := svc.NewClientSet(&http.Client{Transport: tapF}, baseN, copts...)
		csF.Tap = tapF
		r := run.Rand("c02/" + cfg)
		long := 8192
		nkeys := 8
		if c.proto == "grpc" && !c.http2 {
			long, nkeys = 250, 3
		}
		texts := gen.TextClasses(r, long)
		kOpts, bOpts := []int{-1}, []int{-1}
		if !run.Quick() {
			kOpts, bOpts = []int{0, 1, 3}, []int{0, 1, 3}
		}
		for code := 1; code <= 16; code++ {
			for _, cn := range classNames {
				for _, kSel := range kOpts {
					for _, bSel := range bOpts {
						k, before := kSel, bSel
						if k < 0 {
							k = []int{0, 1, 3}[r.Intn(3)]
						}
						if before < 0 {
							before = []int{0, 1, 3}[r.Intn(3)]
						}
						if c.kind == svc.Unary || c.kind == svc.ClientStream {
							if bSel > 0 {
								continue
							}
							before = 0
						}
						src := sources[r.Intn(len(sources))]
						if src != "handler" && src != "wraps-ctx" && src != "joined" && src != "icept-after" && before > 0 {
							before = 0
						}
						key := fmt.Sprintf("c02/%s/code=%d/text=%s/src=%s/k=%d/before=%d", cfg, code, cn, src, k, before)
						if !run.Want(key) {
							continue
						}
						csUse, cfgUse := cs, cfg
						if run.Rand(key+"/close-fails").Intn(4) == 0 {
							csUse, cfgUse = csF, cfg+"/body-close-fails"
							run.Count("errors.with_failing_body_close", 1)
						}
						c02Case(run, srv, ic, csUse, c.kind, c.proto, c.http2, cfgUse, key, connect.Code(code), cn, texts[cn], src, k, before, nkeys, r)
					}
				}
			}
		}
	})
	serverPanicCheck(run, srv, "c02")
	return run.Finish("errors.transferred", "details.compared", "meta.values.compared")
}

func c02Case(run *ev.Run, srv *svc.Server, ic *c02Icept, cs *svc.ClientSet, kind svc.Kind, protocol string, http2 bool, cfg, key string,
	code connect.Code, className, text, src string, k, before, nkeys int, r interface {
		Intn(int) int
	}) {
	rr := run.Rand(key)
	meta, _ := gen.Meta(rr, "E", 1+rr.Intn(nkeys), refcodec.B64Encode)
	var herr error
	wantCode := code
	var details []*anypb.Any
	switch src {
	case "plain":
		herr = errors.New(text)
		if rr.Intn(3) == 0 {
			herr = fmt.Errorf("%s: %w", text, io.ErrUnexpectedEOF)
			text = herr.Error()
		}
		wantCode = connect.CodeUnknown
		meta = nil
		k = 0
	default:
		var inner error = errors.New(text)
		if src == "wraps-ctx" {
			// a coded error whose cause happens to be a context error (say, a
			// backend call that timed out) keeps its own code and message
			// (or io.EOF: a backend connection that closed; this is not the end of
			// the request stream the handler may have seen earlier)
			switch rr.Intn(3) {
			case 0:
				inner = fmt.Errorf("%s: %w", text, context.DeadlineExceeded)
			case 1:
				inner = fmt.Errorf("%s: %w", text, context.Canceled)
			default:
				inner = fmt.Errorf("%s: %w", text, io.EOF)
			}
			text = inner.Error()
		}
		ce := connect.NewError(code, inner)
		details = c02Details(rr, k, uint64(rr.Int63()))
		for _, d := range details {
			ce.AddDetail(d)
		}
		for mk, mv := range meta {
			for _, v := range mv {
				ce.Meta().Add(mk, v)
			}
		}
		herr = ce
		if src == "joined" {
			// the coded error travels inside a multi-error (errors.Join, or
			// fmt.Errorf with two %w): errors.As still finds it
			if rr.Intn(2) == 0 {
				herr = errors.Join(errors.New("clean-up also failed"), ce)
			} else {
				herr = fmt.Errorf("%w (while %w)", ce, errors.New("shutting down"))
			}
		}
	}
	prog := &svc.Program{}
	var sent []*gen.Msg
	badSend := (kind == svc.ServerStream || kind == svc.Bidi) && (src == "handler" || src == "plain" || src == "wraps-ctx" || src == "joined") && rr.Intn(4) == 0
	switch kind {
	case svc.Unary, svc.ServerStream:
		prog.Steps = append(prog.Steps, svc.Step{Op: "recv"})
	case svc.ClientStream:
		prog.Steps = append(prog.Steps, svc.Step{Op: "recvall"})
	case svc.Bidi:
		prog.Steps = append(prog.Steps, svc.Step{Op: "recv"})
	}
	if badSend {
		// a Send that fails in the codec (invalid UTF-8 in a string field) must
		// not disturb the delivery of the error the handler returns afterwards
		prog.Steps = append(prog.Steps, svc.Step{Op: "send", Msg: &gen.Msg{Id: 13, Note: "\xff\xfe"}})
	}
	for i := 0; i < before; i++ {
		m := &gen.Msg{Id: uint64(1000 + i), Note: "before-error"}
		sent = append(sent, m)
		prog.Steps = append(prog.Steps, svc.Step{Op: "send", Msg: m})
	}
	// one case in three: the handler has also set response trailers and headers
	// under keys that the error's metadata uses; everything the error carries
	// must still arrive (next to, not instead of, the handler's own values)
	sharedKeys := ""
	if len(meta) > 0 && rr.Intn(3) == 0 {
		var keys []string
		for mk := range meta {
			keys = append(keys, mk)
		}
		sort.Strings(keys)
		tk := keys[rr.Intn(len(keys))]
		hk := keys[rr.Intn(len(keys))]
		val := func(k, v string) string {
			if strings.HasSuffix(strings.ToLower(k), "-bin") {
				return refcodec.B64Encode([]byte(v))
			}
			return v
		}
		prog.Trailer = http.Header{tk: {val(tk, "handler-trailer")}}
		prog.Header = http.Header{hk: {val(hk, "handler-header")}}
		sharedKeys = "trailer=" + tk + " header=" + hk
		run.Count("errors.with_shared_metadata_keys", 1)
	}
	prefix := "c02"
	if strings.Contains(cfg, "compress-min") {
		prefix = "c02z" // the two servers' registries count separately; the interceptor is shared
	}
	call := srv.Reg.New(prefix, prog)
	defer srv.Reg.Drop(call)
	defer cs.Tap.Forget(call.ID)
	switch src {
	case "icept-before":
		ic.mu.Lock()
		ic.before[call.ID] = herr
		ic.mu.Unlock()
	case "icept-after":
		ic.mu.Lock()
		ic.after[call.ID] = herr
		ic.mu.Unlock()
	default:
		prog.Return = herr
	}
	defer func() {
		ic.mu.Lock()
		delete(ic.before, call.ID)
		delete(ic.after, call.ID)
		ic.mu.Unlock()
	}()
	var cl *svc.CLog
	// half of the calls carry a (far) deadline, i.e. a timeout header and a
	// handler context with a deadline: the error must not change because of it
	ctx, cancelCtx := context.Background(), context.CancelFunc(func() {})
	withDeadline := rr.Intn(2) == 0
	if withDeadline {
		ctx, cancelCtx = context.WithTimeout(ctx, 10*time.Minute)
	}
	defer cancelCtx()
	ok, dump := watchdog(60*time.Second, func() {
		cl = cs.Do(ctx, kind, call.ID, nil, []*gen.Msg{{Id: 7}, {Id: 8}})
	})
	run.Eval(fmt.Sprintf("%s|%d|%s|%s|%d|%d|%v", cfg, code, className, src, k, before, badSend))
	if badSend {
		run.Count("errors.after_failed_send", 1)
	}
	if !ok {
		run.Violation(key+"/hang", "call did not return within 60 s", trunc(dump, 20000))
		return
	}
	detail := map[string]any{"config": cfg, "code": code.String(), "text_class": className, "text": text, "source": src, "details": k, "before": before, "failed_send_first": badSend, "client_deadline": withDeadline,
		"client_err": errStr(cl.Err), "client_msgs": gen.DescribeSeq(cl.Msgs), "meta_sent": meta, "handler_headers_trailers_sharing_keys": sharedKeys}
	if cl.Err == nil {
		run.Violation(key+"/delivered-as-success", "handler error was delivered to the client as success", detail)
		return
	}
	run.Count("errors.transferred", 1)
	var ce *connect.Error
	if !errors.As(cl.Err, &ce) {
		run.Violation(key+"/not-connect-error", "client error is not a *connect.Error", detail)
		return
	}
	if ce.Code() != wantCode {
		run.Violation(key+"/code", fmt.Sprintf("client saw code %v, handler returned %v", ce.Code(), wantCode), detail)
	}
	if ce.Message() != text {
		detail["client_message"] = ce.Message()
		run.Violation(key+"/message", fmt.Sprintf("message not byte-identical: got %q want %q", trunc(ce.Message(), 200), trunc(text, 200)), detail)
	}
	if len(ce.Details()) != len(details) {
		run.Violation(key+"/details-count", fmt.Sprintf("client saw %d details, handler attached %d", len(ce.Details()), len(details)), detail)
	} else {
		for i, d := range ce.Details() {
			got, ok := d.(*anypb.Any)
			if !ok {
				// compare via name + marshal
				b, _ := proto.Marshal(d)
				got = &anypb.Any{TypeUrl: "type.googleapis.com/" + string(d.MessageName()), Value: b}
			}
			if got.TypeUrl != details[i].TypeUrl || !proto.Equal(mustUnpack(got), mustUnpack(details[i])) {
				run.Violation(key+"/details-value", fmt.Sprintf("detail %d differs: got %s want %s", i, got.TypeUrl, details[i].TypeUrl), detail)
				break
			}
			run.Count("details.compared", 1)
		}
	}
	for mk, mv := range meta {
		got := ce.Meta().Values(mk)
		run.Count("meta.values.compared", int64(len(mv)))
		if !subseq(got, mv) {
			detail["meta_key"] = mk
			detail["meta_got"] = got
			run.Violation(key+"/meta", fmt.Sprintf("error metadata %q: client sees %q, handler attached %q", mk, got, mv), detail)
			break
		}
	}
	if same, why := gen.SameSeq(cl.Msgs, sent); !same {
		run.Violation(key+"/messages-before-error", "messages delivered before the error differ from those sent: "+why, detail)
	}
	if kind == svc.Unary && protocol == "connect" {
		if ex := cs.Tap.Get(call.ID); ex != nil {
			run.Count("unary_connect.status.checked", 1)
			if ex.Status >= 200 && ex.Status < 300 {
				run.Violation(key+"/http-status", fmt.Sprintf("failed unary Connect call answered with HTTP %d", ex.Status), detail)
			}
		}
	}
	run.Sample(map[string]any{"config": cfg, "code": code.String(), "class": className, "source": src, "details": k, "before": before, "meta_keys": len(meta)})
}

func mustUnpack(a *anypb.Any) proto.Message {
	m, err := a.UnmarshalNew()
	if err != nil {
		return a
	}
	return m
}
