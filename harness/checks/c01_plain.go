package checks

import (
	"context"
	"fmt"
	"net/http"
	"strings"

	connect "github.com/bufbuild/connect-go"
	"verif.local/harness/ev"
	"verif.local/harness/svc"
	"verif.local/harness/wire"
)

// blob is a message type of an application-defined codec: a plain struct, not
// a protobuf message. Its zero value encodes to nothing, like proto's.
type blob struct{ B []byte }

// Reset is what the receive path has to call before it reuses the holder for
// a message with an empty encoding.
func (b *blob) Reset() { b.B = nil }

type blobCodec struct{}

func (blobCodec) Name() string { return "blob" }
func (blobCodec) Marshal(m any) ([]byte, error) {
	b, ok := m.(*blob)
	if !ok {
		return nil, fmt.Errorf("blob codec: %T", m)
	}
	return append([]byte(nil), b.B...), nil
}
func (blobCodec) Unmarshal(data []byte, m any) error {
	b, ok := m.(*blob)
	if !ok {
		return fmt.Errorf("blob codec: %T", m)
	}
	b.B = append([]byte(nil), data...)
	return nil
}

// c01PlainStructCodec: the typed streaming APIs reuse one message holder for
// every Receive. With an application codec whose messages are plain structs,
// sequences with empty-encoding messages after non-empty ones must still
// arrive as sent, in both directions and in every protocol.
func c01PlainStructCodec(run *ev.Run) {
	r := run.Rand("c01/plain-struct-codec")
	seqs := [][]string{{"abc", "", "de", "", "", strings.Repeat("x", 600), ""}, {"", "", "a"}, {"a", ""}, {""}}
	for i := 0; i < 6; i++ {
		var s []string
		for j := 0; j < 1+r.Intn(8); j++ {
			if r.Intn(2) == 0 {
				s = append(s, "")
			} else {
				s = append(s, strings.Repeat(string(rune('a'+r.Intn(26))), 1+r.Intn(700)))
			}
		}
		seqs = append(seqs, s)
	}
	for _, protocol := range svc.Protocols {
		for si, seq := range seqs {
			for _, dir := range []string{"request", "response"} {
				key := fmt.Sprintf("c01/plain-struct-codec/%s/%s/seq=%d", protocol, dir, si)
				if !run.Want(key) {
					continue
				}
				var handlerGot []string
				mux := http.NewServeMux()
				mux.Handle("/verif.Blob/Up", connect.NewClientStreamHandler("/verif.Blob/Up", func(_ context.Context, st *connect.ClientStream[blob]) (*connect.Response[blob], error) {
					for st.Receive() {
						handlerGot = append(handlerGot, string(st.Msg().B))
					}
					return connect.NewResponse(&blob{B: []byte("ok")}), st.Err()
				}, connect.WithCodec(blobCodec{})))
				mux.Handle("/verif.Blob/Down", connect.NewServerStreamHandler("/verif.Blob/Down", func(_ context.Context, _ *connect.Request[blob], st *connect.ServerStream[blob]) error {
					for _, s := range seq {
						if err := st.Send(&blob{B: []byte(s)}); err != nil {
							return err
						}
					}
					return nil
				}, connect.WithCodec(blobCodec{})))
				lb := &wire.Loopback{Handler: mux}
				opts := append(svc.ProtoOpts(protocol, "proto"), connect.WithCodec(blobCodec{}))
				var got []string
				var callErr error
				ok, dump := watchdog(30e9, func() {
					if dir == "request" {
						c := connect.NewClient[blob, blob](lb, "http://verif.local/verif.Blob/Up", opts...)
						st := c.CallClientStream(context.Background())
						for _, s := range seq {
							if err := st.Send(&blob{B: []byte(s)}); err != nil {
								callErr = err
								break
							}
						}
						_, err := st.CloseAndReceive()
						if callErr == nil {
							callErr = err
						}
						got = handlerGot
						return
					}
					c := connect.NewClient[blob, blob](lb, "http://verif.local/verif.Blob/Down", opts...)
					st, err := c.CallServerStream(context.Background(), connect.NewRequest(&blob{B: []byte("go")}))
					if err != nil {
						callErr = err
						return
					}
					for st.Receive() {
						got = append(got, string(st.Msg().B))
					}
					callErr = st.Err()
					_ = st.Close()
				})
				run.Count("calls", 1)
				run.Count("plain_struct_codec.calls", 1)
				run.Eval(fmt.Sprintf("plain-struct-codec|%s|%s|%d", protocol, dir, si))
				short := func(a []string) []string {
					out := make([]string, len(a))
					for i, s := range a {
						out[i] = fmt.Sprintf("%q", trunc(s, 12))
						if len(s) > 12 {
							out[i] += fmt.Sprintf("(len %d)", len(s))
						}
					}
					return out
				}
				detail := map[string]any{"protocol": protocol, "direction": dir, "sent": short(seq), "received": short(got), "error": errStr(callErr)}
				switch {
				case !ok:
					run.Violation(key+"/hang", "call did not return", trunc(dump, 20000))
				case callErr != nil:
					run.Violation(key+"/failed", "a stream of plain-struct messages failed: "+errStr(callErr), detail)
				case fmt.Sprint(got) != fmt.Sprint(seq) || len(got) != len(seq):
					run.Violation(key+"/sequence", "the receiver's reused holder yielded a different sequence than was sent (application codec with plain-struct messages)", detail)
				}
			}
		}
	}
}
