package checks

import (
	"context"
	"errors"
	"fmt"
	"net/http"

	connect "github.com/bufbuild/connect-go"
	"google.golang.org/protobuf/types/known/anypb"
	"google.golang.org/protobuf/types/known/wrapperspb"
	"verif.local/harness/gen"
	"verif.local/harness/svc"
	"verif.local/harness/wire"
)

// recorded is one complete, valid exchange produced by a connect-go client
// talking to a connect-go handler through the in-memory loopback.
type recorded struct {
	Name     string
	Proto    string
	Codec    string
	Kind     svc.Kind
	Gzip     bool
	Scenario string // ok | err | err-early
	Sends    []*gen.Msg
	Replies  []*gen.Msg // what the handler program sends
	HErr     error
	Ex       *wire.LoopExchange
	Outcome  *svc.CLog // what the client observed on the unmodified exchange
	HLog     *svc.HLog
	COpts    []connect.ClientOption
}

// corpusSpec selects what to record.
type corpusSpec struct {
	protos    []string
	codecs    []string
	kinds     []svc.Kind
	gzips     []bool
	counts    []int // number of stream messages
	scenarios []string
	hopts     []connect.HandlerOption
	copts     []connect.ClientOption
	small     bool // 2-byte messages
}

func corpusErr() error {
	ce := connect.NewError(connect.CodeResourceExhausted, errors.New("quota é exhausted"))
	if d, err := anypb.New(wrapperspb.String("detail")); err == nil {
		ce.AddDetail(d)
	}
	ce.Meta().Add("X-Err-Meta", "m1")
	ce.Meta().Add("X-Err-Meta", "m2")
	return ce
}

// buildCorpus records exchanges for the cross product in spec. Each entry has
// its own handler set + registry so that it can be replayed in isolation.
func buildCorpus(spec corpusSpec) []*recorded {
	var out []*recorded
	for _, p := range spec.protos {
		for _, c := range spec.codecs {
			for _, k := range spec.kinds {
				for _, gz := range spec.gzips {
					for _, n := range spec.counts {
						for _, sc := range spec.scenarios {
							if (k == svc.Unary) && n != spec.counts[0] {
								continue
							}
							r := recordOne(spec, p, c, k, gz, n, sc)
							if r != nil {
								out = append(out, r)
							}
						}
					}
				}
			}
		}
	}
	return out
}

func corpusMsg(i int, small bool) *gen.Msg {
	if small {
		return &gen.Msg{Id: uint64(i + 1)}
	}
	if i%3 == 2 {
		return gen.Zero()
	}
	return gen.New(uint64(100+i), 40+i*30, true)
}

func recordOne(spec corpusSpec, p, c string, k svc.Kind, gz bool, n int, sc string) *recorded {
	reg := svc.NewRegistry()
	hopts := append([]connect.HandlerOption{}, spec.hopts...)
	copts := append(svc.ProtoOpts(p, c), spec.copts...)
	if gz {
		copts = append(copts, connect.WithSendGzip())
	} else {
		// keep responses uncompressed too
		hopts = append(hopts, connect.WithCompressMinBytes(1<<30))
	}
	hs := svc.Handlers(reg, hopts...)
	lb := &wire.Loopback{Handler: svc.Mux(hs)}
	cs := svc.NewClientSet(lb, "http://verif.local", copts...)
	rec := &recorded{Proto: p, Codec: c, Kind: k, Gzip: gz, Scenario: sc, COpts: copts}
	rec.Name = fmt.Sprintf("%s/%s/%s/gzip=%v/n=%d/%s", p, c, k, gz, n, sc)
	prog := &svc.Program{Header: http.Header{"X-Resp-Hdr": {"h1", "h2"}}, Trailer: http.Header{"X-Resp-Trl": {"t1"}}}
	var in, outm []*gen.Msg
	for i := 0; i < n; i++ {
		in = append(in, corpusMsg(i, spec.small))
		outm = append(outm, corpusMsg(i+10, spec.small))
	}
	switch k {
	case svc.Unary:
		rec.Sends = []*gen.Msg{corpusMsg(0, spec.small)}
		rec.Replies = []*gen.Msg{corpusMsg(10, spec.small)}
		prog.Steps = []svc.Step{{Op: "recv"}, {Op: "send", Msg: rec.Replies[0]}}
	case svc.ClientStream:
		rec.Sends = in
		rec.Replies = []*gen.Msg{corpusMsg(10, spec.small)}
		prog.Steps = []svc.Step{{Op: "recvall"}, {Op: "send", Msg: rec.Replies[0]}}
	case svc.ServerStream:
		rec.Sends = []*gen.Msg{corpusMsg(0, spec.small)}
		rec.Replies = outm
		prog.Steps = []svc.Step{{Op: "recv"}}
		for _, m := range outm {
			prog.Steps = append(prog.Steps, svc.Step{Op: "send", Msg: m})
		}
	case svc.Bidi:
		rec.Sends = in
		rec.Replies = outm
		prog.Steps = []svc.Step{{Op: "recvall"}}
		for _, m := range outm {
			prog.Steps = append(prog.Steps, svc.Step{Op: "send", Msg: m})
		}
	}
	switch sc {
	case "err":
		rec.HErr = corpusErr()
		prog.Return = rec.HErr
		if k == svc.Unary || k == svc.ClientStream {
			// the response message is never sent on error
			prog.Steps = prog.Steps[:1]
			rec.Replies = nil
		}
	case "err-early":
		rec.HErr = corpusErr()
		prog.Return = rec.HErr
		prog.Steps = prog.Steps[:1]
		rec.Replies = nil
	}
	call := reg.New("rec", prog)
	rec.Outcome = cs.Do(context.Background(), k, call.ID, nil, rec.Sends)
	rec.HLog = call.Log
	rec.Ex = lb.Last()
	if rec.Ex == nil {
		return nil
	}
	return rec
}

// replayResponse runs the recorded client program against a canned response
// (status/headers/trailers from the recording, body as scripted).
func (r *recorded) replayResponse(body *wire.ScriptedBody, withTrailers bool, extra ...connect.ClientOption) (*svc.CLog, *wire.Canned) {
	res := *r.Ex.Result
	if !withTrailers {
		res.Trailer = nil
	}
	cn := &wire.Canned{Respond: func(req *http.Request, _ []byte) (*http.Response, error) {
		return wire.ResponseFromResult(req, &res, body), nil
	}}
	opts := append(append([]connect.ClientOption{}, r.COpts...), extra...)
	cs := svc.NewClientSet(cn, "http://verif.local", opts...)
	return cs.Do(context.Background(), r.Kind, "replay", nil, r.Sends), cn
}

// replayRequest serves the recorded request (body as scripted) with a fresh
// handler running the given program; returns the handler log and the response.
func (r *recorded) replayRequest(body *wire.ScriptedBody, prog *svc.Program, hopts ...connect.HandlerOption) (*svc.HLog, *wire.Result) {
	return r.replayRequestCL(body, prog, false, hopts...)
}

// replayRequestCL is replayRequest; with declare the request also announces its
// (true) body length in Content-Length, as a client that buffered it would.
func (r *recorded) replayRequestCL(body *wire.ScriptedBody, prog *svc.Program, declare bool, hopts ...connect.HandlerOption) (*svc.HLog, *wire.Result) {
	reg := svc.NewRegistry()
	if !r.Gzip {
		hopts = append(hopts, connect.WithCompressMinBytes(1<<30))
	}
	hs := svc.Handlers(reg, hopts...)
	call := reg.New("rq", prog)
	hdr := r.Ex.ReqHeader.Clone()
	hdr.Set(wire.CallHeader, call.ID)
	rec := wire.NewRecorder()
	req := wire.ServerRequest(context.Background(), "POST", r.Kind.Path(), hdr, body, 2)
	if declare {
		req.ContentLength = int64(len(body.Data))
		req.Header.Set("Content-Length", fmt.Sprint(len(body.Data)))
	}
	hs[r.Kind].ServeHTTP(rec, req)
	return call.Log, rec.Finish()
}

// drainProgram is the handler program used for request-side replays: receive
// everything, then answer with the number of messages and the id sum.
func drainProgram() *svc.Program {
	return &svc.Program{Steps: []svc.Step{{Op: "recvall"}, {Op: "sendsum"}}, StopOnRecvErr: true}
}
