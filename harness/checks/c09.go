package checks

import (
	"bytes"
	"compress/gzip"
	"context"
	"errors"
	"fmt"
	"io"
	"math"
	"net/http"
	"runtime"
	"strings"
	"time"

	connect "github.com/bufbuild/connect-go"
	"google.golang.org/protobuf/proto"
	"verif.local/harness/ev"
	"verif.local/harness/gen"
	"verif.local/harness/refcodec"
	"verif.local/harness/svc"
	"verif.local/harness/wire"
)

func init() { register("C09", "exploration", c09) }

// c09Msg builds a message for a target encoded size under the proto codec.
// mode: "plain" (incompressible-ish), "squeeze" (highly compressible).
func c09Msg(id uint64, size int, squeeze bool) *gen.Msg {
	return gen.OfEncodedSize("proto", id, size, squeeze)
}

func c09(run *ev.Run) int {
	run.SetRule("limit cases = N in {2,10,100,1000,65536,131072} (thorough: 13 values from 1 to 1 MiB; plus limits at the top of the integer range, under which everything must be delivered) x encoded size in {N-1,N,N+1,10N} (exact, proto codec; JSON sampled) x {identity, gzip} x position {first,middle,last} of a 3-message stream (or the single unary message) x 3 protocols x 4 kinds x {handler-side limit, client-side limit}; hostile cases = lying prefixes (2^32-1, 2^31, N+1 declared with 3 bytes present; <=N declared with fewer present), 32 MiB envelopes with reserved flags, 64/256 MiB gzip bombs and 6-byte bombs of a registered run-length algorithm, with and without io.WriterTo on its decompressor (as data messages, as compressed Connect end-of-stream messages and gRPC-Web trailer frames, as error bodies of non-200 responses to unary and streaming calls), valid small bodies under a Content-Length unrelated to them (2^62 ... unknown), each measured alone on one goroutine with runtime.MemStats.TotalAlloc; also truthfully declared Content-Length with a well-compressed message within / above the limit; history: one WithCompression value shared by handlers with limits 64 / 4 KiB / 256 MiB; oracle: delivered <=> encoded size <= N (wire and decompressed; raw<=N<wire is either), failing call has invalid_argument/resource_exhausted, earlier messages delivered and none after, allocation for one message <= 16N + slack; distinct by (N, size class, compression class, position, protocol, kind, side)")
	Ns := []int{2, 10, 100, 1000, 65536, 131072}
	if !run.Quick() {
		Ns = []int{1, 2, 3, 10, 50, 100, 500, 1000, 4096, 65535, 65536, 131072, 1 << 20}
	}
	type job struct {
		N     int
		proto string
		kind  svc.Kind
		side  string // handler | client
		gz    bool
	}
	var jobs []job
	for _, N := range Ns {
		for _, p := range svc.Protocols {
			for _, k := range svc.Kinds {
				for _, side := range []string{"handler", "client"} {
					for _, gz := range []bool{false, true} {
						jobs = append(jobs, job{N, p, k, side, gz})
					}
				}
			}
		}
	}
	parallel(16, len(jobs), func(ji int) {
		j := jobs[ji]
		c09Limit(run, j.N, j.proto, j.kind, j.side, j.gz)
	})
	c09HugeLimits(run)
	// hostile, measured one at a time
	if !run.Replaying() || strings.Contains(run.ReplayKey(), "/hostile/") {
		c09Hostile(run)
	}
	return run.Finish("limit.cases", "accepted.at_or_below_limit", "rejected.above_limit", "alloc.measured")
}

func c09Limit(run *ev.Run, N int, protocol string, kind svc.Kind, side string, gz bool) {
	var hopts []connect.HandlerOption
	copts := svc.ProtoOpts(protocol, "proto")
	if side == "handler" {
		hopts = append(hopts, connect.WithReadMaxBytes(N))
	} else {
		copts = append(copts, connect.WithReadMaxBytes(N))
	}
	if gz {
		// small filler messages (<= 2 bytes) stay uncompressed
		copts = append(copts, connect.WithSendGzip(), connect.WithCompressMinBytes(3))
		hopts = append(hopts, connect.WithCompressMinBytes(3))
	} else {
		hopts = append(hopts, connect.WithCompressMinBytes(1<<30))
		copts = append(copts, connect.WithCompressMinBytes(1<<30))
	}
	reg := svc.NewRegistry()
	hs := svc.Handlers(reg, hopts...)
	lb := &wire.Loopback{Handler: svc.Mux(hs)}
	cs := svc.NewClientSet(lb, "http://verif.local", copts...)
	// which direction carries the limited stream?
	limitedIsRequest := side == "handler"
	streamLen := 1
	if (limitedIsRequest && (kind == svc.ClientStream || kind == svc.Bidi)) || (!limitedIsRequest && (kind == svc.ServerStream || kind == svc.Bidi)) {
		streamLen = 3
	}
	small := gen.Zero()
	if N >= 100 {
		small = &gen.Msg{Id: 3}
	}
	for _, size := range []int{N - 1, N, N + 1, 10 * N} {
		for _, squeeze := range []bool{false, true} {
			if squeeze && !gz {
				continue
			}
			for pos := 0; pos < streamLen; pos++ {
				big := c09Msg(uint64(size)+7, size, squeeze)
				if big == nil {
					continue
				}
				raw := proto.Size(big)
				wireSize := raw
				if gz {
					b, _ := proto.Marshal(big)
					wireSize = len(refcodec.GzipCompress(b))
				}
				key := fmt.Sprintf("c09/limit/N=%d/%s/%s/%s/gz=%v/size=%d/squeeze=%v/pos=%d", N, protocol, kind, side, gz, size, squeeze, pos)
				if !run.Want(key) {
					continue
				}
				seq := make([]*gen.Msg, streamLen)
				for i := range seq {
					seq[i] = small
				}
				seq[pos] = big
				other := []*gen.Msg{small}
				var sends, replies []*gen.Msg
				if limitedIsRequest {
					sends, replies = seq, other
				} else {
					sends, replies = other, seq
				}
				if kind == svc.Bidi || kind == svc.ServerStream {
					if limitedIsRequest {
						replies = []*gen.Msg{small, small}
					}
				}
				if kind == svc.Unary || kind == svc.ClientStream {
					replies = replies[:1]
				}
				if kind == svc.Unary || kind == svc.ServerStream {
					sends = sends[:1]
				}
				prog := &svc.Program{StopOnRecvErr: true, Steps: []svc.Step{{Op: "recvall"}}}
				for _, m := range replies {
					prog.Steps = append(prog.Steps, svc.Step{Op: "send", Msg: m})
				}
				call := reg.New("c09", prog)
				cl := cs.Do(context.Background(), kind, call.ID, nil, sends)
				reg.Drop(call)
				run.Count("limit.cases", 1)
				cls := "identity"
				if gz {
					cls = fmt.Sprintf("gzip(raw%sN,wire%sN)", rel(raw, N), rel(wireSize, N))
				}
				run.Eval(fmt.Sprintf("N=%d|%s|%s|%s|%s|size%sN|pos=%d/%d", N, protocol, kind, side, cls, rel(size, N), pos, streamLen))
				var received []*gen.Msg
				var sent []*gen.Msg
				var recvErr error
				if limitedIsRequest {
					received, sent, recvErr = call.Log.Received, sends, call.Log.RecvErr
				} else {
					received, sent, recvErr = cl.Msgs, replies, cl.Err
				}
				detail := map[string]any{"N": N, "protocol": protocol, "kind": kind.String(), "side": side, "gzip": gz, "encoded_size": raw, "wire_size": wireSize, "position": pos, "stream_len": len(sent),
					"received": gen.DescribeSeq(received), "client_err": errStr(cl.Err), "handler_recv_err": errStr(call.Log.RecvErr)}
				if pos >= len(sent) {
					continue
				}
				mustAccept := raw <= N && wireSize <= N
				mustReject := raw > N
				for _, m := range received {
					if proto.Size(m) > N {
						run.Violation(key+"/delivered-oversize", fmt.Sprintf("a message of %d encoded bytes was delivered to the application although the read limit is %d", proto.Size(m), N), detail)
						return
					}
				}
				if mustReject {
					run.Count("rejected.above_limit", 1)
					// messages before the oversize one are delivered, none after
					if okp, why := isPrefix(received, sent[:pos]); !okp || len(received) != pos {
						run.Violation(key+"/around-oversize", fmt.Sprintf("expected exactly the %d messages before the oversize one to be delivered (%s)", pos, why), detail)
						return
					}
					if cl.Err == nil {
						run.Violation(key+"/oversize-call-succeeded", "the call carrying an oversize message succeeded", detail)
						return
					}
					e := recvErr
					if e == nil {
						e = cl.Err
					}
					if c := connect.CodeOf(e); c != connect.CodeInvalidArgument && c != connect.CodeResourceExhausted {
						run.Violation(key+"/error-code", fmt.Sprintf("oversize message reported as %v, documented code is invalid_argument (resource_exhausted accepted)", c), detail)
						return
					}
					if limitedIsRequest {
						// the peer must learn about it as well
						if c := connect.CodeOf(cl.Err); c != connect.CodeInvalidArgument && c != connect.CodeResourceExhausted {
							run.Violation(key+"/client-error-code", fmt.Sprintf("client saw %v for a request the handler rejected as oversize", c), detail)
							return
						}
					}
				}
				if mustAccept && !limitedIsRequest && cl.Err != nil {
					// Every message arrived; the call failed on the protocol's own
					// terminator frame (gRPC-Web trailers / Connect end-of-stream),
					// which this library also holds to the limit. The statement
					// speaks about messages, so this is not judged.
					if ex := lb.Last(); ex != nil {
						frames, _ := refcodec.ParseFrames(ex.Result.Body)
						if n := len(frames); n > 0 && frames[n-1].Flags&0x82 != 0 && len(frames[n-1].Payload) > N {
							run.Inconclusive("terminator frame larger than N (not a message)")
							continue
						}
					}
				}
				if mustAccept {
					run.Count("accepted.at_or_below_limit", 1)
					if cl.Err != nil || recvErr != nil && !errors.Is(recvErr, errEOFSentinel) && !isEOFErr(recvErr) {
						run.Violation(key+"/rejected-within-limit", fmt.Sprintf("a message of %d encoded bytes (wire %d) was rejected although the read limit is %d", raw, wireSize, N), detail)
						return
					}
					if same, why := gen.SameSeq(received, sent); !same {
						run.Violation(key+"/within-limit-lossy", "messages within the limit were not all delivered: "+why, detail)
						return
					}
				}
				if !mustAccept && !mustReject {
					run.Inconclusive("raw<=N<wire (either outcome)")
				}
				if size == N+1 && pos == 0 {
					run.Sample(map[string]any{"N": N, "protocol": protocol, "kind": kind.String(), "side": side, "gzip": gz, "encoded": raw, "wire": wireSize, "outcome": errStr(cl.Err)})
				}
			}
		}
	}
}

var errEOFSentinel = errors.New("eof sentinel")

func isEOFErr(err error) bool {
	return err != nil && strings.Contains(err.Error(), "EOF") && connect.CodeOf(err) == connect.CodeUnknown
}

func rel(a, b int) string {
	switch {
	case a < b:
		return "<"
	case a == b:
		return "="
	}
	return ">"
}

// measure runs f alone and returns the bytes allocated meanwhile.
func measure(f func()) uint64 {
	runtime.GC()
	var a, b runtime.MemStats
	runtime.ReadMemStats(&a)
	f()
	runtime.ReadMemStats(&b)
	return b.TotalAlloc - a.TotalAlloc
}

func c09Hostile(run *ev.Run) {
	const N = 128 << 10
	bound := uint64(16*N + 3<<20)
	run.Set("alloc_bound_bytes", bound)
	zeros64 := refcodec.GzipCompress(make([]byte, 64<<20))
	zeros256 := refcodec.GzipCompress(make([]byte, 256<<20))
	big32 := make([]byte, 32<<20)
	var maxAlloc uint64
	allocs := map[string]uint64{}
	defer func() {
		run.Set("max_allocated_bytes_for_one_hostile_message", maxAlloc)
		run.Set("allocated_bytes_by_case", allocs)
	}()
	type hcase struct {
		name    string
		body    func(flags byte) []byte
		gzip    bool
		flagged bool
		// allocOnly: a valid message comes first, so whether the call as a whole
		// fails depends on the kind (a unary handler never looks at what follows
		// its message); only the allocation bound is judged.
		allocOnly bool
	}
	frame := func(flags byte, declared uint32, present []byte) []byte {
		b := []byte{flags, byte(declared >> 24), byte(declared >> 16), byte(declared >> 8), byte(declared)}
		return append(b, present...)
	}
	cases := []hcase{
		{name: "declared-2^32-1", body: func(f byte) []byte { return frame(f, 0xffffffff, []byte{1, 2, 3}) }},
		{name: "declared-2^31", body: func(f byte) []byte { return frame(f, 0x80000000, []byte{1, 2, 3}) }},
		{name: "declared-N+1", body: func(f byte) []byte { return frame(f, N+1, []byte{1, 2, 3}) }},
		{name: "declared-N-short", body: func(f byte) []byte { return frame(f, N, []byte{1, 2, 3}) }},
		{name: "present-32MiB", body: func(f byte) []byte { return frame(f, 32<<20, big32) }},
		{name: "bomb-64MiB", gzip: true, body: func(f byte) []byte { return frame(f|1, uint32(len(zeros64)), zeros64) }},
		{name: "bomb-256MiB", gzip: true, body: func(f byte) []byte { return frame(f|1, uint32(len(zeros256)), zeros256) }},
		{name: "reserved-flag-0x02-32MiB", flagged: true, body: func(byte) []byte { return frame(0x02, 32<<20, big32) }},
		{name: "reserved-flag-0x80-32MiB", flagged: true, body: func(byte) []byte { return frame(0x80, 32<<20, big32) }},
		{name: "reserved-flag-0x82-declared-2^31", flagged: true, body: func(byte) []byte { return frame(0x82, 0x80000000, []byte{1, 2, 3}) }},
		// the slots that are not data messages: a compressed Connect end-of-stream
		// message and a compressed gRPC-Web trailers frame are buffered like any
		// other envelope and are held to the same limit
		{name: "compressed-end-of-stream-0x03-bomb-64MiB", gzip: true, flagged: true, body: func(byte) []byte { return frame(0x03, uint32(len(zeros64)), zeros64) }},
		{name: "compressed-web-trailers-0x81-bomb-64MiB", gzip: true, flagged: true, body: func(byte) []byte { return frame(0x81, uint32(len(zeros64)), zeros64) }},
		{name: "message-then-compressed-end-of-stream-bomb", gzip: true, flagged: true, allocOnly: true, body: func(byte) []byte {
			return append(frame(0, 2, []byte{0x08, 0x01}), frame(0x03, uint32(len(zeros64)), zeros64)...)
		}},
		{name: "message-then-compressed-web-trailers-bomb", gzip: true, flagged: true, allocOnly: true, body: func(byte) []byte {
			return append(frame(0, 2, []byte{0x08, 0x01}), frame(0x81, uint32(len(zeros64)), zeros64)...)
		}},
	}
	for _, protocol := range svc.Protocols {
		for _, kind := range []svc.Kind{svc.ClientStream, svc.ServerStream, svc.Unary} {
			for _, hc := range cases {
				streamCT := !(protocol == "connect" && kind == svc.Unary)
				body := hc.body(0)
				if !streamCT {
					if hc.flagged || !hc.gzip {
						if hc.name != "present-32MiB" {
							continue
						}
						body = big32
					} else {
						body = body[5:]
					}
				}
				encH, _ := encHeaders(protocol, kind)
				ct := contentType(protocol, "proto", kind)
				// ---- handler side
				if kind != svc.ServerStream {
					key := fmt.Sprintf("c09/hostile/handler/%s/%s/%s", protocol, kind, hc.name)
					if run.Want(key) {
						reg := svc.NewRegistry()
						reg.Default = drainProgram()
						hs := svc.Handlers(reg, connect.WithReadMaxBytes(N))
						hdr := http.Header{"Content-Type": {ct}}
						if hc.gzip {
							hdr.Set(encH, "gzip")
						}
						var res *wire.Result
						delta := measure(func() {
							rw := wire.NewRecorder()
							hs[kind].ServeHTTP(rw, wire.ServerRequest(context.Background(), "POST", kind.Path(), hdr, &wire.ScriptedBody{Data: body}, 2))
							res = rw.Finish()
						})
						run.Count("alloc.measured", 1)
						if delta > maxAlloc {
							maxAlloc = delta
						}
						allocs["handler/"+protocol+"/"+kind.String()+"/"+hc.name] = delta
						run.Eval(fmt.Sprintf("hostile|handler|%s|%s|%s", protocol, kind, hc.name))
						d := refcodec.DecodeResponse(protocol, streamCT, res.Status, res.Header, res.Body, res.Trailer, svc.RefAlgos())
						detail := map[string]any{"protocol": protocol, "kind": kind.String(), "case": hc.name, "N": N, "allocated": delta, "bound": bound, "status": res.Status}
						if delta > bound {
							run.Violation(key+"/allocation", fmt.Sprintf("serving one hostile message allocated %d bytes with a read limit of %d (bound %d)", delta, N, bound), detail)
						}
						if d.Err == nil && !hc.allocOnly {
							run.Violation(key+"/accepted", "hostile oversize/lying message was answered with success", detail)
						}
						run.Sample(map[string]any{"side": "handler", "protocol": protocol, "kind": kind.String(), "case": hc.name, "allocated_bytes": delta})
					}
				}
				// ---- client side
				if kind != svc.ClientStream {
					key := fmt.Sprintf("c09/hostile/client/%s/%s/%s", protocol, kind, hc.name)
					if run.Want(key) {
						hdr := http.Header{"Content-Type": {ct}}
						if hc.gzip {
							hdr.Set(encH, "gzip")
						}
						var trailer http.Header
						if protocol == "grpc" {
							trailer = http.Header{"Grpc-Status": {"0"}}
						}
						cn := &wire.Canned{Background: true, Respond: func(req *http.Request, _ []byte) (*http.Response, error) {
							return wire.NewResponse(req, 200, hdr, &wire.ScriptedBody{Data: body}, trailer), nil
						}}
						cs := svc.NewClientSet(cn, "http://verif.local", append(svc.ProtoOpts(protocol, "proto"), connect.WithReadMaxBytes(N))...)
						var cl *svc.CLog
						delta := measure(func() { cl = cs.Do(context.Background(), kind, "x", nil, []*gen.Msg{{Id: 1}}) })
						run.Count("alloc.measured", 1)
						if delta > maxAlloc {
							maxAlloc = delta
						}
						allocs["client/"+protocol+"/"+kind.String()+"/"+hc.name] = delta
						run.Eval(fmt.Sprintf("hostile|client|%s|%s|%s", protocol, kind, hc.name))
						detail := map[string]any{"protocol": protocol, "kind": kind.String(), "case": hc.name, "N": N, "allocated": delta, "bound": bound, "client_err": errStr(cl.Err), "delivered": gen.DescribeSeq(cl.Msgs)}
						if delta > bound {
							run.Violation(key+"/allocation", fmt.Sprintf("receiving one hostile message allocated %d bytes with a read limit of %d (bound %d)", delta, N, bound), detail)
						}
						if cl.Err == nil && !hc.flagged {
							run.Violation(key+"/accepted", "hostile oversize/lying message was delivered as success", detail)
						}
						for _, m := range cl.Msgs {
							if proto.Size(m) > N {
								run.Violation(key+"/delivered-oversize", "oversize message delivered to the application", detail)
							}
						}
						run.Sample(map[string]any{"side": "client", "protocol": protocol, "kind": kind.String(), "case": hc.name, "allocated_bytes": delta})
					}
				}
			}
		}
	}
	// A registered algorithm need not be DEFLATE: a run-length scheme turns a
	// few bytes into as much as it says. The limit on the decompressed size (and
	// the allocation bound) holds for whatever algorithm the application plugs in.
	if !run.Replaying() || strings.Contains(run.ReplayKey(), "/rle-bomb/") {
		rleC := func() connect.Compressor { return &rleCompressor{} }
		for _, variant := range []string{"", "/decompressor-with-WriteTo"} {
			rleD := func() connect.Decompressor { return &rleDecompressor{} }
			if variant != "" {
				// the same algorithm whose decompressor also offers io.WriterTo (as
				// streaming decoders such as zstd's do): an optional fast path must
				// stay under the same limit
				rleD = func() connect.Decompressor { return &rleWriterToDecompressor{} }
			}
			for _, protocol := range svc.Protocols {
				for _, total := range []uint32{N + 1, 64 << 20} {
					key := fmt.Sprintf("c09/hostile/rle-bomb/handler/%s/inflates-to=%d%s", protocol, total, variant)
					if !run.Want(key) {
						continue
					}
					bomb := []byte{'Z', byte(total >> 24), byte(total >> 16), byte(total >> 8), byte(total), 0}
					reg := svc.NewRegistry()
					reg.Default = drainProgram()
					hs := svc.Handlers(reg, connect.WithReadMaxBytes(N), connect.WithCompression("zz-rle", rleD, rleC), connect.WithCompressMinBytes(1<<30)) // (responses stay uncompressed: the reference decoder does not know zz-rle)
					kind := svc.ClientStream
					ct := contentType(protocol, "proto", kind)
					encH, _ := encHeaders(protocol, kind)
					hdr := http.Header{"Content-Type": {ct}}
					hdr.Set(encH, "zz-rle")
					body := frame(1, uint32(len(bomb)), bomb)
					var res *wire.Result
					delta := measure(func() {
						rw := wire.NewRecorder()
						hs[kind].ServeHTTP(rw, wire.ServerRequest(context.Background(), "POST", kind.Path(), hdr, &wire.ScriptedBody{Data: body}, 2))
						res = rw.Finish()
					})
					run.Count("alloc.measured", 1)
					run.Eval(fmt.Sprintf("hostile|handler|%s|rle-bomb|%d", protocol, total))
					d := refcodec.DecodeResponse(protocol, true, res.Status, res.Header, res.Body, res.Trailer, svc.RefAlgos())
					detail := map[string]any{"protocol": protocol, "wire_bytes": len(bomb), "inflates_to": total, "N": N, "allocated": delta, "bound": bound}
					if delta > bound {
						run.Violation(key+"/allocation", fmt.Sprintf("a %d-byte message of a run-length algorithm that inflates to %d bytes made the handler allocate %d bytes with a read limit of %d (bound %d)", len(bomb), total, delta, N, bound), detail)
					}
					if d.Err == nil {
						run.Violation(key+"/accepted", fmt.Sprintf("a message that decompresses to %d bytes was accepted under a read limit of %d", total, N), detail)
					}
				}
			}
		}
	}
	if !run.Replaying() || strings.Contains(run.ReplayKey(), "/declared-exact/") {
		c09DeclaredExact(run)
	}
	if !run.Replaying() || strings.Contains(run.ReplayKey(), "/shared-compression-option/") {
		c09SharedCompressionOption(run)
	}
	// A declared Content-Length that has nothing to do with the (small, valid)
	// body must not size anything: with a read limit N the receiver stays under
	// the same allocation bound, and it never panics.
	if !run.Replaying() || strings.Contains(run.ReplayKey(), "/declared-length/") {
		declaredLengthHandler(run, "c09/hostile", N, func(key string, _ *svc.HLog, _ *wire.Result, panicked any, hung bool, alloc uint64, detail map[string]any) {
			run.Count("alloc.measured", 1)
			detail["allocated"], detail["bound"] = alloc, bound
			switch {
			case hung:
				run.Violation(key+"/hang", "ServeHTTP did not return", detail)
			case panicked != nil:
				run.Violation(key+"/panic", fmt.Sprintf("ServeHTTP panicked: %v", panicked), detail)
			case detail["handler_read_limit"] == true && alloc > bound:
				run.Violation(key+"/allocation", fmt.Sprintf("serving a %v-byte request that declares Content-Length %v allocated %d bytes with a read limit of %d (bound %d)", detail["actual_body_bytes"], detail["declared_content_length"], alloc, N, bound), detail)
			}
			if alloc > maxAlloc && detail["handler_read_limit"] == true {
				maxAlloc = alloc
			}
		})
		declaredLengthClient(run, "c09/hostile", N, func(key string, _ *svc.CLog, panicked any, hung bool, alloc uint64, detail map[string]any) {
			run.Count("alloc.measured", 1)
			detail["allocated"], detail["bound"] = alloc, bound
			switch {
			case hung:
				run.Violation(key+"/hang", "client call did not return", detail)
			case panicked != nil:
				run.Violation(key+"/panic", fmt.Sprintf("client call panicked: %v", panicked), detail)
			case detail["client_read_limit"] == true && alloc > bound:
				run.Violation(key+"/allocation", fmt.Sprintf("receiving a %v-byte response that declares Content-Length %v allocated %d bytes with a read limit of %d (bound %d)", detail["actual_body_bytes"], detail["declared_content_length"], alloc, N, bound), detail)
			}
		})
	}
	// The unary Connect error body travels in the slot of the response message:
	// a hostile server must not be able to make a client with a read limit
	// buffer it without bound either (compressed bomb or plain 32 MiB of JSON).
	for _, ec := range []struct {
		name string
		hdr  http.Header
		body []byte
	}{
		{"error-body-bomb-64MiB", http.Header{"Content-Type": {"application/json"}, "Content-Encoding": {"gzip"}}, zeros64},
		{"error-body-present-32MiB", http.Header{"Content-Type": {"application/json"}}, bytes.Repeat([]byte(" "), 32<<20)},
		{"error-body-valid-json-16MiB-message", http.Header{"Content-Type": {"application/json"}}, []byte(`{"code":"resource_exhausted","message":"` + strings.Repeat("a", 16<<20) + `"}`)},
		{"error-body-valid-json-gzip-16MiB-message", http.Header{"Content-Type": {"application/json"}, "Content-Encoding": {"gzip"}}, refcodec.GzipCompress([]byte(`{"code":"resource_exhausted","message":"` + strings.Repeat("a", 16<<20) + `"}`))},
	} {
		for _, status := range []int{400, 404, 500, 503} {
			for _, pk := range []struct {
				proto string
				kind  svc.Kind
			}{{"connect", svc.Unary}, {"connect", svc.ServerStream}, {"connect", svc.ClientStream}, {"grpc", svc.ServerStream}, {"grpcweb", svc.Unary}} {
				if pk.kind != svc.Unary && status != 404 && status != 503 {
					continue
				}
				key := fmt.Sprintf("c09/hostile/client/%s/%s/%s/status=%d", pk.proto, pk.kind, ec.name, status)
				if !run.Want(key) {
					continue
				}
				ec := ec
				cn := &wire.Canned{Background: true, Respond: func(req *http.Request, _ []byte) (*http.Response, error) {
					return wire.NewResponse(req, status, ec.hdr, &wire.ScriptedBody{Data: ec.body}, nil), nil
				}}
				cs := svc.NewClientSet(cn, "http://verif.local", append(svc.ProtoOpts(pk.proto, "proto"), connect.WithReadMaxBytes(N))...)
				var cl *svc.CLog
				delta := measure(func() { cl = cs.Do(context.Background(), pk.kind, "x", nil, []*gen.Msg{{Id: 1}}) })
				run.Count("alloc.measured", 1)
				if delta > maxAlloc {
					maxAlloc = delta
				}
				allocs[fmt.Sprintf("client/%s/%s/%s/%d", pk.proto, pk.kind, ec.name, status)] = delta
				run.Eval(fmt.Sprintf("hostile|client|%s|%s|%s", pk.proto, pk.kind, ec.name))
				detail := map[string]any{"case": ec.name, "protocol": pk.proto, "kind": pk.kind.String(), "status": status, "N": N, "allocated": delta, "bound": bound, "client_err": errStr(cl.Err)}
				if delta > bound {
					run.Violation(key+"/allocation", fmt.Sprintf("receiving one hostile error body allocated %d bytes with a read limit of %d (bound %d)", delta, N, bound), detail)
				}
				if cl.Err == nil {
					run.Violation(key+"/accepted", "non-200 response reported as success", detail)
				}
				if cl.Err != nil && len(cl.Err.Error()) > 4*N {
					run.Violation(key+"/oversize-error-delivered", fmt.Sprintf("an error text of %d bytes was delivered through a read limit of %d", len(cl.Err.Error()), N), nil)
				}
			}
		}
	}
}

// c09HugeLimits: limits at the top of the integer range ("effectively
// unlimited", a value some applications configure on purpose). Nothing is over
// such a limit, so every message is delivered intact - the arithmetic around
// the limit (limit+1 and the like) must not wrap.
func c09HugeLimits(run *ev.Run) {
	limits := []int{math.MaxInt, math.MaxInt - 1, math.MaxInt32, math.MaxInt32 + 1, 1 << 40}
	for _, N := range limits {
		for _, protocol := range svc.Protocols {
			for _, side := range []string{"handler", "client"} {
				for _, gz := range []bool{false, true} {
					key := fmt.Sprintf("c09/huge-limit/N=%d/%s/%s/gz=%v", N, protocol, side, gz)
					if !run.Want(key) {
						continue
					}
					var hopts []connect.HandlerOption
					copts := svc.ProtoOpts(protocol, "proto")
					if side == "handler" {
						hopts = append(hopts, connect.WithReadMaxBytes(N))
					} else {
						copts = append(copts, connect.WithReadMaxBytes(N))
					}
					if gz {
						copts = append(copts, connect.WithSendGzip())
					} else {
						hopts = append(hopts, connect.WithCompressMinBytes(1<<30))
					}
					reg := svc.NewRegistry()
					cs := svc.NewClientSet(&wire.Loopback{Handler: svc.Mux(svc.Handlers(reg, hopts...))}, "http://verif.local", copts...)
					for _, kind := range svc.Kinds {
						msgs := []*gen.Msg{gen.New(1, 10, true), gen.Zero(), gen.New(2, 2000, true), gen.New(3, 70000, false)}
						sends, replies := msgs, []*gen.Msg{gen.New(9, 300, true), gen.New(10, 5000, true)}
						if kind == svc.Unary || kind == svc.ServerStream {
							sends = sends[2:3]
						}
						if kind == svc.Unary || kind == svc.ClientStream {
							replies = replies[:1]
						}
						prog := &svc.Program{Steps: []svc.Step{{Op: "recvall"}}}
						for _, m := range replies {
							prog.Steps = append(prog.Steps, svc.Step{Op: "send", Msg: m})
						}
						call := reg.New("c09h", prog)
						cl := cs.Do(context.Background(), kind, call.ID, nil, sends)
						reg.Drop(call)
						run.Eval(fmt.Sprintf("huge-limit|%d|%s|%s|%s|%v", N, protocol, kind, side, gz))
						run.Count("huge_limit.calls", 1)
						detail := map[string]any{"N": N, "protocol": protocol, "kind": kind.String(), "side": side, "gzip": gz, "client_err": errStr(cl.Err)}
						if cl.Err != nil {
							run.Violation(key+"/"+kind.String()+"/failed", fmt.Sprintf("a call whose messages are far below the read limit %d failed: %v", N, cl.Err), detail)
							continue
						}
						if same, why := gen.SameSeq(call.Log.Received, sends); !same {
							run.Violation(key+"/"+kind.String()+"/request", "messages below the limit were not delivered intact to the handler: "+why, detail)
							continue
						}
						if same, why := gen.SameSeq(cl.Msgs, replies); !same {
							run.Violation(key+"/"+kind.String()+"/response", "messages below the limit were not delivered intact to the client: "+why, detail)
						}
					}
				}
			}
		}
	}
}

// rleDecompressor: "zz-rle" = 'Z' + 4-byte big-endian count + one byte, meaning
// that byte repeated count times. It produces its output lazily, so whatever is
// allocated for it is the receiver's doing.
type rleDecompressor struct {
	left int64
	b    byte
	err  error
}

func (d *rleDecompressor) Reset(r io.Reader) error {
	raw, err := io.ReadAll(io.LimitReader(r, 16))
	d.left, d.err = 0, nil
	if err != nil {
		d.err = err
		return err
	}
	if len(raw) == 0 {
		return nil // parked
	}
	if len(raw) != 6 || raw[0] != 'Z' {
		d.err = errors.New("zz-rle: bad header")
		return d.err
	}
	d.left = int64(raw[1])<<24 | int64(raw[2])<<16 | int64(raw[3])<<8 | int64(raw[4])
	d.b = raw[5]
	return nil
}

func (d *rleDecompressor) Read(p []byte) (int, error) {
	if d.err != nil {
		return 0, d.err
	}
	if d.left == 0 {
		return 0, io.EOF
	}
	n := len(p)
	if int64(n) > d.left {
		n = int(d.left)
	}
	for i := 0; i < n; i++ {
		p[i] = d.b
	}
	d.left -= int64(n)
	return n, nil
}

func (d *rleDecompressor) Close() error { return nil }

// rleWriterToDecompressor additionally implements io.WriterTo, handing
// everything it has to the sink in 32 KiB pieces.
type rleWriterToDecompressor struct{ rleDecompressor }

func (d *rleWriterToDecompressor) WriteTo(w io.Writer) (int64, error) {
	var total int64
	buf := make([]byte, 32<<10)
	for {
		n, err := d.Read(buf)
		if n > 0 {
			m, werr := w.Write(buf[:n])
			total += int64(m)
			if werr != nil {
				return total, werr
			}
		}
		if err == io.EOF {
			return total, nil
		}
		if err != nil {
			return total, err
		}
	}
}

// rleCompressor never compresses anything the checks look at (responses are
// small); it writes a run of zero bytes for whatever it is given.
type rleCompressor struct {
	w io.Writer
	n int
}

func (c *rleCompressor) Write(p []byte) (int, error) { c.n += len(p); return len(p), nil }
func (c *rleCompressor) Close() error {
	_, err := c.w.Write([]byte{'Z', byte(c.n >> 24), byte(c.n >> 16), byte(c.n >> 8), byte(c.n), 0})
	return err
}
func (c *rleCompressor) Reset(w io.Writer) { c.w, c.n = w, 0 }

// c09DeclaredExact: the limit is about the size of a message, not about the
// size of the body that carries it. A request that truthfully declares its
// Content-Length and carries one well-compressed message whose decompressed
// size is within the limit (but larger than the whole body) must be accepted;
// one whose decompressed size exceeds the limit must be rejected.
func c09DeclaredExact(run *ev.Run) {
	for _, N := range []int{2048, 16384} {
		for _, rel := range []string{"within", "over"} {
			size := N - 200
			if rel == "over" {
				size = N + 200
			}
			m := gen.New(uint64(900+N), size, true)
			raw, _ := proto.Marshal(m)
			gz := refcodec.GzipCompress(raw)
			if len(gz)+5 >= len(raw) || (rel == "within" && len(raw) > N) || (rel == "over" && len(raw) <= N) {
				run.Inconclusive("declared-exact: the generated message does not have the intended sizes")
				continue
			}
			for _, protocol := range svc.Protocols {
				for _, kind := range []svc.Kind{svc.Unary, svc.ClientStream, svc.Bidi} {
					for _, declare := range []bool{true, false} {
						key := fmt.Sprintf("c09/declared-exact/N=%d/%s/%s/%s/declared=%v", N, rel, protocol, kind, declare)
						if !run.Want(key) {
							continue
						}
						stream := !(protocol == "connect" && kind == svc.Unary)
						hdr := http.Header{"Content-Type": {contentType(protocol, "proto", kind)}}
						body := gz
						switch {
						case !stream:
							hdr.Set("Content-Encoding", "gzip")
						case protocol == "connect":
							hdr.Set("Connect-Content-Encoding", "gzip")
							body = refcodec.AppendFrame(nil, 1, gz)
						default:
							hdr.Set("Grpc-Encoding", "gzip")
							hdr.Set("Te", "trailers")
							body = refcodec.AppendFrame(nil, 1, gz)
						}
						reg := svc.NewRegistry()
						hs := svc.Handlers(reg, connect.WithReadMaxBytes(N), connect.WithCompressMinBytes(1<<30))
						call := reg.New("de", drainProgram())
						hdr.Set(wire.CallHeader, call.ID)
						rw := wire.NewRecorder()
						req := wire.ServerRequest(context.Background(), "POST", kind.Path(), hdr, &wire.ScriptedBody{Data: body}, 2)
						if declare {
							req.ContentLength = int64(len(body))
							req.Header.Set("Content-Length", fmt.Sprint(len(body)))
						}
						var panicked any
						ok, _ := watchdog(20*time.Second, func() {
							defer func() { panicked = recover() }()
							hs[kind].ServeHTTP(rw, req)
						})
						run.Eval(fmt.Sprintf("declared-exact|%d|%s|%s|%s|%v", N, rel, protocol, kind, declare))
						run.Count("limit.declared_exact", 1)
						detail := map[string]any{"read_limit": N, "message_bytes": len(raw), "body_bytes": len(body), "content_length_declared": declare, "protocol": protocol, "kind": kind.String()}
						if !ok || panicked != nil {
							run.Violation(key+"/crash", fmt.Sprintf("ServeHTTP hung or panicked: %v", panicked), detail)
							continue
						}
						res := rw.Finish()
						d := refcodec.DecodeResponse(protocol, stream, res.Status, res.Header, res.Body, res.Trailer, svc.RefAlgos())
						detail["status"], detail["error"] = res.Status, d.Err
						got := len(call.Log.Received)
						if rel == "within" && (got != 1 || d.Err != nil) {
							run.Violation(key+"/rejected", fmt.Sprintf("a %d-byte message (compressed to a %d-byte body) was not accepted under a read limit of %d", len(raw), len(body), N), detail)
						}
						if rel == "over" && (got != 0 || d.Err == nil || (d.Err.Code != uint32(connect.CodeResourceExhausted) && d.Err.Code != uint32(connect.CodeInvalidArgument))) {
							run.Violation(key+"/accepted", fmt.Sprintf("a %d-byte message was not rejected (invalid_argument or resource_exhausted) under a read limit of %d", len(raw), N), detail)
						}
					}
				}
			}
		}
	}
}

// c09SharedCompressionOption: one WithCompression option value (and with it one
// pool of compressors and decompressors) configures several handlers, each with
// its own read limit - a service with a small limit next to an upload service
// with a large one. Calls alternate between them on one P (every Get sees what
// the previous call Put): each handler enforces its own N, whatever the pooled
// objects did for the other handler before.
func c09SharedCompressionOption(run *ev.Run) {
	old := runtime.GOMAXPROCS(1)
	defer runtime.GOMAXPROCS(old)
	mkOpt := func() connect.HandlerOption {
		return connect.WithCompression("gzip",
			func() connect.Decompressor { return &gzip.Reader{} },
			func() connect.Compressor { return gzip.NewWriter(io.Discard) })
	}
	call := func(hs map[svc.Kind]*connect.Handler, reg *svc.Registry, protocol string, kind svc.Kind, raw []byte) (received int, derr *refcodec.WireError, alloc uint64, crashed any) {
		gz := refcodec.GzipCompress(raw)
		stream := !(protocol == "connect" && kind == svc.Unary)
		hdr := http.Header{"Content-Type": {contentType(protocol, "proto", kind)}}
		body := gz
		switch {
		case !stream:
			hdr.Set("Content-Encoding", "gzip")
		case protocol == "connect":
			hdr.Set("Connect-Content-Encoding", "gzip")
			body = refcodec.AppendFrame(nil, 1, gz)
		default:
			hdr.Set("Grpc-Encoding", "gzip")
			hdr.Set("Te", "trailers")
			body = refcodec.AppendFrame(nil, 1, gz)
		}
		c := reg.New("sco", drainProgram())
		defer reg.Drop(c)
		hdr.Set(wire.CallHeader, c.ID)
		rw := wire.NewRecorder()
		req := wire.ServerRequest(context.Background(), "POST", kind.Path(), hdr, &wire.ScriptedBody{Data: body}, 2)
		func() {
			defer func() { crashed = recover() }()
			alloc = measureAlloc(func() { hs[kind].ServeHTTP(rw, req) })
		}()
		if crashed != nil {
			return 0, nil, alloc, crashed
		}
		res := rw.Finish()
		d := refcodec.DecodeResponse(protocol, stream, res.Status, res.Header, res.Body, res.Trailer, svc.RefAlgos())
		return len(c.Log.Received), d.Err, alloc, nil
	}
	enc := func(size int) []byte {
		b, _ := proto.Marshal(gen.New(uint64(7000+size), size, true))
		return b
	}
	for _, protocol := range svc.Protocols {
		for _, kind := range []svc.Kind{svc.Unary, svc.ClientStream} {
			key := fmt.Sprintf("c09/shared-compression-option/%s/%s", protocol, kind)
			if !run.Want(key) {
				continue
			}
			opt := mkOpt()
			regS, regB, regH := svc.NewRegistry(), svc.NewRegistry(), svc.NewRegistry()
			const small, big, huge = 64, 4096, 256 << 20
			hsS := svc.Handlers(regS, opt, connect.WithReadMaxBytes(small), connect.WithCompressMinBytes(1<<30))
			hsB := svc.Handlers(regB, opt, connect.WithReadMaxBytes(big), connect.WithCompressMinBytes(1<<30))
			hsH := svc.Handlers(regH, opt, connect.WithReadMaxBytes(huge), connect.WithCompressMinBytes(1<<30))
			detail := map[string]any{"protocol": protocol, "kind": kind.String(), "limits": []int{small, big, huge}}
			bad := func(suffix, what string) {
				run.Violation(key+"/"+suffix, what, detail)
			}
			for round := 0; round < 3; round++ {
				run.Eval(fmt.Sprintf("shared-compression-option|%s|%s|round=%d", protocol, kind, round))
				run.Count("limit.shared_option_rounds", 1)
				// small-limit handler first ...
				for i := 0; i < 3; i++ {
					if n, e, _, cr := call(hsS, regS, protocol, kind, enc(20)); cr != nil || n != 1 || e != nil {
						bad("small-within", fmt.Sprintf("a message within the small handler's limit (%d) was not accepted: received %d, error %v, panic %v", small, n, e, cr))
					}
				}
				// ... then an ordinary message within the big handler's limit
				if n, e, _, cr := call(hsB, regB, protocol, kind, enc(1000)); cr != nil || n != 1 || e != nil {
					bad("big-within", fmt.Sprintf("after calls on a sibling handler with limit %d (same WithCompression value), a message of about 1000 bytes was not accepted by the handler with limit %d: received %d, error %v, panic %v", small, big, n, e, cr))
				}
				if n, e, _, cr := call(hsB, regB, protocol, kind, enc(big+500)); cr != nil || n != 0 || e == nil {
					bad("big-over", fmt.Sprintf("a message above the big handler's limit (%d) was not rejected: received %d, error %v, panic %v", big, n, e, cr))
				}
				// ... and back: above the small limit, within the big one
				if n, e, _, cr := call(hsS, regS, protocol, kind, enc(1000)); cr != nil || n != 0 || e == nil {
					bad("small-over", fmt.Sprintf("after calls on a sibling handler with limit %d, a message of about 1000 bytes was not rejected by the handler with limit %d: received %d, error %v, panic %v", big, small, n, e, cr))
				}
				// a handler with a very large limit, then a bomb for the one with 4 KiB
				if n, e, _, cr := call(hsH, regH, protocol, kind, enc(100)); cr != nil || n != 1 || e != nil {
					bad("huge-within", fmt.Sprintf("small message not accepted by the handler with limit %d: received %d, error %v, panic %v", huge, n, e, cr))
				}
				n, e, alloc, cr := call(hsB, regB, protocol, kind, make([]byte, 32<<20))
				detail["bomb_allocated"] = alloc
				if cr != nil || n != 0 || e == nil {
					bad("bomb-accepted", fmt.Sprintf("a 32 MiB message (well compressed) was not rejected under a limit of %d: received %d, error %v, panic %v", big, n, e, cr))
				} else if alloc > 16*big+3<<20 {
					bad("bomb-allocation", fmt.Sprintf("rejecting a 32 MiB bomb under a limit of %d allocated %d bytes after a sibling handler with limit %d had used the shared pool", big, alloc, huge))
				}
			}
		}
	}
}
