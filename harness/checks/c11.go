package checks

import (
	"bytes"
	"context"
	"errors"
	"fmt"
	"net/http"
	"strings"
	"time"

	connect "github.com/bufbuild/connect-go"
	"verif.local/harness/ev"
	"verif.local/harness/gen"
	"verif.local/harness/refcodec"
	"verif.local/harness/svc"
)

func init() { register("C11", "exploration", c11) }

func sameList(a, b []string) bool {
	if len(a) != len(b) {
		return false
	}
	for i := range a {
		if a[i] != b[i] {
			return false
		}
	}
	return true
}

func c11(run *ev.Run) int {
	run.SetRule("cases = random multimaps (1..10 X-... keys plus up to 2 ordinary names with varied first letters such as Trace-Id, Tenant, Trailer-Extra, T, 1..4 printable-ASCII values, -Bin keys with base64 of random bytes, some keys shared between headers, trailers and error metadata) as request headers, response headers, response trailers and error metadata x 3 protocols x 4 kinds x {success with >=1 message, success with 0 messages, error before first message, error after messages (one in four inside a multi-error), unary/client-stream response whose message cannot be marshalled, bidi reply rejected by the client's own read limit} x HTTP/1.1 and HTTP/2 over real sockets; plus binary-header helper round trips over all byte strings up to length 2 (3 thorough) in padded and unpadded form; distinct by (config, scenario, key-overlap class); also: trailing metadata in peer-compressed terminators (0x03 / 0x81, gzip and a custom algorithm); history: lower-case keys written straight into the maps of the shared handlers")
	run.Assume("names starting with \"Trailer-\" are used for trailers only: the unary Connect protocol defines every response header with that prefix to be a trailer, so a header of that name cannot be told apart from one by design")
	run.Assume("header names are valid and outside protocol-reserved prefixes; values are printable ASCII without leading/trailing blanks")
	srv := svc.NewServer()
	defer srv.Close()
	type cfgT struct {
		http2 bool
		proto string
		codec string
		kind  svc.Kind
	}
	var cfgs []cfgT
	for _, h2 := range []bool{false, true} {
		for _, p := range svc.Protocols {
			for _, c := range svc.Codecs {
				for _, k := range svc.Kinds {
					if k == svc.Bidi && !h2 {
						continue
					}
					cfgs = append(cfgs, cfgT{h2, p, c, k})
				}
			}
		}
	}
	scenarios := []string{"ok", "ok-zero", "err-early", "err-late", "send-fails", "local-reject"}
	per := run.Pick(12, 2000)
	parallel(16, len(cfgs), func(ci int) {
		c := cfgs[ci]
		cfg := fmt.Sprintf("h2=%v/%s/%s/%s", c.http2, c.proto, c.codec, c.kind)
		cs := srv.Clients(c.http2, svc.ProtoOpts(c.proto, c.codec)...)
		for _, sc := range scenarios {
			if (c.kind == svc.Unary || c.kind == svc.ClientStream) && (sc == "ok-zero" || sc == "err-late") {
				continue
			}
			if sc == "send-fails" && c.kind != svc.Unary && c.kind != svc.ClientStream {
				continue // streams have the failed-first-send variant of the other scenarios
			}
			if sc == "local-reject" && c.kind != svc.Bidi {
				continue
			}
			for i := 0; i < per; i++ {
				key := fmt.Sprintf("c11/%s/%s/i=%d", cfg, sc, i)
				if !run.Want(key) {
					continue
				}
				csx := cs
				if sc == "local-reject" {
					// the client refuses the second reply itself (read limit): the
					// stream ends with an error made by the client, and what it
					// has read of the trailers must stay as it is afterwards
					csx = srv.Clients(c.http2, append(svc.ProtoOpts(c.proto, c.codec), connect.WithReadMaxBytes(120))...)
				}
				c11Case(run, srv, csx, c.kind, c.proto, c.http2, cfg, sc, key)
			}
		}
	})
	serverPanicCheck(run, srv, "c11")
	c11Binary(run)
	if !run.Replaying() || strings.Contains(run.ReplayKey(), "/peer-terminator/") {
		// trailing metadata (and error metadata) that a peer put into a
		// compressed last envelope (the family C08 uses for the algorithms)
		c08PeerTerminators(run, "c11")
	}
	return run.Finish("request.keys.compared", "response.header.keys.compared", "response.trailer.keys.compared", "error.meta.keys.compared", "binary.roundtrips")
}

func c11Case(run *ev.Run, srv *svc.Server, cs *svc.ClientSet, kind svc.Kind, protocol string, http2 bool, cfg, sc, key string) {
	r := run.Rand(key)
	small := protocol == "grpc" && !http2 // net/http's HTTP/1.1 trailer size limit
	nk := func() int {
		if small {
			return 1 + r.Intn(3)
		}
		return 1 + r.Intn(10)
	}
	reqH, _ := gen.Meta(r, "Q", nk(), refcodec.B64Encode)
	respH, _ := gen.Meta(r, "H", nk(), refcodec.B64Encode)
	respT, _ := gen.Meta(r, "T", nk(), refcodec.B64Encode)
	errM, _ := gen.Meta(r, "E", nk(), refcodec.B64Encode)
	// ordinary-looking names with varied first letters next to the X-... ones
	// (prefix handling such as Connect's "Trailer-" must strip exactly the
	// prefix, whatever the name behind it starts with)
	natural := []string{"Trace-Id", "Tenant", "Trailer-Extra", "Timing-Bin", "Region", "Audit-Ref", "Idem-Key", "Locale-X", "Entity-Ref", "Rail", "Tr", "T", "Trailer-Trailer-X", "Retry-Hint-Bin"}
	for hi, h := range []http.Header{reqH, respH, respT, errM} {
		for n := r.Intn(3); n > 0; n-- {
			k := natural[r.Intn(len(natural))]
			if hi != 2 && strings.HasPrefix(k, "Trailer-") {
				// only as a trailer: unary Connect carries trailers as headers
				// prefixed "Trailer-", so a header (or error metadata) with such a
				// name is a trailer by the protocol's own definition
				continue
			}
			v := fmt.Sprintf("nat-%d", r.Intn(1000))
			if strings.HasSuffix(k, "-Bin") {
				v = refcodec.B64Encode([]byte(v))
			}
			h[k] = []string{v}
		}
	}
	overlap := "disjoint"
	switch r.Intn(4) {
	case 0: // a key present in headers and trailers
		respH["X-Shared"] = []string{"from-header-1", "from-header-2"}
		respT["X-Shared"] = []string{"from-trailer"}
		overlap = "header+trailer"
	case 1: // and in the error metadata too
		respH["X-Shared"] = []string{"from-header"}
		respT["X-Shared"] = []string{"from-trailer-1", "from-trailer-2"}
		errM["X-Shared"] = []string{"from-error"}
		overlap = "header+trailer+error"
	case 2:
		respT["X-Shared"] = []string{"from-trailer"}
		errM["X-Shared"] = []string{"from-error-1", "from-error-2"}
		overlap = "trailer+error"
	}
	prog := &svc.Program{Header: respH, Trailer: respT}
	if r.Intn(3) == 0 {
		// the handler writes one trailer and one header straight into the maps
		// under a lower-case spelling (http.Header is a map; not everybody goes
		// through Set/Add). The same two names are used by every such call on
		// these shared handlers, each with its own value.
		tv, hv := fmt.Sprintf("cost-%d", r.Intn(1_000_000)), fmt.Sprintf("lane-%d", r.Intn(1_000_000))
		respT["X-Lower-Cost"] = []string{tv}
		respH["X-Lower-Lane"] = []string{hv}
		pt, ph := respT.Clone(), respH.Clone()
		delete(pt, "X-Lower-Cost")
		delete(ph, "X-Lower-Lane")
		pt["x-lower-cost"] = []string{tv}
		ph["x-lower-lane"] = []string{hv}
		prog = &svc.Program{Header: ph, Trailer: pt}
		overlap += "+lower-case-map-keys"
	}
	var replies []*gen.Msg
	switch kind {
	case svc.Unary, svc.ServerStream:
		prog.Steps = []svc.Step{{Op: "recv"}}
	default:
		prog.Steps = []svc.Step{{Op: "recvall"}}
	}
	nmsg := 0
	switch sc {
	case "ok":
		nmsg = 1 + r.Intn(2)
		if kind == svc.Unary || kind == svc.ClientStream {
			nmsg = 1
		}
	case "err-late":
		nmsg = 1 + r.Intn(2)
	}
	badFirst := (kind == svc.ServerStream || kind == svc.Bidi) && r.Intn(5) == 0
	if badFirst {
		// a first Send that fails in the codec must not cost the metadata
		prog.Steps = append(prog.Steps, svc.Step{Op: "send", Msg: &gen.Msg{Id: 1, Note: "\xff\xfe"}})
		overlap += "+failed-first-send"
	}
	for i := 0; i < nmsg; i++ {
		m := &gen.Msg{Id: uint64(50 + i)}
		replies = append(replies, m)
		prog.Steps = append(prog.Steps, svc.Step{Op: "send", Msg: m})
	}
	if sc == "local-reject" {
		prog.Steps = append(prog.Steps, svc.Step{Op: "send", Msg: &gen.Msg{Id: 50}}, svc.Step{Op: "send", Msg: gen.New(51, 400, true)})
	}
	failing := sc == "err-early" || sc == "err-late"
	if failing {
		ce := connect.NewError(connect.CodeFailedPrecondition, errors.New("c11"))
		for k, vs := range errM {
			for _, v := range vs {
				ce.Meta().Add(k, v)
			}
		}
		prog.Return = ce
		if r.Intn(4) == 0 {
			// the coded error inside a multi-error
			prog.Return = errors.Join(errors.New("another failure"), ce)
			overlap += "+joined-error"
		}
	}
	sendFails := sc == "send-fails"
	if sendFails {
		// the handler returns a response (with its headers and trailers) whose
		// message the codec cannot marshal: the call fails, and what the handler
		// attached must still be visible, once, in the error's metadata
		prog.Steps = append(prog.Steps, svc.Step{Op: "send", Msg: &gen.Msg{Id: 1, Note: "\xff\xfe"}})
		errM = http.Header{}
	}
	call := srv.Reg.New("c11", prog)
	defer srv.Reg.Drop(call)
	defer cs.Tap.Forget(call.ID)
	var cl *svc.CLog
	ok, dump := watchdog(60*time.Second, func() { cl = cs.Do(context.Background(), kind, call.ID, reqH, []*gen.Msg{{Id: 1}}) })
	run.Eval(cfg + "|" + sc + "|" + overlap)
	if !ok {
		run.Violation(key+"/hang", "call did not return", trunc(dump, 20000))
		return
	}
	hl := call.Log
	detail := map[string]any{"config": cfg, "scenario": sc, "overlap": overlap, "request_headers": reqH, "response_headers": respH, "response_trailers": respT, "error_meta": errM,
		"client_err": errStr(cl.Err), "client_header": cl.Header, "client_trailer": cl.Trailer}
	// request headers at the handler
	for k, want := range reqH {
		run.Count("request.keys.compared", 1)
		if got := hl.ReqHeader.Values(k); !sameList(got, want) {
			detail["key"], detail["got"] = k, got
			run.Violation(key+"/request-header", fmt.Sprintf("handler sees %q = %q, client attached %q", k, got, want), detail)
			return
		}
	}
	if kind == svc.Bidi && cl.TrailerPost != nil {
		// values unchanged: reading the trailers again after further Receive
		// calls past the end of the stream must show the same lists
		run.Count("trailers.reread.compared", 1)
		for k, before := range cl.Trailer {
			if after := cl.TrailerPost.Values(k); !sameList(after, before) {
				detail["key"], detail["first_read"], detail["after_more_receives"] = k, before, after
				run.Violation(key+"/trailers-changed", fmt.Sprintf("response trailer %q read %q at the end of the stream and %q after three more Receive calls", k, before, after), detail)
				return
			}
		}
	}
	if sc == "local-reject" {
		run.Count("local_reject.checked", 1)
		if cl.Err == nil {
			run.Violation(key+"/not-rejected", "the client's read limit did not reject the over-limit reply", detail)
		}
		return
	}
	if failing || sendFails {
		var ce *connect.Error
		if !errors.As(cl.Err, &ce) {
			run.Violation(key+"/not-failed", "failing call did not return a *connect.Error: "+errStr(cl.Err), detail)
			return
		}
		detail["error_meta_seen"] = ce.Meta()
		srcs := []http.Header{respH, respT, errM}
		if (kind == svc.Unary || kind == svc.ClientStream) && !sendFails {
			// these handler APIs attach headers/trailers to the Response value,
			// which does not exist when the handler returns an error
			srcs = []http.Header{errM}
		}
		occurs := map[string]int{}
		for _, src := range srcs {
			for k := range src {
				occurs[k]++
			}
		}
		for _, src := range srcs {
			for k, want := range src {
				run.Count("error.meta.keys.compared", 1)
				got := ce.Meta().Values(k)
				okv := subseq(got, want)
				if occurs[k] == 1 {
					// a key that only one carrier used: the list is exactly the
					// handler's (values unchanged - nothing lost, nothing repeated)
					okv = sameList(got, want)
				}
				if !okv {
					detail["key"], detail["got"] = k, got
					run.Violation(key+"/error-meta", fmt.Sprintf("on failure the error's metadata has %q = %q, the handler set %q", k, got, want), detail)
					return
				}
			}
		}
		return
	}
	if cl.Err != nil {
		run.Violation(key+"/failed", "fault-free call failed: "+errStr(cl.Err), detail)
		return
	}
	if len(cl.Msgs) >= 1 {
		for k, want := range respH {
			run.Count("response.header.keys.compared", 1)
			if got := cl.Header.Values(k); !sameList(got, want) {
				detail["key"], detail["got"] = k, got
				run.Violation(key+"/response-header", fmt.Sprintf("client sees header %q = %q, handler set %q", k, got, want), detail)
				return
			}
		}
		for k, want := range respT {
			run.Count("response.trailer.keys.compared", 1)
			if got := cl.Trailer.Values(k); !sameList(got, want) {
				detail["key"], detail["got"] = k, got
				run.Violation(key+"/response-trailer", fmt.Sprintf("client sees trailer %q = %q, handler set %q", k, got, want), detail)
				return
			}
		}
	} else {
		// no message: headers and trailers may travel together
		for _, src := range []http.Header{respH, respT} {
			for k, want := range src {
				run.Count("response.trailer.keys.compared", 1)
				got := append(append([]string{}, cl.Header.Values(k)...), cl.Trailer.Values(k)...)
				if !subseq(got, want) {
					detail["key"], detail["got"] = k, got
					run.Violation(key+"/response-metadata", fmt.Sprintf("client sees %q = %q in headers+trailers, handler set %q", k, got, want), detail)
					return
				}
			}
		}
	}
	run.Sample(map[string]any{"config": cfg, "scenario": sc, "overlap": overlap, "request_keys": len(reqH), "header_keys": len(respH), "trailer_keys": len(respT)})
}

func c11Binary(run *ev.Run) {
	maxLen := run.Pick(2, 3)
	check := func(b []byte) {
		run.Count("binary.roundtrips", 1)
		enc := connect.EncodeBinaryHeader(b)
		for _, form := range []string{enc, refcodec.B64Encode(b), refcodec.B64EncodePadded(b)} {
			got, err := connect.DecodeBinaryHeader(form)
			if err != nil || !bytes.Equal(got, b) {
				run.Violation("c11/binary-header", fmt.Sprintf("DecodeBinaryHeader(%q) = %x, %v; want %x", form, got, err, b), map[string]any{"bytes_hex": fmt.Sprintf("%x", b), "form": form})
				return
			}
		}
		if dec, err := refcodec.B64Decode(enc); err != nil || !bytes.Equal(dec, b) {
			run.Violation("c11/binary-header-encode", fmt.Sprintf("EncodeBinaryHeader(%x) = %q is not decodable base64 of the input", b, enc), nil)
		}
	}
	check(nil)
	var rec func(prefix []byte)
	rec = func(prefix []byte) {
		if len(prefix) > 0 {
			check(prefix)
		}
		if len(prefix) == maxLen {
			return
		}
		for c := 0; c < 256; c++ {
			rec(append(append([]byte{}, prefix...), byte(c)))
		}
	}
	if run.Want("c11/binary-header") {
		rec(nil)
		r := run.Rand("c11-bin")
		for i := 0; i < 20000; i++ {
			b := make([]byte, r.Intn(200))
			r.Read(b)
			check(b)
		}
		run.Eval("binary|exhaustive-short")
		run.Eval("binary|random-long")
	}
}
