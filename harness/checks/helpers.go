package checks

import (
	"errors"
	"fmt"
	"runtime"
	"strings"
	"sync"
	"sync/atomic"
	"time"

	connect "github.com/bufbuild/connect-go"
	"verif.local/harness/ev"
	"verif.local/harness/svc"
)

// parallel runs fn over n items on up to workers goroutines.
func parallel(workers, n int, fn func(i int)) {
	if workers <= 0 {
		workers = runtime.GOMAXPROCS(0)
	}
	var wg sync.WaitGroup
	ch := make(chan int)
	for w := 0; w < workers; w++ {
		wg.Add(1)
		go func() {
			defer wg.Done()
			for i := range ch {
				fn(i)
			}
		}()
	}
	for i := 0; i < n; i++ {
		ch <- i
	}
	close(ch)
	wg.Wait()
}

// codeOf returns the connect code of err (0 if err is nil or not a
// *connect.Error).
func codeOf(err error) (connect.Code, bool) {
	var ce *connect.Error
	if err == nil || !errors.As(err, &ce) {
		return 0, false
	}
	return ce.Code(), true
}

func errStr(err error) string {
	if err == nil {
		return "<nil>"
	}
	return err.Error()
}

// watchdog runs f and returns false (with a goroutine dump) if it does not
// return within d.
//
// A watchdog that fires is a suspicion, not yet a verdict: a hang lasts, a slow
// machine does not. The first few times the operation gets a grace period
// (confirmGrace); if it returns in it the run records an inconclusive "slow"
// note and the operation counts as returned. Once hangs have been confirmed the
// grace period is skipped (the run is failing anyway and should not pay a
// minute per further hang).
func watchdog(d time.Duration, f func()) (ok bool, dump string) {
	done := make(chan struct{})
	go func() {
		defer close(done)
		f()
	}()
	select {
	case <-done:
		return true, ""
	case <-time.After(d):
	}
	buf := make([]byte, 1<<20)
	n := runtime.Stack(buf, true)
	if confirmHang(done) {
		return false, string(buf[:n])
	}
	return true, ""
}

const confirmGrace = 60 * time.Second

var confirmedHangs int32

// confirmHang waits for the grace period (unless hangs were already confirmed
// in this run) and reports whether the operation is still not done.
func confirmHang(done <-chan struct{}) bool {
	if atomic.LoadInt32(&confirmedHangs) < 3 {
		select {
		case <-done:
			if currentRun != nil {
				currentRun.Inconclusive("an operation outlived its watchdog but returned within the grace period (machine too slow to decide; not judged)")
			}
			return false
		case <-time.After(confirmGrace):
		}
	} else {
		select {
		case <-done:
			return false
		default:
		}
	}
	if atomic.AddInt32(&confirmedHangs, 1) >= 8 && currentRun != nil {
		currentRun.ForceSaturation()
	}
	return true
}

// watchdogProgress is watchdog for long operations made of many steps: when d
// has passed it looks at a progress counter instead of giving up. As long as
// the counter moved during the last window the operation is slow, not hung, and
// gets another window (at most extra of them; still running after that is
// reported as slow = inconclusive). A window without any progress is a hang.
func watchdogProgress(d time.Duration, extra int, progress func() int64, f func()) (ok, slow bool, dump string) {
	done := make(chan struct{})
	go func() {
		defer close(done)
		f()
	}()
	last := progress()
	for w := 0; ; w++ {
		select {
		case <-done:
			return true, false, ""
		case <-time.After(d):
		}
		now := progress()
		if now == last || w >= extra {
			buf := make([]byte, 1<<20)
			n := runtime.Stack(buf, true)
			return false, now != last, string(buf[:n])
		}
		last = now
	}
}

// libraryGoroutines returns the stacks of goroutines that have a connect-go
// (non-test-harness) frame.
func libraryGoroutines() []string {
	buf := make([]byte, 4<<20)
	n := runtime.Stack(buf, true)
	var out []string
	for _, g := range strings.Split(string(buf[:n]), "\n\n") {
		if strings.Contains(g, "github.com/bufbuild/connect-go.") || strings.Contains(g, "github.com/bufbuild/connect-go/") {
			out = append(out, g)
		}
	}
	return out
}

// serverPanicCheck reports handler panics recovered by net/http as violations.
func serverPanicCheck(run *ev.Run, s *svc.Server, where string) {
	n, lines := s.ServerPanics()
	if n > 0 {
		run.Violation(where+"/server-panic", fmt.Sprintf("%d handler panics recovered by net/http", n), lines)
	}
}

func trunc(s string, n int) string {
	if len(s) > n {
		return s[:n] + "..."
	}
	return s
}

// waitHandler waits for the handler of a call to finish. A handler that was
// never invoked (the request was rejected before user code ran, or never sent)
// has nothing to finish: that is reported after a short grace period instead
// of waiting out the full timeout.
func waitHandler(call *svc.Call, max time.Duration) (finished, invoked bool) {
	start := time.Now()
	for {
		select {
		case <-call.Log.Finished:
			return true, true
		case <-time.After(25 * time.Millisecond):
		}
		inv := atomic.LoadInt32(&call.Log.Invocations) > 0
		if !inv && time.Since(start) > 500*time.Millisecond {
			return false, false
		}
		if time.Since(start) > max {
			return false, inv
		}
	}
}
