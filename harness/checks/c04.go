package checks

import (
	"context"
	"errors"
	"fmt"
	"io"
	"math"
	"net/http"
	"net/url"
	"strings"
	"time"

	connect "github.com/bufbuild/connect-go"
	"verif.local/harness/ev"
	"verif.local/harness/gen"
	"verif.local/harness/refcodec"
	"verif.local/harness/svc"
	"verif.local/harness/wire"
)

func init() { register("C04", "fault_enumeration", c04) }

var errTransport = errors.New("verif: injected transport failure")

type c04Ending struct {
	name string
	err  error
}

var c04Endings = []c04Ending{{"eof", nil}, {"unexpected-eof", io.ErrUnexpectedEOF}, {"transport-error", errTransport},
	// what net/http reports when the peer resets an HTTP/2 stream
	{"rst-no-error", errors.New("stream error: stream ID 5; NO_ERROR; received from peer")},
	{"rst-cancel", errors.New("stream error: stream ID 5; CANCEL; received from peer")},
	// what a body read reports once the call's context has ended (tried at
	// frame boundaries, at the full length and at every fourth offset)
	{"ctx-canceled", context.Canceled},
	{"ctx-deadline", context.DeadlineExceeded}}

func c04Thin(e c04Ending, k, n int, bounds map[int]int) bool {
	if !strings.HasPrefix(e.name, "ctx-") {
		return false
	}
	_, atB := bounds[k]
	return !(atB || k == n || k%4 == 0)
}

// frameBoundaries returns the set of offsets at which an enveloped body has
// delivered a whole number of frames.
func frameBoundaries(body []byte) map[int]int {
	out := map[int]int{0: 0}
	frames, _ := refcodec.ParseFrames(body)
	off := 0
	for i, f := range frames {
		off += 5 + len(f.Payload)
		out[off] = i + 1
	}
	return out
}

func isPrefix(got, of []*gen.Msg) (bool, string) {
	if len(got) > len(of) {
		return false, fmt.Sprintf("%d delivered, only %d sent", len(got), len(of))
	}
	return gen.SameSeq(got, of[:len(got)])
}

func c04(run *ev.Run) int {
	run.SetRule("faults = every cut offset k in [0,len(body)] of every recorded valid response and request body (3 protocols x codecs x 4 kinds x {0,1,3} messages x {ok,error} x gzip on/off) x ending {clean EOF, unexpected EOF, transport error} x HTTP trailers {present, absent} x receiver read limit {none, 1 MiB, MaxInt}; plus failure of the j-th ResponseWriter.Write for every j, and a client transport whose Do fails after j request-body reads with {an opaque error, an error wrapping io.EOF, one wrapping io.ErrUnexpectedEOF}; also endings context.Canceled / context.DeadlineExceeded (frame boundaries, full length, every fourth offset); history: an ordinary unary call after a failed and closed streaming call through a transport with one connection per host; oracle: success only when the terminator arrived, otherwise coded error, delivered is a prefix of sent, no hang/panic; distinct by (body, fault class: position relative to frame boundary, ending, trailers); gRPC responses whose status trailers were announced (keys with nil values in Response.Trailer) but never arrived, at every frame boundary")
	run.Assume("clean-EOF truncation of a unary Connect 200 body is observationally indistinguishable and excluded")
	spec := corpusSpec{protos: svc.Protocols, codecs: []string{"proto"}, kinds: svc.Kinds, gzips: []bool{false, true},
		counts: []int{0, 1, 3}, scenarios: []string{"ok", "err"}}
	if !run.Quick() {
		spec.codecs = svc.Codecs
	}
	all := buildCorpus(spec)
	// a few JSON bodies in quick as well
	if run.Quick() {
		all = append(all, buildCorpus(corpusSpec{protos: svc.Protocols, codecs: []string{"json"}, kinds: []svc.Kind{svc.ServerStream, svc.ClientStream}, gzips: []bool{false},
			counts: []int{1}, scenarios: []string{"ok"}})...)
	}
	parallel(16, len(all), func(i int) {
		rec := all[i]
		key := "c04/" + rec.Name
		if !run.Want(key) {
			return
		}
		c04Response(run, rec, key)
		c04Request(run, rec, key)
		c04WriteFaults(run, rec, key)
		c04ClientTransport(run, rec, key)
	})
	if !run.Replaying() || strings.Contains(run.ReplayKey(), "/after-failed-call/") {
		c04AfterFailedCall(run)
	}
	run.Set("bodies", len(all))
	return run.Finish("faults.response", "faults.request", "faults.write", "faults.client_transport", "terminated.checked", "unterminated.checked")
}

func c04Response(run *ev.Run, rec *recorded, key string) {
	body := rec.Ex.Result.Body
	res := rec.Ex.Result
	base, _ := rec.replayResponse(&wire.ScriptedBody{Data: body}, true)
	baseStr := clientOutcome(base, false)
	bounds := frameBoundaries(body)
	streamingBody := !(rec.Proto == "connect" && rec.Kind == svc.Unary)
	inHeaders := res.Header.Get("Grpc-Status") != "" // trailers-only
	hasHTTPTrailers := len(res.Trailer) > 0
	trailerModes := []bool{true}
	if hasHTTPTrailers {
		trailerModes = []bool{true, false}
	}
	// For the protocols whose terminator travels in the body, HTTP trailers are
	// not part of the protocol: a proxy may add some (even a Grpc-Status), and
	// they must not stand in for the missing terminator.
	spurious := (rec.Proto == "grpcweb" || (rec.Proto == "connect" && rec.Kind != svc.Unary)) && !inHeaders
	if spurious {
		trailerModes = []bool{true, false}
	}
	for k := 0; k <= len(body); k++ {
		for _, e := range c04Endings {
			if c04Thin(e, k, len(body), bounds) {
				continue
			}
			if _, atB := bounds[k]; rec.Proto == "grpc" && !inHeaders && (atB || k == len(body)) {
				// trailers that were announced (the keys are in Response.Trailer with
				// nil values, net/http's convention) but never arrived: an announced
				// Grpc-Status is not a status
				akey := fmt.Sprintf("%s/resp/k=%d/%s/trailers=announced-never-filled", key, k, e.name)
				res2 := *rec.Ex.Result
				res2.Trailer = nil
				cut := &wire.ScriptedBody{Data: body[:k], FinalErr: e.err}
				cn := &wire.Canned{Respond: func(req *http.Request, _ []byte) (*http.Response, error) {
					resp := wire.ResponseFromResult(req, &res2, cut)
					resp.Trailer = http.Header{"Grpc-Status": nil, "Grpc-Message": nil, "Grpc-Status-Details-Bin": nil}
					return resp, nil
				}}
				var got *svc.CLog
				ok, dump := watchdog(30*time.Second, func() {
					got = svc.NewClientSet(cn, "http://verif.local", rec.COpts...).Do(context.Background(), rec.Kind, "replay", nil, rec.Sends)
				})
				run.Eval(fmt.Sprintf("%s|resp|announced-trailers|%s", rec.Name, e.name))
				run.Count("faults.response", 1)
				run.Count("unterminated.checked", 1)
				if !ok {
					run.Violation(akey+"/hang", "client call did not return within 30 s", trunc(dump, 20000))
					return
				}
				if got.Err == nil {
					run.Violation(akey+"/success-without-terminator", "the call succeeded although the announced gRPC status trailers never arrived", map[string]any{"case": rec.Name, "cut": k, "of": len(body), "ending": e.name, "outcome": clientOutcome(got, true)})
					return
				}
				var ace *connect.Error
				if !errors.As(got.Err, &ace) || ace.Code() == 0 {
					run.Violation(akey+"/uncoded", "uncoded error: "+got.Err.Error(), map[string]any{"case": rec.Name, "cut": k})
					return
				}
			}
			for _, withTr := range trailerModes {
				ckey := fmt.Sprintf("%s/resp/k=%d/%s/trailers=%v", key, k, e.name, withTr)
				var got *svc.CLog
				ok, dump := watchdog(30*time.Second, func() {
					if spurious {
						if !withTr && (k%3 != 0 && k != len(body)) {
							return // thin out: the spurious-trailer variant at every third offset
						}
						got = c04ReplaySpurious(rec, &wire.ScriptedBody{Data: body[:k], FinalErr: e.err}, !withTr)
						return
					}
					got, _ = rec.replayResponse(&wire.ScriptedBody{Data: body[:k], FinalErr: e.err}, withTr, c04Limit(k)...)
				})
				if ok && got == nil {
					continue
				}
				pos := "mid-frame"
				if _, atB := bounds[k]; atB && streamingBody {
					pos = "frame-boundary"
				}
				if k == len(body) {
					pos = "full"
				}
				run.Eval(fmt.Sprintf("%s|resp|%s|%s|%v", rec.Name, pos, e.name, withTr))
				run.Count("faults.response", 1)
				if !ok {
					run.Violation(ckey+"/hang", "client call did not return within 30 s after the response was cut", trunc(dump, 20000))
					return
				}
				detail := map[string]any{"case": rec.Name, "cut": k, "of": len(body), "ending": e.name, "trailers_present": withTr, "position": pos,
					"outcome": clientOutcome(got, true), "baseline": baseStr, "body_hex": trunc(fmt.Sprintf("%x", body), 400)}
				// every error surfaced by any operation is coded
				for _, oe := range append([]error{got.Err, got.CloseErr}, got.SendErrs...) {
					if oe == nil {
						continue
					}
					var oce *connect.Error
					if !errors.As(oe, &oce) || oce.Code() == 0 {
						detail["uncoded_error"] = oe.Error()
						run.Violation(ckey+"/uncoded-operation-error", "an operation returned an error that is not a coded *connect.Error: "+oe.Error(), detail)
						return
					}
				}
				full := k == len(body)
				var terminated bool
				switch {
				case inHeaders:
					terminated = full && e.err == nil
				case rec.Proto == "grpc":
					terminated = full && e.err == nil && withTr
				case rec.Proto == "connect" && rec.Kind == svc.Unary:
					terminated = full && e.err == nil
				default: // terminator travels in the body
					terminated = full
				}
				if terminated && e.err != nil {
					// The terminator arrived inside the body and the transport
					// failed afterwards: the statement allows both "complete" and
					// "failed with a coded error" here (the library reports the
					// former for streaming receives and the latter where it drains
					// the body before returning).
					run.Count("terminated.then-transport-error", 1)
					if s := clientOutcome(got, false); s == baseStr {
						continue
					}
					terminated = false
				}
				if terminated {
					run.Count("terminated.checked", 1)
					if s := clientOutcome(got, false); s != baseStr {
						run.Violation(ckey+"/terminated-differs", "the complete response no longer yields the baseline outcome", detail)
						return
					}
					continue
				}
				if rec.Proto == "connect" && rec.Kind == svc.Unary && e.err == nil && res.Status == 200 {
					run.Inconclusive("unary-connect-clean-truncation (indistinguishable)")
					continue
				}
				run.Count("unterminated.checked", 1)
				// delivered must be a prefix of what was sent
				if okp, why := isPrefix(got.Msgs, rec.Replies); !okp {
					run.Violation(ckey+"/not-prefix", "messages delivered before the failure are not a prefix of those sent: "+why, detail)
					return
				}
				if got.Err == nil {
					// don't-care: gRPC with OK trailers, clean EOF at a message
					// boundary looks like a shorter valid response for kinds
					// that stream responses.
					if rec.Proto == "grpc" && withTr && e.err == nil && pos == "frame-boundary" && (rec.Kind == svc.ServerStream || rec.Kind == svc.Bidi) && rec.HErr == nil {
						run.Count("grpc.shorter-valid-response", 1)
						continue
					}
					run.Violation(ckey+"/success-without-terminator", "client reported success although the protocol's end-of-stream marker never arrived", detail)
					return
				}
				var ce *connect.Error
				if !errors.As(got.Err, &ce) || ce.Code() == 0 {
					run.Violation(ckey+"/uncoded", "failure is not a *connect.Error with a non-zero code", detail)
					return
				}
				if k == len(body)/2 && e.err != nil {
					run.Sample(map[string]any{"case": rec.Name, "direction": "response", "cut": k, "of": len(body), "ending": e.name, "code": ce.Code().String(), "delivered": len(got.Msgs)})
				}
			}
		}
	}
}

func c04Request(run *ev.Run, rec *recorded, key string) {
	body := rec.Ex.ReqBody
	bounds := frameBoundaries(body)
	enveloped := !(rec.Proto == "connect" && rec.Kind == svc.Unary)
	drains := rec.Kind == svc.ClientStream || rec.Kind == svc.Bidi
	prog := func(k int) *svc.Program {
		if rec.Kind == svc.ClientStream && k%2 == 1 {
			// a client-stream handler that polls Receive a few more times after it
			// has reported the end or an error (a batching loop): the stream keeps
			// reporting its first error ("Err returns the first non-EOF error")
			p := &svc.Program{ReturnFirstRecvErr: true}
			for i := 0; i < len(rec.Sends)+4; i++ {
				p.Steps = append(p.Steps, svc.Step{Op: "recv"})
			}
			p.Steps = append(p.Steps, svc.Step{Op: "sendsum"})
			return p
		}
		if drains {
			return &svc.Program{Steps: []svc.Step{{Op: "recvall"}, {Op: "sendsum"}}, StopOnRecvErr: true}
		}
		return &svc.Program{Steps: []svc.Step{{Op: "recv"}, {Op: "sendsum"}}, StopOnRecvErr: true}
	}
	for k := 0; k <= len(body); k++ {
		for _, e := range c04Endings {
			if c04Thin(e, k, len(body), bounds) {
				continue
			}
			ckey := fmt.Sprintf("%s/req/k=%d/%s", key, k, e.name)
			var hl *svc.HLog
			var res *wire.Result
			ok, dump := watchdog(30*time.Second, func() {
				hl, res = rec.replayRequest(&wire.ScriptedBody{Data: body[:k], FinalErr: e.err}, prog(k), c04HLimit(k)...)
			})
			_, atB := bounds[k]
			pos := "mid-frame"
			if enveloped && atB {
				pos = "frame-boundary"
			}
			if k == len(body) {
				pos = "full"
			}
			run.Eval(fmt.Sprintf("%s|req|%s|%s", rec.Name, pos, e.name))
			run.Count("faults.request", 1)
			if !ok {
				run.Violation(ckey+"/hang", "ServeHTTP did not return within 30 s after the request body was cut", trunc(dump, 20000))
				return
			}
			detail := map[string]any{"case": rec.Name, "cut": k, "of": len(body), "ending": e.name, "position": pos,
				"handler": handlerOutcome(hl, res, true), "body_hex": trunc(fmt.Sprintf("%x", body), 400)}
			if okp, why := isPrefix(hl.Received, rec.Sends); !okp {
				// a unary Connect body cut cleanly is indistinguishable from a
				// shorter message
				if !enveloped && e.err == nil {
					run.Inconclusive("unary-connect-clean-truncation (indistinguishable)")
				} else {
					run.Violation(ckey+"/not-prefix", "handler received messages that are not a prefix of those sent: "+why, detail)
					return
				}
			}
			cleanCutOK := e.err == nil && (pos == "frame-boundary" || pos == "full" || !enveloped)
			if hl.SawEOF && !cleanCutOK {
				run.Violation(ckey+"/clean-end-after-failure", "handler saw a clean end of the request stream although the body failed or stopped mid-message", detail)
				return
			}
			if drains {
				run.Count("request.end.checked", 1)
				if !cleanCutOK {
					var ce *connect.Error
					if hl.RecvErr == nil || !errors.As(hl.RecvErr, &ce) || ce.Code() == 0 {
						run.Violation(ckey+"/uncoded", "handler's Receive did not report a coded error for a failed request body", detail)
						return
					}
				}
			}
		}
	}
}

// c04WriteFaults fails the j-th ResponseWriter.Write for every j.
func c04WriteFaults(run *ev.Run, rec *recorded, key string) {
	if rec.Scenario != "ok" {
		return
	}
	mkProg := func(afterSend func(i int)) *svc.Program {
		p := &svc.Program{}
		if rec.Kind == svc.ClientStream || rec.Kind == svc.Bidi {
			p.Steps = append(p.Steps, svc.Step{Op: "recvall"})
		} else {
			p.Steps = append(p.Steps, svc.Step{Op: "recv"})
		}
		for i, m := range rec.Replies {
			i := i
			p.Steps = append(p.Steps, svc.Step{Op: "send", Msg: m})
			if afterSend != nil {
				p.Steps = append(p.Steps, svc.Step{Op: "fn", Fn: func(context.Context, *svc.Call) { afterSend(i) }})
			}
		}
		return p
	}
	serve := func(prog *svc.Program, rw *wire.Recorder) *svc.HLog {
		reg := svc.NewRegistry()
		var hopts []connect.HandlerOption
		if !rec.Gzip {
			hopts = append(hopts, connect.WithCompressMinBytes(1<<30))
		}
		hs := svc.Handlers(reg, hopts...)
		call := reg.New("wf", prog)
		hdr := rec.Ex.ReqHeader.Clone()
		hdr.Set(wire.CallHeader, call.ID)
		req := wire.ServerRequest(context.Background(), "POST", rec.Kind.Path(), hdr, &wire.ScriptedBody{Data: rec.Ex.ReqBody}, 2)
		hs[rec.Kind].ServeHTTP(rw, req)
		return call.Log
	}
	// baseline: how many writes, and how many after each send
	rw0 := wire.NewRecorder()
	var writesAfter []int
	serve(mkProg(func(i int) { writesAfter = append(writesAfter, rw0.Writes) }), rw0)
	total := rw0.Writes
	streams := rec.Kind == svc.ServerStream || rec.Kind == svc.Bidi
	for j := 1; j <= total; j++ {
		ckey := fmt.Sprintf("%s/write-fault/j=%d", key, j)
		rw := wire.NewRecorder()
		rw.FailWrite = j
		rw.FailErr = errTransport
		var hl *svc.HLog
		ok, dump := watchdog(30*time.Second, func() { hl = serve(mkProg(nil), rw) })
		run.Eval(fmt.Sprintf("%s|write-fault|%d/%d", rec.Name, j, total))
		run.Count("faults.write", 1)
		if !ok {
			run.Violation(ckey+"/hang", "ServeHTTP did not return after a failed write", trunc(dump, 20000))
			return
		}
		detail := map[string]any{"case": rec.Name, "failed_write": j, "writes_total": total, "writes_after_each_send": writesAfter, "send_errs": fmt.Sprint(hl.SendErrs), "sent_ok": hl.Sent}
		for _, se := range hl.SendErrs {
			var ce *connect.Error
			if !errors.As(se, &ce) || ce.Code() == 0 {
				run.Violation(ckey+"/uncoded", "Send failed with an error that is not a coded *connect.Error", detail)
				return
			}
		}
		if streams && len(writesAfter) > 0 && j <= writesAfter[len(writesAfter)-1] {
			run.Count("write_fault.during_send", 1)
			if len(hl.SendErrs) == 0 {
				run.Violation(ckey+"/swallowed", "a ResponseWriter.Write failed during Send but no Send reported an error", detail)
				return
			}
		}
	}
}

// failingTransport reads j chunks of the request body and then fails.
type failingTransport struct {
	reads int
	chunk int
	err   error
}

func (f *failingTransport) Do(req *http.Request) (*http.Response, error) {
	buf := make([]byte, f.chunk)
	for i := 0; i < f.reads; i++ {
		if _, err := req.Body.Read(buf); err != nil {
			break
		}
	}
	_ = req.Body.Close()
	if f.err != nil {
		return nil, f.err
	}
	return nil, errTransport
}

func c04ClientTransport(run *ev.Run, rec *recorded, key string) {
	if rec.Scenario != "ok" {
		return
	}
	maxReads := len(rec.Ex.ReqBody)/7 + 2
	// what net/http reports when the peer closes the connection before
	// answering wraps io.EOF ("Post ...: EOF"); such a failure must not be
	// mistaken for a clean end of the stream
	doErrs := []struct {
		name string
		err  error
	}{
		{"transport-error", errTransport},
		{"eof", &url.Error{Op: "Post", URL: "http://verif.local/x", Err: io.EOF}},
		{"unexpected-eof", &url.Error{Op: "Post", URL: "http://verif.local/x", Err: io.ErrUnexpectedEOF}},
	}
	for jj := 0; jj <= 2*(maxReads+1)*len(doErrs)-1; jj++ {
		limited := jj%2 == 1
		j, de := (jj/2)/len(doErrs), doErrs[(jj/2)%len(doErrs)]
		ckey := fmt.Sprintf("%s/client-transport/j=%d/%s/limit=%v", key, j, de.name, limited)
		ft := &failingTransport{reads: j, chunk: 7, err: de.err}
		opts := rec.COpts
		if limited {
			// a read limit selects different read paths in the library
			opts = append(append([]connect.ClientOption{}, opts...), connect.WithReadMaxBytes(1<<20))
		}
		cs := svc.NewClientSet(ft, "http://verif.local", opts...)
		var cl *svc.CLog
		ok, dump := watchdog(30*time.Second, func() { cl = cs.Do(context.Background(), rec.Kind, "ct", nil, rec.Sends) })
		run.Eval(fmt.Sprintf("%s|client-transport|%d|%s|%v", rec.Name, j, de.name, limited))
		run.Count("faults.client_transport", 1)
		if !ok {
			run.Violation(ckey+"/hang", "client call did not return after the transport failed", trunc(dump, 20000))
			return
		}
		detail := map[string]any{"case": rec.Name, "reads_before_failure": j, "do_error": de.err.Error(), "client_read_limit": limited, "outcome": clientOutcome(cl, true), "send_errs": fmt.Sprint(cl.SendErrs)}
		if cl.Err == nil {
			run.Violation(ckey+"/success", "client reported success although the transport failed", detail)
			return
		}
		var ce *connect.Error
		if !errors.As(cl.Err, &ce) || ce.Code() == 0 {
			run.Violation(ckey+"/uncoded", "transport failure not reported as a coded error", detail)
			return
		}
		for _, se := range cl.SendErrs {
			if !errors.As(se, &ce) || ce.Code() == 0 {
				run.Violation(ckey+"/send-uncoded", "Send failed with an uncoded error", detail)
				return
			}
		}
	}
}

// c04ReplaySpurious replays a response of an in-body-terminator protocol with
// HTTP trailers that claim success added by some intermediary.
func c04ReplaySpurious(rec *recorded, body *wire.ScriptedBody, addTrailers bool) *svc.CLog {
	res := *rec.Ex.Result
	res.Trailer = nil
	if addTrailers {
		res.Trailer = http.Header{"Grpc-Status": {"0"}, "Grpc-Message": {""}}
	}
	cn := &wire.Canned{Respond: func(req *http.Request, _ []byte) (*http.Response, error) {
		return wire.ResponseFromResult(req, &res, body), nil
	}}
	cs := svc.NewClientSet(cn, "http://verif.local", rec.COpts...)
	return cs.Do(context.Background(), rec.Kind, "replay", nil, rec.Sends)
}

// c04Limit / c04HLimit: two cuts in three run with a read limit on the
// receiver - a generous one, or one at the top of the integer range (what
// "effectively unlimited" configurations use) - which selects other read paths.
func c04Limit(k int) []connect.ClientOption {
	switch k % 3 {
	case 1:
		return []connect.ClientOption{connect.WithReadMaxBytes(1 << 20)}
	case 2:
		return []connect.ClientOption{connect.WithReadMaxBytes(math.MaxInt)}
	}
	return nil
}

func c04HLimit(k int) []connect.HandlerOption {
	switch k % 3 {
	case 1:
		return []connect.HandlerOption{connect.WithReadMaxBytes(1 << 20)}
	case 2:
		return []connect.HandlerOption{connect.WithReadMaxBytes(math.MaxInt)}
	}
	return nil
}

// c04AfterFailedCall: "nothing hangs" also holds for the call after the failed
// one. A client whose transport allows one connection per host (HTTP/1.1, real
// sockets) makes a streaming call that fails while the response is still
// arriving - the client's own read limit rejects a message, or the handler ends
// the stream with an error - closes the stream, and then makes an ordinary
// unary call: it must return (and, the server being healthy, succeed).
func c04AfterFailedCall(run *ev.Run) {
	srv := svc.NewServer()
	defer srv.Close()
	for _, protocol := range []string{"connect", "grpcweb", "grpc"} {
		for _, history := range []string{"client-read-limit", "handler-error-after-messages", "unmarshal-error"} {
			for rep := 0; rep < run.Pick(2, 10); rep++ {
				key := fmt.Sprintf("c04/after-failed-call/%s/%s/rep=%d", protocol, history, rep)
				if !run.Want(key) {
					continue
				}
				tr := &http.Transport{MaxConnsPerHost: 1, MaxIdleConnsPerHost: 1}
				hc := &http.Client{Transport: tr}
				opts := svc.ProtoOpts(protocol, "proto")
				if history == "client-read-limit" {
					opts = append(opts, connect.WithReadMaxBytes(200))
				}
				if history == "unmarshal-error" {
					opts = svc.ProtoOpts(protocol, "json")
				}
				cs := svc.NewClientSet(hc, srv.H1.URL, opts...)
				steps := []svc.Step{{Op: "recv"}, {Op: "send", Msg: gen.New(1, 10, true)}}
				switch history {
				case "client-read-limit":
					steps = append(steps, svc.Step{Op: "send", Msg: gen.New(2, 3000, false)})
					for i := 0; i < 40; i++ {
						steps = append(steps, svc.Step{Op: "send", Msg: gen.New(uint64(3+i), 3000, false)})
					}
				case "unmarshal-error":
					// a string field with invalid UTF-8: encodes (the handler's codec is
					// lenient), does not decode on the client
					for i := 0; i < 40; i++ {
						steps = append(steps, svc.Step{Op: "send", Msg: gen.New(uint64(3+i), 3000, false)})
					}
				}
				prog := &svc.Program{Steps: steps}
				if history == "handler-error-after-messages" {
					prog.Return = connect.NewError(connect.CodeResourceExhausted, errors.New("enough"))
				}
				call := srv.Reg.New("c04h", prog)
				var first, second *svc.CLog
				ok1, _ := watchdog(30*time.Second, func() { first = cs.Do(context.Background(), svc.ServerStream, call.ID, nil, []*gen.Msg{{Id: 1}}) })
				srv.Reg.Drop(call)
				if !ok1 {
					run.Violation(key+"/history-hang", "the failing streaming call itself did not return", nil)
					tr.CloseIdleConnections()
					continue
				}
				call2 := srv.Reg.New("c04h2", &svc.Program{Steps: []svc.Step{{Op: "recv"}, {Op: "send", Msg: gen.New(9, 10, true)}}})
				ok2, dump := watchdog(20*time.Second, func() { second = cs.Do(context.Background(), svc.Unary, call2.ID, nil, []*gen.Msg{{Id: 1}}) })
				srv.Reg.Drop(call2)
				run.Eval(fmt.Sprintf("after-failed-call|%s|%s", protocol, history))
				run.Count("faults.after_failed_call", 1)
				detail := map[string]any{"protocol": protocol, "history": history, "first_call_error": errStr(first.Err), "first_call_messages": len(first.Msgs), "transport": "HTTP/1.1, MaxConnsPerHost=1"}
				if !ok2 {
					detail["goroutines"] = trunc(dump, 20000)
					run.Violation(key+"/hang", "an ordinary unary call after a failed (and closed) streaming call on the same client did not return within 20 s", detail)
				} else if second.Err != nil {
					detail["second_call_error"] = errStr(second.Err)
					run.Violation(key+"/failed", "an ordinary unary call after a failed (and closed) streaming call on the same client failed: "+errStr(second.Err), detail)
				}
				tr.CloseIdleConnections()
			}
		}
	}
}
