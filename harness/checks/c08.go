package checks

import (
	"bytes"
	"compress/gzip"
	"context"
	"errors"
	"fmt"
	"io"
	"math"
	"math/rand"
	"net/http"
	"net/http/httptest"
	"os"
	"runtime"
	"runtime/debug"
	"strings"
	"sync"
	"sync/atomic"
	"time"

	connect "github.com/bufbuild/connect-go"
	"google.golang.org/protobuf/proto"
	"verif.local/harness/ev"
	"verif.local/harness/gen"
	"verif.local/harness/refcodec"
	"verif.local/harness/svc"
	"verif.local/harness/wire"
)

func init() { register("C08", "exploration", c08) }

// regList is an ordered list of registrations on one side. "gzip" in the
// list means gzip is registered again at that position (the library always
// registers it first itself).
type regList []string

func (l regList) String() string {
	if len(l) == 0 {
		return "-"
	}
	return strings.Join(l, ">")
}

// effective is the preference order the library must derive: last registered
// first, a name registered twice keeps its last registration.
func (l regList) effective() []string {
	full := append([]string{"gzip"}, l...)
	var out []string
	seen := map[string]bool{}
	for i := len(full) - 1; i >= 0; i-- {
		if !seen[full[i]] {
			seen[full[i]] = true
			out = append(out, full[i])
		}
	}
	return out
}

func permutationsOfSubsets(items []string) [][]string {
	var out [][]string
	var rec func(cur []string, used int)
	rec = func(cur []string, used int) {
		out = append(out, append([]string(nil), cur...))
		for i, it := range items {
			if used&(1<<i) == 0 {
				rec(append(append([]string(nil), cur...), it), used|1<<i)
			}
		}
	}
	rec(nil, 0)
	return out
}

func c08RegLists() []regList {
	var out []regList
	for _, p := range permutationsOfSubsets(svc.AlgoNames) {
		out = append(out, regList(p))
		out = append(out, regList(append(append([]string{}, p...), "gzip")))
		if len(p) >= 2 {
			mid := append(append(append([]string{}, p[:1]...), "gzip"), p[1:]...)
			out = append(out, regList(mid))
		}
	}
	return out
}

func gzipCtors() (func() connect.Decompressor, func() connect.Compressor) {
	return func() connect.Decompressor { return &gzip.Reader{} }, func() connect.Compressor { return gzip.NewWriter(io.Discard) }
}

func (l regList) handlerOpts(stats map[string]*svc.AlgoStats) []connect.HandlerOption {
	var o []connect.HandlerOption
	for _, n := range l {
		if n == "gzip" {
			d, c := gzipCtors()
			o = append(o, connect.WithCompression("gzip", d, c))
			continue
		}
		d, c := svc.Algo(n, stats[n])
		o = append(o, connect.WithCompression(n, d, c))
	}
	return o
}

func (l regList) clientOpts(stats map[string]*svc.AlgoStats) []connect.ClientOption {
	var o []connect.ClientOption
	for _, n := range l {
		if n == "gzip" {
			d, c := gzipCtors()
			o = append(o, connect.WithAcceptCompression("gzip", d, c))
			continue
		}
		d, c := svc.Algo(n, stats[n])
		o = append(o, connect.WithAcceptCompression(n, d, c))
	}
	return o
}

func contains(l []string, s string) bool {
	for _, x := range l {
		if x == s {
			return true
		}
	}
	return false
}

func encHeaders(protocol string, kind svc.Kind) (enc, accept string) {
	switch {
	case protocol == "connect" && kind == svc.Unary:
		return "Content-Encoding", "Accept-Encoding"
	case protocol == "connect":
		return "Connect-Content-Encoding", "Connect-Accept-Encoding"
	}
	return "Grpc-Encoding", "Grpc-Accept-Encoding"
}

func splitList(s string) []string {
	return strings.FieldsFunc(s, func(r rune) bool { return r == ',' || r == ' ' })
}

type c08Handler struct {
	list regList
	min  int
	reg  *svc.Registry
	lb   *wire.Loopback
}

func c08(run *ev.Run) int {
	run.SetRule("negotiation cases = handler registration list x client registration list (all ordered subsets of {zz-rev,Zz-Xor,zz-len}, with gzip re-registered nowhere / last / in the middle) x send-compression in client set + none x client and handler compress-min in {0,1,100,1024} x read limit {none, MaxInt} on either side x message sizes {min-1,min,min+1} x 3 protocols x 2 codecs x 4 kinds (seeded sample; thorough also walks every handler-list x client-list pair); isolation histories = corrupt (bit flip, truncation, bad CRC/ISIZE/magic, trailing garbage) and valid compressed calls on shared pools, sequential with GOMAXPROCS=1 and concurrent with GC off, on the handler side and on the client side; peer terminators = Connect end-of-stream messages (flags 0x03) and gRPC-Web trailer frames (0x81) compressed by a conformant peer with gzip or a custom algorithm; paired history = corrupt calls whose compression header is rejected by Reset itself, then valid calls whose instrumented decompressors wait for each other inside Read (so that they own their pooled objects at the same moment); oracle = negotiation model + lossless + threshold + instrumented (de)compressor discipline + double-release table for pooled compressors/decompressors (hook) + every valid call succeeds with its own payload; distinct by (handler list, client list, send, protocol, kind, size class); a registered compression whose Compressor.Close refuses inputs over 600 bytes, both directions, real sockets: the refused message is never delivered as anything else, the call fails, messages within the cap are unaffected")
	stats := map[string]*svc.AlgoStats{}
	for _, n := range svc.AlgoNames {
		stats[n] = &svc.AlgoStats{}
	}
	// hook H1b: a compressor or decompressor released to its pool twice would
	// later be handed to two calls at once
	connect.VerifSetPoolReport(func(kind string) {
		run.Violation("c08/pool/"+kind, "pool discipline violated: "+kind+" (the same object would later serve two calls at once)", nil)
	})
	defer connect.VerifSetPoolReport(nil)
	lists := c08RegLists()
	run.Set("registration_lists", len(lists))
	mins := []int{0, 1, 100, 1024}
	ncases := run.Pick(24000, 300000)
	var hmu sync.Mutex
	hcache := map[string]*c08Handler{}
	getH := func(l regList, min int) *c08Handler {
		k := fmt.Sprintf("%s|%d", l, min)
		hmu.Lock()
		defer hmu.Unlock()
		if h, ok := hcache[k]; ok {
			return h
		}
		reg := svc.NewRegistry()
		opts := append(l.handlerOpts(stats), connect.WithCompressMinBytes(min))
		if (len(l)+min)%2 == 1 {
			// every other handler set: a read limit at the top of the integer range
			opts = append(opts, connect.WithReadMaxBytes(math.MaxInt))
		}
		hs := svc.Handlers(reg, opts...)
		h := &c08Handler{list: l, min: min, reg: reg, lb: &wire.Loopback{Handler: svc.Mux(hs)}}
		hcache[k] = h
		return h
	}
	workers := 16
	per := ncases / workers
	npairs := len(lists) * len(lists)
	parallel(workers, workers, func(w int) {
		r := run.Rand(fmt.Sprintf("c08/w%d", w))
		for i := 0; i < per; i++ {
			hl := lists[r.Intn(len(lists))]
			cl := lists[r.Intn(len(lists))]
			if idx := i*workers + w; !run.Quick() && idx < npairs {
				hl, cl = lists[idx/len(lists)], lists[idx%len(lists)]
			}
			hmin, cmin := mins[r.Intn(4)], mins[r.Intn(4)]
			protocol := svc.Protocols[r.Intn(3)]
			codec := svc.Codecs[r.Intn(2)]
			kind := svc.Kinds[r.Intn(4)]
			ceff := cl.effective()
			send := ""
			if x := r.Intn(len(ceff) + 1); x < len(ceff) {
				send = ceff[x]
			}
			sizeSel := r.Intn(3)
			key := fmt.Sprintf("c08/neg/h=%s/hmin=%d/c=%s/cmin=%d/send=%s/%s/%s/%s/size=%d", hl, hmin, cl, cmin, send, protocol, codec, kind, sizeSel)
			if !run.Want(key) {
				continue
			}
			c08Negotiate(run, stats, getH(hl, hmin), cl, cmin, send, protocol, codec, kind, sizeSel, key)
		}
	})
	for n, s := range stats {
		run.Count("custom."+n+".compressions", s.Compressions)
		run.Count("custom."+n+".decompressions", s.Decompressions)
		if s.Violations > 0 {
			run.Violation("c08/discipline/"+n, "custom (de)compressor used outside Reset..Close or by two calls at once", s.Notes)
		}
	}
	if !run.Replaying() || strings.Contains(os.Getenv("VERIF_REPLAY_KEY"), "/iso/") {
		c08Isolation(run)
	}
	if !run.Replaying() || strings.Contains(os.Getenv("VERIF_REPLAY_KEY"), "/paired/") {
		c08Paired(run, "c08")
	}
	if !run.Replaying() || strings.Contains(os.Getenv("VERIF_REPLAY_KEY"), "/peer-terminator/") {
		c08PeerTerminators(run, "c08")
	}
	if !run.Replaying() || strings.Contains(os.Getenv("VERIF_REPLAY_KEY"), "/failing-compressor/") {
		failingCompressor(run, "c08", false)
	}
	return run.Finish("negotiations", "compressed.payloads.verified", "below_min.checked", "unsupported.rejections", "isolation.valid_calls", "isolation.corrupt_calls", "paired.rendezvous", "peer_terminators.decoded")
}

// sizedMsg builds a message whose encoding has min-1 / min / min+1 bytes
// (clamped to what the codec can express).
func sizedMsg(codec string, id uint64, min, sel int) *gen.Msg {
	n := min + sel - 1
	lo := 0
	if codec == "json" {
		lo = 2
	}
	if n < lo {
		n = lo
	}
	if m := gen.OfEncodedSize(codec, id, n, true); m != nil {
		return m
	}
	return gen.OfEncodedSize(codec, id, n+1, true)
}

func c08Negotiate(run *ev.Run, stats map[string]*svc.AlgoStats, h *c08Handler, cl regList, cmin int, send, protocol, codec string, kind svc.Kind, sizeSel int, key string) {
	heff := h.list.effective()
	ceff := cl.effective()
	copts := append(svc.ProtoOpts(protocol, codec), cl.clientOpts(stats)...)
	copts = append(copts, connect.WithCompressMinBytes(cmin))
	if send != "" {
		copts = append(copts, connect.WithSendCompression(send))
	}
	if len(key)%3 == 0 {
		// one case in three: a read limit at the top of the integer range on the
		// client ("effectively unlimited"); decompression must not notice it
		copts = append(copts, connect.WithReadMaxBytes(math.MaxInt))
	}
	cs := svc.NewClientSet(h.lb, "http://verif.local", copts...)
	reqMsg := sizedMsg(codec, 11, cmin, sizeSel)
	respMsg := sizedMsg(codec, 22, h.min, sizeSel)
	var sends, replies []*gen.Msg
	prog := &svc.Program{}
	switch kind {
	case svc.Unary:
		sends, replies = []*gen.Msg{reqMsg}, []*gen.Msg{respMsg}
		prog.Steps = []svc.Step{{Op: "recv"}, {Op: "send", Msg: respMsg}}
	case svc.ClientStream:
		sends, replies = []*gen.Msg{reqMsg, {Id: 1}, reqMsg}, []*gen.Msg{respMsg}
		prog.Steps = []svc.Step{{Op: "recvall"}, {Op: "send", Msg: respMsg}}
	case svc.ServerStream:
		sends, replies = []*gen.Msg{reqMsg}, []*gen.Msg{respMsg, {Id: 2}, respMsg}
		prog.Steps = []svc.Step{{Op: "recv"}, {Op: "send", Msg: replies[0]}, {Op: "send", Msg: replies[1]}, {Op: "send", Msg: replies[2]}}
	case svc.Bidi:
		sends, replies = []*gen.Msg{reqMsg, {Id: 1}}, []*gen.Msg{respMsg, {Id: 2}}
		prog.Steps = []svc.Step{{Op: "recvall"}, {Op: "send", Msg: replies[0]}, {Op: "send", Msg: replies[1]}}
	}
	call := h.reg.New("c08", prog)
	defer h.reg.Drop(call)
	cl0 := cs.Do(context.Background(), kind, call.ID, nil, sends)
	run.Count("negotiations", 1)
	sizeClass := []string{"min-1", "min", "min+1"}[sizeSel]
	run.Eval(fmt.Sprintf("%s|%s|%s|%s|%s|%s", h.list, cl, send, protocol, kind, sizeClass))
	// find the exchange of this call in the loopback log
	var ex *wire.LoopExchange
	h.lb.Mu().Lock()
	for i := len(h.lb.Log) - 1; i >= 0; i-- {
		if h.lb.Log[i].ReqHeader.Get(wire.CallHeader) == call.ID {
			ex = h.lb.Log[i]
			h.lb.Log = append(h.lb.Log[:i], h.lb.Log[i+1:]...)
			break
		}
	}
	h.lb.Mu().Unlock()
	detail := map[string]any{"handler_registrations": h.list.String(), "handler_pref": heff, "client_registrations": cl.String(), "client_pref": ceff, "send": send,
		"handler_min": h.min, "client_min": cmin, "protocol": protocol, "codec": codec, "kind": kind.String(), "size_class": sizeClass, "client_err": errStr(cl0.Err)}
	if ex == nil {
		run.Violation(key+"/no-exchange", "no HTTP exchange was recorded for the call", detail)
		return
	}
	encH, accH := encHeaders(protocol, kind)
	rq := ex.ReqHeader
	rs := ex.Result
	detail["request_headers"] = rq
	detail["response_headers"] = rs.Header
	streamCT := !(protocol == "connect" && kind == svc.Unary)
	// (1) the client advertises its registrations, last registered first
	if got := splitList(rq.Get(accH)); fmt.Sprint(got) != fmt.Sprint(ceff) {
		run.Violation(key+"/client-advertises", fmt.Sprintf("client advertised %v, registrations imply %v", got, ceff), detail)
		return
	}
	r := rq.Get(encH)
	A := splitList(rq.Get(accH))
	// the client names its send compression (streaming always; unary only when it compressed)
	if streamCT && send != "" && r != send {
		run.Violation(key+"/client-encoding-header", fmt.Sprintf("client configured to send %q but announced %q", send, r), detail)
		return
	}
	// request side: flags, threshold, lossless
	algos := svc.RefAlgos()
	dreq := refcodec.DecodeRequestBody(protocol, streamCT, rq, ex.ReqBody, algos)
	if len(dreq.Problems) > 0 {
		detail["problems"] = dreq.Problems
		run.Violation(key+"/request-undecodable", "request is not decodable with the announced encoding: "+strings.Join(dreq.Problems, "; "), detail)
		return
	}
	if !c08Payloads(run, key+"/request", detail, codec, dreq, sends, cmin) {
		return
	}
	// (2) unsupported request compression
	if r != "" && r != "identity" && !contains(heff, r) {
		run.Count("unsupported.rejections", 1)
		ok := cl0.Err != nil && connect.CodeOf(cl0.Err) == connect.CodeUnimplemented && call.Log.Invocations == 0
		if ok {
			for _, n := range heff {
				if !strings.Contains(cl0.Err.Error(), n) {
					ok = false
				}
			}
		}
		if !ok {
			detail["invocations"] = call.Log.Invocations
			run.Violation(key+"/unsupported-not-rejected", fmt.Sprintf("request compressed with %q, which the handler lacks, was not rejected as unimplemented listing %v without running user code", r, heff), detail)
		}
		return
	}
	if cl0.Err != nil {
		run.Violation(key+"/call-failed", "negotiable call failed: "+errStr(cl0.Err), detail)
		return
	}
	if same, why := gen.SameSeq(call.Log.Received, sends); !same {
		run.Violation(key+"/request-lossy", "handler received different messages: "+why, detail)
		return
	}
	if same, why := gen.SameSeq(cl0.Msgs, replies); !same {
		run.Violation(key+"/response-lossy", "client received different messages: "+why, detail)
		return
	}
	// (3) response algorithm
	firstMutual := "identity"
	for _, a := range A {
		if contains(heff, a) {
			firstMutual = a
			break
		}
	}
	a := rs.Header.Get(encH)
	if a == "" {
		a = "identity"
	}
	dresp := refcodec.DecodeResponse(protocol, streamCT, rs.Status, rs.Header, rs.Body, rs.Trailer, algos)
	if len(dresp.Problems) > 0 {
		detail["problems"] = dresp.Problems
		run.Violation(key+"/response-undecodable", "response is not decodable with the announced encoding: "+strings.Join(dresp.Problems, "; "), detail)
		return
	}
	anyCompressed := false
	for _, c := range dresp.Compressed {
		anyCompressed = anyCompressed || c
	}
	detail["response_encoding"] = a
	detail["first_mutual_preference"] = firstMutual
	if a != "identity" {
		if !contains(heff, a) {
			run.Violation(key+"/algorithm-unsupported", fmt.Sprintf("handler answered with %q which it does not support", a), detail)
			return
		}
		if a != r && !contains(A, a) {
			run.Violation(key+"/algorithm-not-offered", fmt.Sprintf("handler answered with %q which the client neither used nor advertised", a), detail)
			return
		}
	}
	reqIdentity := r == "" || r == "identity"
	expectA := firstMutual
	unaryConnect := !streamCT
	if unaryConnect {
		// unary Connect names the encoding only on a response it compressed
		if anyCompressed {
			if a != expectA && !(!reqIdentity && a == r) {
				run.Violation(key+"/preference", fmt.Sprintf("response compressed with %q, client's most-preferred mutually supported algorithm is %q", a, expectA), detail)
				return
			}
		}
	} else if reqIdentity {
		if a != expectA {
			run.Violation(key+"/preference", fmt.Sprintf("response encoding %q, client's most-preferred mutually supported algorithm is %q", a, expectA), detail)
			return
		}
	} else if a != r && a != expectA {
		run.Violation(key+"/preference", fmt.Sprintf("response encoding %q is neither the request's %q nor the first mutual preference %q", a, r, expectA), detail)
		return
	}
	if !c08Payloads(run, key+"/response", detail, codec, dresp, replies, h.min) {
		return
	}
	run.Sample(map[string]any{"handler": h.list.String(), "client": cl.String(), "send": send, "protocol": protocol, "kind": kind.String(), "request_encoding": r, "accept": A, "response_encoding": a})
}

// c08Payloads checks threshold and losslessness of decoded payloads.
func c08Payloads(run *ev.Run, key string, detail map[string]any, codec string, d *refcodec.Decoded, want []*gen.Msg, min int) bool {
	if len(d.Messages) != len(want) {
		// error responses carry no messages; nothing to compare
		return true
	}
	for i, p := range d.Messages {
		m, ok := decodeMsg(codec, p)
		if !ok || !proto.Equal(m, want[i]) {
			detail["message_index"] = i
			run.Violation(key+"/lossy", "a payload on the wire does not decompress/decode to the message the application passed in", detail)
			return false
		}
		if d.Compressed[i] {
			run.Count("compressed.payloads.verified", 1)
		}
		size := gen.EncodedSize(codec, want[i])
		if codec == "json" {
			size = len(p)
		}
		if size < min {
			run.Count("below_min.checked", 1)
			if d.Compressed[i] {
				detail["message_index"] = i
				detail["encoded_size"] = size
				run.Violation(key+"/below-min-compressed", fmt.Sprintf("message of %d bytes compressed although compress-min is %d", size, min), detail)
				return false
			}
		}
	}
	return true
}

// ---------------------------------------------------------------------------
// Isolation histories.

// corruptGzip returns a gzip member damaged so that the reference
// decompressor rejects it (a flipped padding bit, say, is not corruption).
func corruptGzip(r *rand.Rand, plain []byte) ([]byte, string) {
	for {
		g, class := corruptGzipOnce(r, plain, r.Intn(7))
		if _, err := refcodec.GzipDecompress(g); err != nil {
			return g, class
		}
	}
}

func corruptGzipOnce(r *rand.Rand, plain []byte, class int) ([]byte, string) {
	g := refcodec.GzipCompress(plain)
	switch class {
	case 0:
		i := 10 + r.Intn(len(g)-18)
		g[i] ^= 1 << uint(r.Intn(8))
		return g, "bitflip-body"
	case 1:
		return g[:len(g)/2], "truncated"
	case 2:
		g[len(g)-8] ^= 0x01
		return g, "bad-crc"
	case 3:
		g[len(g)-1] ^= 0x10
		return g, "bad-isize"
	case 4:
		g[0] = 0x00
		return g, "bad-magic"
	case 5:
		return append(g, 0xde, 0xad, 0xbe, 0xef), "trailing-garbage"
	}
	return g[:len(g)-3], "truncated-trailer"
}

// rawPost sends a raw request to a real server.
func rawPost(hc *http.Client, url, ct string, hdr http.Header, body []byte) (int, http.Header, []byte, http.Header, error) {
	req, _ := http.NewRequest("POST", url, bytes.NewReader(body))
	req.Header.Set("Content-Type", ct)
	for k, v := range hdr {
		req.Header[k] = v
	}
	resp, err := hc.Do(req)
	if err != nil {
		return 0, nil, nil, nil, err
	}
	defer resp.Body.Close()
	b, _ := io.ReadAll(resp.Body)
	return resp.StatusCode, resp.Header, b, resp.Trailer, nil
}

func c08Isolation(run *ev.Run) {
	// One handler set and one client set (shared pools) for the whole history.
	var corruptMode atomic.Value // for the client-side history
	corruptMode.Store("")
	reg := svc.NewRegistry()
	reg.Default = drainProgram() // raw corrupt requests carry no call id; the handler returns the Receive error
	hs := svc.Handlers(reg)
	mux := svc.Mux(hs)
	front := http.HandlerFunc(func(w http.ResponseWriter, req *http.Request) {
		if mode := req.Header.Get("X-Verif-Corrupt"); mode != "" {
			// crafted response with a corrupt compressed payload (client side)
			_, _ = io.Copy(io.Discard, req.Body)
			seed := int64(len(mode))
			fmt.Sscanf(mode, "%d", &seed)
			rr := rand.New(rand.NewSource(seed))
			plain, _ := proto.Marshal(gen.New(4242, 3000, true))
			bad, _ := corruptGzip(rr, plain)
			ct := req.Header.Get("Content-Type")
			w.Header().Set("Content-Type", ct)
			switch {
			case strings.HasPrefix(ct, "application/grpc-web"):
				w.Header().Set("Grpc-Encoding", "gzip")
				body := refcodec.AppendFrame(nil, 1, bad)
				body = refcodec.AppendFrame(body, 0x80, []byte("grpc-status: 0\r\n"))
				_, _ = w.Write(body)
			case strings.HasPrefix(ct, "application/grpc"):
				w.Header().Set("Grpc-Encoding", "gzip")
				w.Header().Set("Trailer", "Grpc-Status")
				_, _ = w.Write(refcodec.AppendFrame(nil, 1, bad))
				w.Header().Set("Grpc-Status", "0")
			default:
				w.Header().Set("Content-Encoding", "gzip")
				_, _ = w.Write(bad)
			}
			return
		}
		mux.ServeHTTP(w, req)
	})
	srv := svc.NewServerWith(reg, hs, front)
	defer srv.Close()
	_ = httptest.NewRecorder
	type clientKey struct {
		proto string
		h2    bool
	}
	clients := map[clientKey]*svc.ClientSet{}
	for _, p := range svc.Protocols {
		for _, h2 := range []bool{false, true} {
			clients[clientKey{p, h2}] = srv.Clients(h2, append(svc.ProtoOpts(p, "proto"), connect.WithSendGzip())...)
		}
	}
	var idc uint64
	validCall := func(r *rand.Rand, where string, size int) {
		p := svc.Protocols[r.Intn(3)]
		h2 := r.Intn(2) == 0
		kind := []svc.Kind{svc.Unary, svc.ClientStream, svc.ServerStream}[r.Intn(3)]
		if where == "concurrent" {
			// stay on the handlers and clients whose pools saw the corrupt calls
			kind = []svc.Kind{svc.Unary, svc.ClientStream}[r.Intn(2)]
		}
		id := atomic.AddUint64(&idc, 1) + 1000
		m := gen.New(id, size, r.Intn(2) == 0)
		reply := gen.New(id+1<<32, size, true)
		prog := &svc.Program{Steps: []svc.Step{{Op: "recvall"}, {Op: "send", Msg: reply}}}
		call := reg.New("iso", prog)
		defer reg.Drop(call)
		cs := clients[clientKey{p, h2}]
		defer cs.Tap.Forget(call.ID)
		var cl *svc.CLog
		ok, _ := watchdog(60*time.Second, func() { cl = cs.Do(context.Background(), kind, call.ID, nil, []*gen.Msg{m}) })
		run.Count("isolation.valid_calls", 1)
		run.Eval(fmt.Sprintf("iso|%s|valid|%s|%v|%s", where, p, h2, kind))
		key := fmt.Sprintf("c08/iso/%s/valid/%s/h2=%v/%s", where, p, h2, kind)
		if !ok {
			run.Violation(key+"/hang", "valid compressed call hung after corrupt calls on the same pools", nil)
			return
		}
		detail := map[string]any{"history": where, "protocol": p, "http2": h2, "kind": kind.String(), "client_err": errStr(cl.Err), "handler_recv_err": errStr(call.Log.RecvErr)}
		if cl.Err != nil {
			run.Violation(key+"/failed", "a valid compressed call failed after/while corrupt compressed calls ran on the same handler and client: "+errStr(cl.Err), detail)
			return
		}
		if same, why := gen.SameSeq(call.Log.Received, []*gen.Msg{m}); !same {
			run.Violation(key+"/request-corrupted", "valid call's request arrived changed: "+why, detail)
			return
		}
		if same, why := gen.SameSeq(cl.Msgs, []*gen.Msg{reply}); !same {
			run.Violation(key+"/response-corrupted", "valid call's response arrived changed: "+why, detail)
		}
	}
	corruptHandlerCall := func(r *rand.Rand, where string) {
		h2 := r.Intn(2) == 0
		hc, base, _ := srv.HTTPClient(h2)
		plain, _ := proto.Marshal(gen.New(777, 2000+r.Intn(3000), true))
		bad, class := corruptGzip(r, plain)
		var status int
		var hdr, trl http.Header
		var body []byte
		var err error
		p := svc.Protocols[r.Intn(3)]
		switch p {
		case "connect":
			status, hdr, body, trl, err = rawPost(hc, base+svc.Unary.Path(), "application/proto", http.Header{"Content-Encoding": {"gzip"}}, bad)
		case "grpc":
			status, hdr, body, trl, err = rawPost(hc, base+svc.ClientStream.Path(), "application/grpc+proto", http.Header{"Grpc-Encoding": {"gzip"}, "Te": {"trailers"}}, refcodec.AppendFrame(nil, 1, bad))
		default:
			status, hdr, body, trl, err = rawPost(hc, base+svc.ClientStream.Path(), "application/grpc-web+proto", http.Header{"Grpc-Encoding": {"gzip"}}, refcodec.AppendFrame(nil, 1, bad))
		}
		run.Count("isolation.corrupt_calls", 1)
		run.Eval(fmt.Sprintf("iso|%s|corrupt-request|%s|%s", where, p, class))
		key := fmt.Sprintf("c08/iso/%s/corrupt-request/%s/%s", where, p, class)
		if err != nil {
			if p == "grpc" && !h2 {
				return // net/http may drop the connection for gRPC over HTTP/1.1; transport artefact
			}
			run.Inconclusive("corrupt request: transport error " + trunc(err.Error(), 60))
			return
		}
		d := refcodec.DecodeResponse(p, p != "connect", status, hdr, body, trl, svc.RefAlgos())
		if d.Err == nil || d.Err.Code == 0 {
			if p == "grpc" && !h2 && len(trl) == 0 {
				return
			}
			run.Violation(key+"/accepted", "a corrupt compressed request ("+class+") was not answered with a coded error", map[string]any{"status": status, "header": hdr, "trailer": trl, "problems": d.Problems})
		}
	}
	corruptClientCall := func(r *rand.Rand, where string) {
		p := svc.Protocols[r.Intn(3)]
		h2 := r.Intn(2) == 0
		cs := clients[clientKey{p, h2}]
		var cl *svc.CLog
		ok, _ := watchdog(60*time.Second, func() {
			cl = cs.Do(context.Background(), svc.Unary, "corrupt", http.Header{"X-Verif-Corrupt": {fmt.Sprint(r.Int63())}}, []*gen.Msg{{Id: 5}})
		})
		run.Count("isolation.corrupt_calls", 1)
		run.Eval(fmt.Sprintf("iso|%s|corrupt-response|%s|%v", where, p, h2))
		key := fmt.Sprintf("c08/iso/%s/corrupt-response/%s/h2=%v", where, p, h2)
		if !ok {
			run.Violation(key+"/hang", "call with a corrupt compressed response hung", nil)
			return
		}
		if cl.Err == nil {
			run.Violation(key+"/accepted", "a corrupt compressed response was delivered as success", map[string]any{"msgs": gen.DescribeSeq(cl.Msgs)})
			return
		}
		var ce *connect.Error
		if !errors.As(cl.Err, &ce) || ce.Code() == 0 {
			run.Violation(key+"/uncoded", "corrupt compressed response did not yield a coded error: "+errStr(cl.Err), nil)
		}
	}
	// --- sequential history on one P: pooled objects are reused immediately
	if run.Want("c08/iso/sequential") {
		old := runtime.GOMAXPROCS(1)
		r := run.Rand("c08/iso/seq")
		for i := 0; i < run.Pick(400, 4000); i++ {
			switch r.Intn(4) {
			case 0:
				corruptHandlerCall(r, "sequential")
			case 1:
				corruptClientCall(r, "sequential")
			default:
				validCall(r, "sequential", 200+r.Intn(4000))
			}
		}
		runtime.GOMAXPROCS(old)
	}
	// --- concurrent history: bursts of corrupt calls followed by overlapping
	// valid calls, GC off so that pooled objects survive between bursts.
	if run.Want("c08/iso/concurrent") {
		oldGC := debug.SetGCPercent(-1)
		rounds := run.Pick(24, 200)
		for round := 0; round < rounds; round++ {
			r := run.Rand(fmt.Sprintf("c08/iso/conc/%d", round))
			for i := 0; i < 8; i++ {
				corruptHandlerCall(r, "concurrent")
				corruptClientCall(r, "concurrent")
			}
			var wg sync.WaitGroup
			for g := 0; g < 16; g++ {
				wg.Add(1)
				rg := rand.New(rand.NewSource(r.Int63()))
				go func() {
					defer wg.Done()
					validCall(rg, "concurrent", 256<<10)
				}()
			}
			wg.Wait()
			if round%4 == 3 {
				debug.SetGCPercent(oldGC)
				runtime.GC()
				debug.SetGCPercent(-1)
			}
		}
		debug.SetGCPercent(oldGC)
	}
	serverPanicCheck(run, srv, "c08/iso")
}

// c08Paired: the corruption sits where Decompressor.Reset itself rejects it (the
// algorithm's header), and the valid calls that follow really overlap: their
// instrumented decompressors wait for each other in Read. If the failed call
// left the pool with two references to one object, both valid calls get it and
// the object's ownership flag reports it - deterministically, not by waiting
// for corrupted bytes to show up.
func c08Paired(run *ev.Run, prefix string) {
	const algo = "Zz-Xor"
	stats := &svc.AlgoStats{Pair: 1}
	nd, nc := svc.Algo(algo, stats)
	reg := svc.NewRegistry()
	reg.Default = drainProgram()
	hs := svc.Handlers(reg, connect.WithCompression(algo, nd, nc))
	mux := svc.Mux(hs)
	front := http.HandlerFunc(func(w http.ResponseWriter, req *http.Request) {
		if req.Header.Get("X-Verif-Corrupt") != "" {
			// a response whose compressed payload has a bad header (client side)
			_, _ = io.Copy(io.Discard, req.Body)
			ct := req.Header.Get("Content-Type")
			w.Header().Set("Content-Type", ct)
			bad := []byte{'?', 1, 2, 3, 4, 5, 6, 7}
			switch {
			case strings.HasPrefix(ct, "application/grpc-web"):
				w.Header().Set("Grpc-Encoding", algo)
				body := refcodec.AppendFrame(nil, 1, bad)
				_, _ = w.Write(refcodec.AppendFrame(body, 0x80, []byte("grpc-status: 0\r\n")))
			case strings.HasPrefix(ct, "application/grpc"):
				w.Header().Set("Grpc-Encoding", algo)
				w.Header().Set("Trailer", "Grpc-Status")
				_, _ = w.Write(refcodec.AppendFrame(nil, 1, bad))
				w.Header().Set("Grpc-Status", "0")
			default:
				w.Header().Set("Content-Encoding", algo)
				_, _ = w.Write(bad)
			}
			return
		}
		mux.ServeHTTP(w, req)
	})
	srv := svc.NewServerWith(reg, hs, front)
	defer srv.Close()
	old := runtime.GOMAXPROCS(1) // one P: every Get sees everything that was Put
	defer runtime.GOMAXPROCS(old)
	var idc uint64
	for _, p := range svc.Protocols {
		for _, side := range []string{"handler", "client"} {
			key := fmt.Sprintf("%s/paired/%s/%s", prefix, side, p)
			if !run.Want(key) {
				continue
			}
			cs := srv.Clients(true, append(svc.ProtoOpts(p, "proto"), connect.WithAcceptCompression(algo, nd, nc), connect.WithSendCompression(algo))...)
			hc, base, _ := srv.HTTPClient(true)
			for round := 0; round < run.Pick(6, 40); round++ {
				before := atomic.LoadInt64(&stats.Violations)
				// 1. the corrupt call
				if side == "handler" {
					bad := []byte{'?', 9, 9, 9, 9, 9, 9, 9, 9}
					var status int
					var hdr, trl http.Header
					var body []byte
					var err error
					switch p {
					case "connect":
						status, hdr, body, trl, err = rawPost(hc, base+svc.Unary.Path(), "application/proto", http.Header{"Content-Encoding": {algo}}, bad)
					case "grpc":
						status, hdr, body, trl, err = rawPost(hc, base+svc.Unary.Path(), "application/grpc+proto", http.Header{"Grpc-Encoding": {algo}, "Te": {"trailers"}}, refcodec.AppendFrame(nil, 1, bad))
					default:
						status, hdr, body, trl, err = rawPost(hc, base+svc.Unary.Path(), "application/grpc-web+proto", http.Header{"Grpc-Encoding": {algo}}, refcodec.AppendFrame(nil, 1, bad))
					}
					if err != nil {
						run.Inconclusive("paired history: transport error on the corrupt request: " + trunc(err.Error(), 60))
						continue
					}
					if d := refcodec.DecodeResponse(p, p != "connect", status, hdr, body, trl, svc.RefAlgos()); d.Err == nil || d.Err.Code == 0 {
						run.Violation(key+"/accepted", "a request whose compression header is corrupt was not answered with a coded error", map[string]any{"status": status})
					}
				} else {
					cl := cs.Do(context.Background(), svc.Unary, "corrupt", http.Header{"X-Verif-Corrupt": {"1"}}, []*gen.Msg{{Id: 5}})
					if cl.Err == nil {
						run.Violation(key+"/accepted", "a response whose compression header is corrupt was delivered as success", nil)
					}
				}
				run.Count("isolation.corrupt_calls", 1)
				// 2. three valid calls that overlap inside their decompressors
				var wg sync.WaitGroup
				for g := 0; g < 3; g++ {
					wg.Add(1)
					go func() {
						defer wg.Done()
						id := atomic.AddUint64(&idc, 1) + 5000
						m := gen.New(id, 600, true)
						reply := gen.New(id+1<<32, 600, true)
						call := reg.New("pair", &svc.Program{Steps: []svc.Step{{Op: "recvall"}, {Op: "send", Msg: reply}}})
						defer reg.Drop(call)
						defer cs.Tap.Forget(call.ID)
						var cl *svc.CLog
						ok, _ := watchdog(60*time.Second, func() { cl = cs.Do(context.Background(), svc.Unary, call.ID, nil, []*gen.Msg{m}) })
						run.Count("isolation.valid_calls", 1)
						run.Eval(fmt.Sprintf("paired|%s|%s|round=%d", side, p, round%4))
						if !ok {
							run.Violation(key+"/hang", "valid compressed call hung after a corrupt one", nil)
							return
						}
						if cl.Err != nil {
							run.Violation(key+"/failed", "a valid compressed call failed after a call with a corrupt compression header on the same pool: "+errStr(cl.Err), nil)
							return
						}
						if same, why := gen.SameSeq(cl.Msgs, []*gen.Msg{reply}); !same {
							run.Violation(key+"/response-corrupted", "valid call's response arrived changed: "+why, nil)
						}
						if same, why := gen.SameSeq(call.Log.Received, []*gen.Msg{m}); !same {
							run.Violation(key+"/request-corrupted", "valid call's request arrived changed: "+why, nil)
						}
					}()
				}
				wg.Wait()
				if v := atomic.LoadInt64(&stats.Violations); v > before {
					run.Violation(key+"/shared-decompressor", "after a call with a corrupt compression header, two overlapping valid calls were handed the same pooled decompressor", map[string]any{"notes": stats.Notes, "round": round})
					break
				}
			}
		}
	}
	run.Count("paired.rendezvous", atomic.LoadInt64(&stats.Paired))
	serverPanicCheck(run, srv, prefix+"/paired")
}

// c08PeerTerminators: "both sides can decode" also covers the last envelope of
// a stream. A conformant peer may compress it like any other (connect-go's own
// handler does, above compress-min): a Connect end-of-stream message with flags
// 0x03, a gRPC-Web trailers frame with flags 0x81. The client must read the
// error and the trailing metadata out of it.
func c08PeerTerminators(run *ev.Run, prefix string) {
	algos := svc.RefAlgos()
	stats := &svc.AlgoStats{}
	zd, zc := svc.Algo("Zz-Xor", stats)
	msg := encMsg("proto", &gen.Msg{Id: 77, Note: "payload"})
	for _, algo := range []string{"gzip", "Zz-Xor"} {
		comp := algos[algo].Compress
		for _, protocol := range []string{"connect", "grpcweb"} {
			for _, ending := range []string{"ok", "error"} {
				for _, msgCompressed := range []bool{true, false} {
					key := fmt.Sprintf("%s/peer-terminator/%s/%s/%s/msg-compressed=%v", prefix, protocol, algo, ending, msgCompressed)
					if !run.Want(key) {
						continue
					}
					hdr := http.Header{}
					var body []byte
					if msgCompressed {
						body = refcodec.AppendFrame(body, 1, comp(msg))
					} else {
						body = refcodec.AppendFrame(body, 0, msg)
					}
					if protocol == "connect" {
						hdr.Set("Content-Type", "application/connect+proto")
						hdr.Set("Connect-Content-Encoding", algo)
						end := `{"metadata":{"x-peer-trailer":["t1","t2"]}}`
						if ending == "error" {
							end = `{"error":{"code":"aborted","message":"peer says stop"},"metadata":{"x-peer-trailer":["t1","t2"]}}`
						}
						body = refcodec.AppendFrame(body, 0x03, comp([]byte(end)))
					} else {
						hdr.Set("Content-Type", "application/grpc-web+proto")
						hdr.Set("Grpc-Encoding", algo)
						block := "grpc-status: 0\r\nx-peer-trailer: t1\r\nx-peer-trailer: t2\r\n"
						if ending == "error" {
							block = "grpc-status: 10\r\ngrpc-message: peer says stop\r\nx-peer-trailer: t1\r\nx-peer-trailer: t2\r\n"
						}
						body = refcodec.AppendFrame(body, 0x81, comp([]byte(block)))
					}
					cn := &wire.Canned{Respond: func(req *http.Request, _ []byte) (*http.Response, error) {
						return wire.NewResponse(req, 200, hdr, &wire.ScriptedBody{Data: body}, nil), nil
					}}
					opts := append(svc.ProtoOpts(protocol, "proto"), connect.WithAcceptCompression("Zz-Xor", zd, zc))
					cs := svc.NewClientSet(cn, "http://verif.local", opts...)
					var cl *svc.CLog
					ok, _ := watchdog(30*time.Second, func() { cl = cs.Do(context.Background(), svc.ServerStream, "pt", nil, []*gen.Msg{{Id: 1}}) })
					run.Eval(fmt.Sprintf("peer-terminator|%s|%s|%s|%v", protocol, algo, ending, msgCompressed))
					run.Count("peer_terminators.decoded", 1)
					detail := map[string]any{"protocol": protocol, "algorithm": algo, "ending": ending, "message_compressed": msgCompressed}
					if !ok {
						run.Violation(key+"/hang", "client call did not return", detail)
						continue
					}
					detail["client_err"], detail["client_trailer"] = errStr(cl.Err), cl.Trailer
					if len(cl.Msgs) != 1 || cl.Msgs[0].Id != 77 {
						run.Violation(key+"/message", "the message before the compressed terminator was not delivered", detail)
						continue
					}
					if ending == "ok" {
						if cl.Err != nil {
							run.Violation(key+"/failed", "a stream whose last envelope is compressed with the negotiated algorithm failed: "+errStr(cl.Err), detail)
							continue
						}
						if got := cl.Trailer.Values("X-Peer-Trailer"); !sameList(got, []string{"t1", "t2"}) {
							run.Violation(key+"/trailers", fmt.Sprintf("trailing metadata in the compressed terminator read as %q", got), detail)
						}
						continue
					}
					var ce *connect.Error
					if !errors.As(cl.Err, &ce) || ce.Code() != connect.CodeAborted || ce.Message() != "peer says stop" {
						run.Violation(key+"/error", "the error in the compressed terminator was not read: client reports "+errStr(cl.Err), detail)
						continue
					}
					if got := ce.Meta().Values("X-Peer-Trailer"); !sameList(got, []string{"t1", "t2"}) {
						run.Violation(key+"/error-meta", fmt.Sprintf("trailing metadata in the compressed terminator read as %q", got), detail)
					}
				}
			}
		}
	}
}
