package checks

import (
	"context"
	"errors"
	"fmt"
	"io"
	"net/http"
	"strings"
	"sync"
	"sync/atomic"
	"time"

	connect "github.com/bufbuild/connect-go"
	"verif.local/harness/ev"
	"verif.local/harness/gen"
	"verif.local/harness/svc"
	"verif.local/harness/wire"
)

func init() { register("C15", "fault_enumeration", c15) }

type c15Case struct {
	http2    bool
	proto    string
	kind     svc.Kind
	ops      []string // X marks the cancellation instant; "HOOK:<op>" cancels from a second goroutine once <op> has been blocked for a while
	handler  string   // echo-wait | never-read | send1-wait | partial
	deadline bool     // expiry instead of cancel
	name     string
	// point/nth: the instant comes inside the library, at the nth time the
	// client's HTTP call reaches the named yield point (hook H2); the ops carry a
	// fallback instant in case the point is not reached that often.
	point string
	nth   int
	// swap: the context that ends is one a client interceptor installed for the
	// call (interceptors may replace the context they pass on); the context the
	// application passed in stays alive.
	swap bool
}

func (c c15Case) key() string {
	mode := "cancel"
	if c.deadline {
		mode = "deadline"
	}
	if c.swap {
		mode += "-of-interceptor-context"
	}
	return fmt.Sprintf("c15/h2=%v/%s/%s/%s/handler=%s/%s", c.http2, c.proto, c.kind, mode, c.handler, c.name)
}

func c15Handler(name string) *svc.Program {
	switch name {
	case "echo-wait": // answer every message, then wait for the cancellation
		return &svc.Program{Steps: []svc.Step{{Op: "recv"}, {Op: "send", Msg: &gen.Msg{Id: 71}}, {Op: "recv"}, {Op: "send", Msg: &gen.Msg{Id: 72}}, {Op: "waitctx"}}, ReturnCtxErr: true}
	case "never-read":
		return &svc.Program{Steps: []svc.Step{{Op: "waitctx"}}, ReturnCtxErr: true}
	case "send1-wait":
		return &svc.Program{Steps: []svc.Step{{Op: "send", Msg: &gen.Msg{Id: 71}}, {Op: "waitctx"}}, ReturnCtxErr: true}
	case "recv-wait":
		return &svc.Program{Steps: []svc.Step{{Op: "recv"}, {Op: "waitctx"}}, ReturnCtxErr: true}
	case "send3-wait": // three messages at once, then wait for the cancellation
		return &svc.Program{Steps: []svc.Step{{Op: "send", Msg: &gen.Msg{Id: 71}}, {Op: "send", Msg: &gen.Msg{Id: 72}}, {Op: "send", Msg: &gen.Msg{Id: 73}}, {Op: "waitctx"}}, ReturnCtxErr: true}
	}
	panic(name)
}

// insertAt returns ops with "X" inserted before position i.
func insertAt(ops []string, i int) []string {
	out := append([]string{}, ops[:i]...)
	out = append(out, "X")
	return append(out, ops[i:]...)
}

func c15Cases(run *ev.Run) []c15Case {
	var out []c15Case
	add := func(h2 bool, p string, k svc.Kind, handler, name string, ops []string, dl bool) {
		out = append(out, c15Case{http2: h2, proto: p, kind: k, ops: ops, handler: handler, deadline: dl, name: name})
	}
	for _, p := range svc.Protocols {
		for _, dl := range []bool{false, true} {
			// --- bidi (HTTP/2): the instant before every operation of a base program
			base := []string{"S", "R", "S", "R", "CR", "Rall", "CP"}
			for i := 0; i <= 5; i++ { // Rall would block for good if the instant came later
				if dl && i != 0 && i != 2 && i != 4 && i != 5 {
					continue
				}
				add(true, p, svc.Bidi, "echo-wait", fmt.Sprintf("instant-before-op-%d", i), insertAt(base, i), dl)
			}
			// inside a blocked Receive, inside a blocked Send, inside a blocked CloseResponse
			add(true, p, svc.Bidi, "send1-wait", "inside-blocked-Receive", []string{"S", "R", "HOOK:R", "R", "CR", "CP"}, dl)
			add(true, p, svc.Bidi, "never-read", "inside-blocked-Send", []string{"HOOK:Sfill", "R", "CR", "CP"}, dl)
			add(true, p, svc.Bidi, "send1-wait", "inside-blocked-CloseResponse", []string{"S", "HOOK:CP"}, dl)
			add(true, p, svc.Bidi, "send1-wait", "inside-blocked-Receive-after-CloseRequest", []string{"S", "CR", "R", "HOOK:R", "R", "CP"}, dl)
			add(true, p, svc.Bidi, "server-side", "handler-context-ends", []string{"S", "CR", "Rall", "CP"}, dl)
			// several messages have arrived (P60: and sit wherever the client keeps
			// what it has read) when the first is received; then the instant
			add(true, p, svc.Bidi, "send3-wait", "after-first-of-three-arrived-messages", []string{"S", "P60", "R", "X", "R", "R", "CR", "CP"}, dl)
			for _, h2 := range []bool{false, true} {
				// --- unary
				add(h2, p, svc.Unary, "recv-wait", "before-call", []string{"X", "CALL"}, dl)
				add(h2, p, svc.Unary, "recv-wait", "inside-blocked-call", []string{"HOOK:CALL"}, dl)
				// --- client stream
				add(h2, p, svc.ClientStream, "recv-wait", "before-send", []string{"X", "S", "CAR"}, dl)
				add(h2, p, svc.ClientStream, "recv-wait", "between-sends", []string{"S", "X", "S", "CAR"}, dl)
				add(h2, p, svc.ClientStream, "recv-wait", "before-close-and-receive", []string{"S", "S", "X", "CAR"}, dl)
				add(h2, p, svc.ClientStream, "recv-wait", "inside-blocked-close-and-receive", []string{"S", "HOOK:CAR"}, dl)
				add(h2, p, svc.ClientStream, "never-read", "inside-blocked-Send", []string{"HOOK:Sfill", "CAR"}, dl)
				// --- server stream
				add(h2, p, svc.ServerStream, "send1-wait", "before-call", []string{"X", "CALL", "R", "CP"}, dl)
				add(h2, p, svc.ServerStream, "send1-wait", "after-call", []string{"CALL", "X", "R", "R", "CP"}, dl)
				add(h2, p, svc.ServerStream, "send1-wait", "after-first-message", []string{"CALL", "R", "X", "R", "R", "CP"}, dl)
				add(h2, p, svc.ServerStream, "send3-wait", "after-first-of-three-arrived-messages", []string{"CALL", "P60", "R", "X", "R", "R", "CP"}, dl)
				add(h2, p, svc.ServerStream, "send1-wait", "inside-blocked-Receive", []string{"CALL", "R", "HOOK:R", "R", "CP"}, dl)
				add(h2, p, svc.ServerStream, "partial", "inside-blocked-Receive-mid-message", []string{"CALL", "HOOK:R", "R", "CP"}, dl)
				add(h2, p, svc.ServerStream, "send1-wait", "inside-blocked-Close", []string{"CALL", "HOOK:CP"}, dl)
				add(h2, p, svc.Unary, "partial", "inside-blocked-call-mid-message", []string{"HOOK:CALL"}, dl)
				// the receiver is draining a message it has already decided to reject
				// (declared size above its read limit) when the context ends
				add(h2, p, svc.ServerStream, "partial", "inside-blocked-Receive-draining-oversize", []string{"CALL", "HOOK:R", "R", "CP"}, dl)
				// ... and when only part of an envelope prefix has arrived
				add(h2, p, svc.ServerStream, "partial", "inside-blocked-Receive-mid-prefix", []string{"CALL", "R", "HOOK:R", "R", "CP"}, dl)
				// the same three with a response body that hands the last bytes it
				// had over together with the error (a buffering decorator in the
				// HTTP client): Read returns (n > 0, err)
				add(h2, p, svc.ServerStream, "partial", "inside-blocked-Receive-mid-message-bytes-and-error-together", []string{"CALL", "HOOK:R", "R", "CP"}, dl)
				add(h2, p, svc.Unary, "partial", "inside-blocked-call-mid-message-bytes-and-error-together", []string{"HOOK:CALL"}, dl)
				add(h2, p, svc.ServerStream, "partial", "inside-blocked-Receive-draining-oversize-bytes-and-error-together", []string{"CALL", "HOOK:R", "R", "CP"}, dl)
				add(h2, p, svc.ServerStream, "partial", "inside-blocked-Receive-mid-prefix-bytes-and-error-together", []string{"CALL", "R", "HOOK:R", "R", "CP"}, dl)
				// the handler's own context ends (server-side timeout / shutdown) while the
				// client's is alive; the handler returns ctx.Err()
				add(h2, p, svc.Unary, "server-side", "handler-context-ends", []string{"CALL"}, dl)
				add(h2, p, svc.ClientStream, "server-side", "handler-context-ends", []string{"S", "CAR"}, dl)
				add(h2, p, svc.ServerStream, "server-side", "handler-context-ends", []string{"CALL", "Rall", "CP"}, dl)
			}
		}
	}
	// the same instants for a context installed by a client interceptor
	var swapped []c15Case
	for _, c := range out {
		switch c.name {
		case "instant-before-op-3", "inside-blocked-Receive", "after-first-message", "inside-blocked-call", "inside-blocked-close-and-receive", "between-sends", "inside-blocked-CloseResponse":
			if c.http2 || c.kind != svc.Bidi {
				c.swap = true
				swapped = append(swapped, c)
			}
		}
	}
	return append(out, swapped...)
}

var c15Points = []string{"write.beforePipe", "closeWrite", "makeRequest.beforeDo", "makeRequest.afterDo", "makeRequest.afterValidate", "read.beforeBody", "closeRead.beforeDiscard", "setError.beforeClosePipe"}

// c15PointCases: the context ends exactly when the library is at one of its
// internal yield points (between two steps of duplexHTTPCall), which no
// instant chosen between API calls can reach.
func c15PointCases(run *ev.Run) []c15Case {
	var out []c15Case
	type prog struct {
		kind    svc.Kind
		handler string
		ops     []string
		h1      bool
	}
	progs := []prog{
		{svc.Bidi, "echo-wait", []string{"S", "R", "S", "R", "CR", "X", "Rall", "CP"}, false},
		{svc.Bidi, "send1-wait", []string{"S", "R", "HOOK:CP"}, false},
		{svc.ClientStream, "recv-wait", []string{"S", "S", "HOOK:CAR"}, true},
		{svc.ServerStream, "send1-wait", []string{"CALL", "R", "HOOK:R", "R", "CP"}, true},
		{svc.ServerStream, "send1-wait", []string{"CALL", "R", "HOOK:CP"}, true},
		{svc.Unary, "recv-wait", []string{"HOOK:CALL"}, true},
	}
	nths := []int{1, 3}
	modes := []bool{false}
	if !run.Quick() {
		nths = []int{1, 2, 3}
		modes = []bool{false, true}
	}
	for _, p := range svc.Protocols {
		for pi, pr := range progs {
			for _, pt := range c15Points {
				for _, n := range nths {
					for _, dl := range modes {
						for _, h2 := range []bool{true, false} {
							if !h2 && (!pr.h1 || run.Quick()) {
								continue
							}
							out = append(out, c15Case{http2: h2, proto: p, kind: pr.kind, ops: pr.ops, handler: pr.handler, deadline: dl,
								name: fmt.Sprintf("prog%d-at-%s-%d", pi, pt, n), point: pt, nth: n})
						}
					}
				}
			}
		}
	}
	return out
}

// ctxSwapIcept passes a context of the harness' choosing down the chain.
type ctxSwapIcept struct{ ctx context.Context }

func (i ctxSwapIcept) WrapUnary(next connect.UnaryFunc) connect.UnaryFunc {
	return func(_ context.Context, req connect.AnyRequest) (connect.AnyResponse, error) {
		if !req.Spec().IsClient {
			panic("client interceptor on a handler")
		}
		return next(i.ctx, req)
	}
}
func (i ctxSwapIcept) WrapStreamingClient(next connect.StreamingClientFunc) connect.StreamingClientFunc {
	return func(_ context.Context, spec connect.Spec) connect.StreamingClientConn {
		return next(i.ctx, spec)
	}
}
func (i ctxSwapIcept) WrapStreamingHandler(next connect.StreamingHandlerFunc) connect.StreamingHandlerFunc {
	return next
}

func c15(run *ev.Run) int {
	run.SetRule("instants = cancellation or deadline expiry before every operation of a bidi base program, before/between/after the operations of the typed unary, client-stream and server-stream APIs, and - triggered from a second goroutine once the operation has been blocked for 60 ms - inside a blocked Send (peer not reading), Receive (peer waiting; also mid-message with only part of an envelope delivered, mid-prefix with two of the five prefix bytes delivered, and while draining a message above the read limit; each of these also with a body decorator that returns its last byte together with the error), CloseAndReceive, unary call and CloseResponse; and inside the library: at the n-th time (n=1, thorough 1..3) the HTTP call reaches each of its 8 instrumented yield points (before the pipe write, closing the write side, before/after the HTTP round trip, after response validation, before a body read, before the drain in CloseResponse, before SetError closes the pipe), one case at a time; x 3 protocols x HTTP/1.1 + HTTP/2 x {cancel, deadline} x {the application's context, a context installed by a client interceptor}; handlers block on their own ctx.Done() so they are still running at the instant; plus calls a peer announces with a timeout of zero (every unit) while its own context is alive; oracle: every operation failing after the instant has code canceled / deadline_exceeded (Send may return an error wrapping io.EOF), Receive never ends cleanly and - called after an instant the program itself produced - never delivers a message, unary never succeeds, handler context done (HTTP/2), every op returns (watchdog); distinct by (HTTP version, protocol, kind, instant, mode)")
	run.Assume("on HTTP/1.1 net/http propagates a client disconnect to the handler context only after the request body was read; the handler-context clause is enforced on HTTP/2 and counted when observed on HTTP/1.1")
	reg := svc.NewRegistry()
	hs := svc.Handlers(reg)
	mux := svc.Mux(hs)
	front := http.HandlerFunc(func(w http.ResponseWriter, req *http.Request) {
		if req.Header.Get("X-Verif-Partial") != "" {
			// a response that stops in the middle of a message and then stalls
			_, _ = io.Copy(io.Discard, req.Body)
			ct := req.Header.Get("Content-Type")
			w.Header().Set("Content-Type", ct)
			if req.Header.Get("X-Verif-Partial") == "prefix" {
				// one complete message, then two of the five prefix bytes of the next
				_, _ = w.Write([]byte{0, 0, 0, 0, 2, 0x08, 0x01, 0, 0})
			} else if strings.HasPrefix(ct, "application/grpc") || strings.HasPrefix(ct, "application/connect+") {
				_, _ = w.Write([]byte{0, 0, 0, 0, 100, 1, 2, 3, 4, 5, 6, 7, 8, 9, 10})
			} else {
				// unary Connect: the first half of a message, then silence
				_, _ = w.Write([]byte{0x1a, 100, 'h', 'a', 'l', 'f'})
			}
			if f, ok := w.(http.Flusher); ok {
				f.Flush()
			}
			select {
			case <-req.Context().Done():
			case <-time.After(20 * time.Second):
			}
			return
		}
		if mode := req.Header.Get("X-Verif-Server-End"); mode != "" {
			// the server ends the handler's context itself
			var ctx context.Context
			var cancel context.CancelFunc
			if mode == "deadline" {
				ctx, cancel = context.WithTimeout(req.Context(), 80*time.Millisecond)
			} else {
				ctx, cancel = context.WithCancel(req.Context())
				go func() { time.Sleep(80 * time.Millisecond); cancel() }()
			}
			defer cancel()
			req = req.WithContext(ctx)
		}
		mux.ServeHTTP(w, req)
	})
	srv := svc.NewServerWith(reg, hs, front)
	defer srv.Close()
	cases := c15Cases(run)
	reps := run.Pick(1, 6)
	var total int64
	parallel(12, len(cases)*reps, func(i int) {
		c := cases[i%len(cases)]
		if !run.Want(c.key()) || run.Saturated() {
			return
		}
		atomic.AddInt64(&total, 1)
		c15Run(run, srv, c)
	})
	// instants inside the library: one case at a time (the yield hook is global)
	for _, c := range c15PointCases(run) {
		if !run.Want(c.key()) || run.Saturated() {
			continue
		}
		c15Run(run, srv, c)
	}
	c15ZeroTimeout(run, srv)
	serverPanicCheck(run, srv, "c15")
	return run.Finish("cases", "ops.after_instant.checked", "handler_ctx.checked", "blocked_op.cancelled", "internal_point.instants")
}

func c15Run(run *ev.Run, srv *svc.Server, c c15Case) {
	key := c.key()
	wantCode := connect.CodeCanceled
	if c.deadline {
		wantCode = connect.CodeDeadlineExceeded
	}
	var prog *svc.Program
	partial := c.handler == "partial"
	serverSide := c.handler == "server-side"
	switch {
	case partial:
		prog = &svc.Program{}
	case serverSide:
		prog = &svc.Program{Steps: []svc.Step{{Op: "recv"}, {Op: "waitctx"}}, ReturnCtxErr: true}
	default:
		prog = c15Handler(c.handler)
	}
	call := srv.Reg.New("c15", prog)
	defer srv.Reg.Drop(call)
	cs := srv.Clients(c.http2, svc.ProtoOpts(c.proto, "proto")...)
	defer cs.Tap.Forget(call.ID)
	if partial {
		// route to the raw partial-message responder
		mode := "1"
		if strings.Contains(c.name, "mid-prefix") {
			mode = "prefix"
		}
		opts := append(svc.ProtoOpts(c.proto, "proto"), connect.WithInterceptors(headerIcept{"X-Verif-Partial", mode}))
		if strings.Contains(c.name, "draining-oversize") {
			opts = append(opts, connect.WithReadMaxBytes(50)) // the responder declares 100 bytes
		}
		cs = srv.Clients(c.http2, opts...)
		if strings.Contains(c.name, "bytes-and-error-together") {
			_, base, tapN := srv.HTTPClient(c.http2)
			tapH := wire.NewTap(tapN.Next)
			tapH.HoldBack = true
			cs = svc.NewClientSet(&http.Client{Transport: tapH}, base, opts...)
			cs.Tap = tapH
			run.Count("blocked_op.bytes_and_error_together", 1)
		}
	}
	if serverSide {
		mode := "cancel"
		if c.deadline {
			mode = "deadline"
		}
		cs = srv.Clients(c.http2, append(svc.ProtoOpts(c.proto, "proto"), connect.WithInterceptors(headerIcept{"X-Verif-Server-End", mode}))...)
	}
	// the instant
	var instant time.Time
	var instantMu sync.Mutex
	mark := func() {
		instantMu.Lock()
		if instant.IsZero() {
			instant = time.Now()
		}
		instantMu.Unlock()
	}
	base, cancel := context.WithCancel(context.Background())
	defer cancel()
	var ctx context.Context = base
	fire := func() { cancel(); mark() }
	if c.deadline {
		// expiry: a context whose deadline we make pass at the chosen instant
		dctx := &deadlineCtx{Context: base, done: make(chan struct{})}
		fire = func() { dctx.expire(); mark() }
		ctx = dctx
	}
	hookOp := ""
	var ops []string
	for _, o := range c.ops {
		if strings.HasPrefix(o, "HOOK:") {
			hookOp = strings.TrimPrefix(o, "HOOK:")
			ops = append(ops, hookOp)
		} else {
			ops = append(ops, o)
		}
	}
	if c.swap {
		// the application's context never ends; the interceptor's does
		extra := []connect.ClientOption{connect.WithInterceptors(ctxSwapIcept{ctx})}
		if partial {
			mode := "1"
			if strings.Contains(c.name, "mid-prefix") {
				mode = "prefix"
			}
			extra = append(extra, connect.WithInterceptors(headerIcept{"X-Verif-Partial", mode}))
		}
		cs = srv.Clients(c.http2, append(svc.ProtoOpts(c.proto, "proto"), extra...)...)
		ctx = context.Background()
	}
	sd := &scripted{cs: cs, kind: c.kind, callID: call.ID, ctx: ctx, cancel: fire, timeout: 15 * time.Second, handlerDone: call.Log.Finished}
	hooked := int32(0)
	if hookOp != "" {
		// vary how long the operation has been blocked when the instant comes
		sd.blockAfter = time.Duration(20+len(key)%5*40) * time.Millisecond
		seenR := 0
		sd.blockedHook = func(op string) {
			// fire once, in the first matching op that stays blocked
			if (op == hookOp || (hookOp == "R" && op == "R")) && atomic.CompareAndSwapInt32(&hooked, 0, 1) {
				_ = seenR
				fire()
			}
		}
	}
	if c.point != "" {
		var hits int32
		connect.VerifSetYield(func(point string) {
			if point == c.point && atomic.AddInt32(&hits, 1) == int32(c.nth) {
				instantMu.Lock()
				first := instant.IsZero()
				instantMu.Unlock()
				if first {
					run.Count("internal_point.instants", 1)
					run.Count("internal_point."+c.point, 1)
				}
				fire()
			}
		})
	}
	cr := sd.run(ops)
	if c.point != "" {
		connect.VerifSetYield(nil)
	}
	run.Count("cases", 1)
	if cr.Slow {
		call.ReleaseNow()
		return
	}
	run.Eval(fmt.Sprintf("h2=%v|%s|%s|%s|%s|deadline=%v|interceptor-context=%v", c.http2, c.proto, c.kind, c.handler, c.name, c.deadline, c.swap))
	detail := map[string]any{"case": key, "program": c.ops, "ops": describeOps(cr)}
	defer call.ReleaseNow()
	for _, o := range cr.Ops {
		if !o.Returned {
			detail["goroutines"] = trunc(o.Dump, 30000)
			run.Violation(key+"/hang", fmt.Sprintf("operation %s did not return within 15 s of the cancellation/expiry", o.Op), detail)
			return
		}
	}
	if serverSide {
		// the client's context is alive; the handler returned its own context's
		// error, which must reach the client with the same classification
		run.Count("server_side_context_end.checked", 1)
		var term error
		for _, o := range cr.Ops {
			if o.Err != nil && !errors.Is(o.Err, io.EOF) && (o.Op == "CALL" || o.Op == "CAR" || o.Op == "R") {
				term = o.Err
				break
			}
		}
		if c.kind == svc.ServerStream && term == nil {
			for _, o := range cr.Ops {
				if o.Op == "R" && o.Err != nil {
					term = o.Err
				}
			}
		}
		if connect.CodeOf(term) != wantCode || term == nil {
			run.Violation(key+"/classification", fmt.Sprintf("the handler returned its context's error (%v), the client received %v", wantCode, term), detail)
		}
		return
	}
	instantMu.Lock()
	at := instant
	instantMu.Unlock()
	if at.IsZero() {
		run.Inconclusive("the chosen operation never blocked, the instant did not occur")
		return
	}
	if hookOp != "" && c.point == "" {
		run.Count("blocked_op.cancelled", 1)
	}
	// judge every operation that started after the instant, and the operation
	// that was in flight at the instant
	sendEOF := false
	for oi, o := range cr.Ops {
		if o.Op == "X" || o.Op == "WH" || o.After.Before(at) {
			continue
		}
		if o.Err == nil && o.Op == "R" && cr.CancelIdx >= 0 && oi > cr.CancelIdx+1 {
			// The program itself ended the context (synchronously) before it
			// called this Receive: "never success". Every read of the library
			// checks the context first, so messages that had already arrived are
			// not handed out any more either.
			run.Violation(key+"/receive-after-instant", "a Receive called after the context was done delivered a message", detail)
			return
		}
		if o.Err == nil {
			// still succeeding on buffered data is not a refutation - except for
			// the calls that mean "the RPC completed"
			if o.At.After(at) && (o.Op == "CALL" && c.kind == svc.Unary || o.Op == "CAR") {
				run.Violation(key+"/success-after-instant", fmt.Sprintf("%s started after the context was done and reported success", o.Op), detail)
				return
			}
			continue
		}
		run.Count("ops.after_instant.checked", 1)
		isSend := o.Op == "S" || o.Op == "Sbig" || o.Op == "Sfill"
		if isSend && errors.Is(o.Err, io.EOF) {
			sendEOF = true
			continue
		}
		if errors.Is(o.Err, io.EOF) && (o.Op == "R") {
			run.Violation(key+"/clean-end", "Receive ended cleanly (io.EOF) after the context was done while the handler was still running", detail)
			return
		}
		var ce *connect.Error
		if !errors.As(o.Err, &ce) || ce.Code() != wantCode {
			detail["failing_op"] = o.Op
			run.Violation(key+"/code", fmt.Sprintf("%s failed after the context was done with %q; every such failure must carry code %v", o.Op, trunc(o.Err.Error(), 160), wantCode), detail)
			return
		}
	}
	_ = sendEOF
	// the handler's context
	if !partial && atomic.LoadInt32(&call.Log.Invocations) > 0 {
		select {
		case <-call.Log.Finished:
		case <-time.After(4 * time.Second):
		}
		done := false
		select {
		case <-call.Log.Finished:
			done = call.Log.CtxDone
		default:
		}
		if c.http2 {
			run.Count("handler_ctx.checked", 1)
			if !done {
				run.Violation(key+"/handler-context", "the handler's context was not cancelled within 4 s of the client's cancellation/expiry", detail)
				return
			}
		} else if done {
			run.Count("handler_ctx.checked", 1)
		} else {
			run.Inconclusive("HTTP/1.1: handler context not cancelled (net/http limitation before the body is consumed)")
		}
	}
	if hookOp != "" || c.name == "instant-before-op-3" {
		run.Sample(map[string]any{"case": key, "ops": describeOps(cr)})
	}
}

// headerIcept adds a request header on the client side.
type headerIcept struct{ k, v string }

func (h headerIcept) WrapUnary(next connect.UnaryFunc) connect.UnaryFunc {
	return func(ctx context.Context, req connect.AnyRequest) (connect.AnyResponse, error) {
		if req.Spec().IsClient {
			req.Header().Set(h.k, h.v)
		}
		return next(ctx, req)
	}
}
func (h headerIcept) WrapStreamingClient(next connect.StreamingClientFunc) connect.StreamingClientFunc {
	return func(ctx context.Context, spec connect.Spec) connect.StreamingClientConn {
		conn := next(ctx, spec)
		conn.RequestHeader().Set(h.k, h.v)
		return conn
	}
}
func (h headerIcept) WrapStreamingHandler(next connect.StreamingHandlerFunc) connect.StreamingHandlerFunc {
	return next
}

// deadlineCtx is a context whose deadline can be made to pass at a chosen
// instant: Err() turns into context.DeadlineExceeded and Done() closes, exactly
// what a context.WithDeadline context does when its deadline passes.
type deadlineCtx struct {
	context.Context
	mu      sync.Mutex
	done    chan struct{}
	expired bool
}

func (d *deadlineCtx) Deadline() (time.Time, bool) { return time.Now().Add(time.Hour), true }
func (d *deadlineCtx) Done() <-chan struct{}       { return d.done }
func (d *deadlineCtx) Err() error {
	d.mu.Lock()
	defer d.mu.Unlock()
	if d.expired {
		return context.DeadlineExceeded
	}
	return d.Context.Err()
}
func (d *deadlineCtx) expire() {
	d.mu.Lock()
	if !d.expired {
		d.expired = true
		close(d.done)
	}
	d.mu.Unlock()
}

// c15ZeroTimeout: a peer whose own context is still alive announces a timeout
// of zero (a proxy that has used up the budget, another implementation, a
// hand-set header). The call's time is up before it starts: the handler's
// context is already done and the client is told deadline_exceeded - it never
// runs without a deadline.
func c15ZeroTimeout(run *ev.Run, srv *svc.Server) {
	type zt struct{ proto, header, value string }
	var zts []zt
	for _, v := range []string{"0n", "0u", "0m", "0S", "0M", "0H", "00000000n"} {
		zts = append(zts, zt{"grpc", "Grpc-Timeout", v}, zt{"grpcweb", "Grpc-Timeout", v})
	}
	zts = append(zts, zt{"connect", "Connect-Timeout-Ms", "0"}, zt{"connect", "Connect-Timeout-Ms", "0000000000"})
	for _, z := range zts {
		for _, kind := range []svc.Kind{svc.Unary, svc.ServerStream, svc.ClientStream} {
			for _, h2 := range []bool{true, false} {
				key := fmt.Sprintf("c15/zero-timeout/h2=%v/%s/%s/%s", h2, z.proto, kind, z.value)
				if !run.Want(key) || run.Saturated() {
					continue
				}
				prog := &svc.Program{Steps: []svc.Step{{Op: "recv"}, {Op: "waitctx"}}, ReturnCtxErr: true}
				call := srv.Reg.New("c15z", prog)
				cs := srv.Clients(h2, append(svc.ProtoOpts(z.proto, "proto"), connect.WithInterceptors(headerIcept{z.header, z.value}))...)
				var cl *svc.CLog
				ok, _ := watchdog(10*time.Second, func() { cl = cs.Do(context.Background(), kind, call.ID, nil, []*gen.Msg{{Id: 1}}) })
				call.ReleaseNow()
				srv.Reg.Drop(call)
				cs.Tap.Forget(call.ID)
				run.Count("cases", 1)
				run.Count("zero_timeout.cases", 1)
				run.Eval(fmt.Sprintf("zero-timeout|h2=%v|%s|%s|%s", h2, z.proto, kind, z.value))
				detail := map[string]any{"protocol": z.proto, "kind": kind.String(), "header": z.header + ": " + z.value, "http2": h2}
				if !ok {
					run.Violation(key+"/runs-unbounded", "a call announced with a timeout of zero was still running after 10 s: its handler has no deadline", detail)
					continue
				}
				detail["client_err"] = errStr(cl.Err)
				if connect.CodeOf(cl.Err) != connect.CodeDeadlineExceeded || cl.Err == nil {
					run.Violation(key+"/code", fmt.Sprintf("a call announced with a timeout of zero ended with %v, want deadline_exceeded", cl.Err), detail)
				}
			}
		}
	}
}
