package checks

import (
	"context"
	"fmt"
	"math"
	"math/big"
	"net/http"
	"regexp"
	"strings"
	"sync"
	"time"

	connect "github.com/bufbuild/connect-go"
	"verif.local/harness/ev"
	"verif.local/harness/gen"
	"verif.local/harness/refcodec"
	"verif.local/harness/svc"
	"verif.local/harness/wire"
)

func init() { register("C10", "exploration", c10) }

func timeoutHeader(protocol string) string {
	if protocol == "connect" {
		return "Connect-Timeout-Ms"
	}
	return "Grpc-Timeout"
}

// c10Durations: every unit x digit-count boundary plus random durations.
func c10Durations(run *ev.Run, nrand int) []time.Duration {
	var out []time.Duration
	units := []time.Duration{time.Millisecond, time.Second, time.Minute, time.Hour}
	for _, u := range units {
		p := int64(1)
		for k := 0; k <= 18; k++ {
			for _, delta := range []int64{-1, 0, 1} {
				v := p + delta
				if v <= 0 || v > math.MaxInt64/int64(u) {
					continue
				}
				out = append(out, time.Duration(v)*u)
			}
			if p > math.MaxInt64/10 {
				break
			}
			p *= 10
		}
	}
	// around the Connect 10-digit limit and the int64 limit
	lim := time.Duration(9999999999) * time.Millisecond
	out = append(out, lim-time.Hour, lim-time.Minute, lim+time.Minute, lim+time.Hour, 2*lim, time.Duration(math.MaxInt64), time.Duration(math.MaxInt64)-time.Hour,
		100*365*24*time.Hour, 116*24*time.Hour, 115*24*time.Hour)
	r := run.Rand("c10-durations")
	for i := 0; i < nrand; i++ {
		bits := 27 + r.Intn(37) // >= ~134 ms
		v := r.Int63() >> uint(63-bits)
		out = append(out, time.Duration(v))
	}
	var keep []time.Duration
	for _, d := range out {
		if d >= 200*time.Millisecond { // shorter ones may expire before the request is built
			keep = append(keep, d)
		}
	}
	return keep
}

var connectTimeoutRE = regexp.MustCompile(`^[0-9]{1,10}$`)
var grpcTimeoutRE = regexp.MustCompile(`^[0-9]{1,8}[HMSmun]$`)

func c10(run *ev.Run) int {
	run.SetRule("(a) client encoding: durations at every unit x digit-count boundary, around the Connect 10-digit and int64 limits, and seeded log-uniform random ones x 3 protocols x kinds; header recorded at HTTPClient.Do, bounds from the interval measured around the call; (b) handler parsing: grammatical strings for every unit x 1..8 digits, dense random 8-digit hour values (runtime overflow region), near-grammatical and random strings, ctx.Deadline() recorded in the handler, bounds from the measured interval; (c) end to end through the loopback; (d) in-package sweep of the pinned pure encoder/parser (no clock); distinct by (part, protocol, unit, digit count / string class); also: a client interceptor installing a 7 s context under a caller with 1 h / no deadline (4 kinds); history: half of the client cases through one long-lived client per protocol")
	run.Assume("durations under 200 ms are not used for the client-encoding part (the deadline may pass before the request is built); sign prefixes and over-long all-leading-zero strings are don't-care inputs")
	c10ClientEncoding(run)
	c10HandlerParsing(run)
	c10EndToEnd(run)
	run.MergeInpkg("C10 pure encoder/parser sweep")
	return run.Finish("client.headers.checked", "handler.deadlines.checked", "handler.malformed.rejected", "e2e.calls")
}

func c10ClientEncoding(run *ev.Run) {
	durs := c10Durations(run, run.Pick(600, 20000))
	type rec struct {
		hdr  http.Header
		t1   time.Time
		seen bool
	}
	// Every other case goes through a client shared by all cases of its protocol
	// (one long-lived client serving calls with deadlines of every magnitude, in
	// whatever order the 16 workers get to them); the others use a fresh client.
	var sharedGot sync.Map // call id -> rec
	shared := map[string]*svc.ClientSet{}
	for _, p := range svc.Protocols {
		cn := &wire.Canned{Background: true, Respond: func(req *http.Request, _ []byte) (*http.Response, error) {
			sharedGot.Store(req.Header.Get(wire.CallHeader), rec{hdr: req.Header.Clone(), t1: time.Now(), seen: true})
			return nil, fmt.Errorf("verif: stop here")
		}}
		shared[p] = svc.NewClientSet(cn, "http://verif.local", svc.ProtoOpts(p, "proto")...)
	}
	parallel(16, len(durs), func(i int) {
		d := durs[i]
		protocol := svc.Protocols[i%3]
		kind := []svc.Kind{svc.Unary, svc.ServerStream, svc.ClientStream, svc.Bidi}[(i/3)%4]
		key := fmt.Sprintf("c10/client/%s/%s/d=%d", protocol, kind, int64(d))
		if !run.Want(key) {
			return
		}
		var mu sync.Mutex
		var got rec
		useShared := i%2 == 0 && !run.Replaying()
		cn := &wire.Canned{Background: true, Respond: func(req *http.Request, _ []byte) (*http.Response, error) {
			mu.Lock()
			got = rec{hdr: req.Header.Clone(), t1: time.Now(), seen: true}
			mu.Unlock()
			return nil, fmt.Errorf("verif: stop here")
		}}
		cs := svc.NewClientSet(cn, "http://verif.local", svc.ProtoOpts(protocol, "proto")...)
		callID := "x"
		if useShared {
			cs = shared[protocol]
			callID = fmt.Sprintf("shared-%d", i)
		}
		t0 := time.Now()
		ctx, cancel := context.WithDeadline(context.Background(), t0.Add(d))
		_ = cs.Do(ctx, kind, callID, nil, []*gen.Msg{{Id: 1}})
		cancel()
		mu.Lock()
		g := got
		mu.Unlock()
		if useShared {
			if v, ok := sharedGot.LoadAndDelete(callID); ok {
				g = v.(rec)
			}
			run.Count("client.headers.shared_client", 1)
		}
		if !g.seen {
			run.Inconclusive("client request never reached the transport")
			return
		}
		elapsed := g.t1.Sub(t0)
		name := timeoutHeader(protocol)
		vals := g.hdr.Values(name)
		run.Count("client.headers.checked", 1)
		D := big.NewInt(int64(d))
		lower := new(big.Int).Sub(D, big.NewInt(int64(elapsed))) // remaining time at encoding was >= this
		detail := map[string]any{"protocol": protocol, "kind": kind.String(), "deadline_in_ns": int64(d), "header": vals, "elapsed_until_transport_ns": int64(elapsed), "client_shared_with_other_cases": useShared}
		digits := len(fmt.Sprint(int64(d) / 1e6))
		run.Eval(fmt.Sprintf("client|%s|%s|ms-digits=%d", protocol, kind, digits))
		if len(vals) > 1 {
			run.Violation(key+"/multiple", "more than one timeout header", detail)
			return
		}
		if protocol == "connect" {
			// remaining ms at encoding is in [floor(lower/1e6), floor(d/1e6)]
			hiMs := new(big.Int).Div(D, big.NewInt(1e6))
			loMs := new(big.Int).Div(lower, big.NewInt(1e6))
			tooBigHi := len(hiMs.String()) > 10
			tooBigLo := len(loMs.String()) > 10
			if len(vals) == 0 {
				if !tooBigHi {
					run.Violation(key+"/missing", "client has a deadline expressible in 10 digits of milliseconds but sent no Connect-Timeout-Ms", detail)
				}
				return
			}
			if tooBigLo {
				run.Violation(key+"/truncated", "remaining time needs more than 10 digits of milliseconds; it must be sent as no timeout, not as "+vals[0], detail)
				return
			}
			if !connectTimeoutRE.MatchString(vals[0]) {
				run.Violation(key+"/grammar", "Connect-Timeout-Ms outside the grammar: "+vals[0], detail)
				return
			}
			ms, _ := refcodec.ParseConnectTimeout(vals[0])
			T := new(big.Int).Mul(new(big.Int).SetUint64(ms), big.NewInt(1e6))
			if T.Cmp(D) > 0 {
				run.Violation(key+"/longer", fmt.Sprintf("timeout sent (%s ms) is longer than the time remaining (%d ns)", vals[0], int64(d)), detail)
				return
			}
			min := new(big.Int).Sub(lower, big.NewInt(1e6))
			if T.Cmp(min) < 0 {
				run.Violation(key+"/shorter", fmt.Sprintf("timeout sent (%s ms) is shorter than the time remaining by more than one millisecond (remaining >= %s ns)", vals[0], lower), detail)
			}
			return
		}
		if len(vals) == 0 {
			run.Violation(key+"/missing", "client has a deadline but sent no Grpc-Timeout", detail)
			return
		}
		if !grpcTimeoutRE.MatchString(vals[0]) {
			run.Violation(key+"/grammar", "Grpc-Timeout outside the grammar: "+vals[0], detail)
			return
		}
		v, unit, _ := refcodec.ParseGRPCTimeout(vals[0])
		T := new(big.Int).Mul(new(big.Int).SetUint64(v), new(big.Int).SetUint64(unit))
		if T.Cmp(D) > 0 {
			run.Violation(key+"/longer", fmt.Sprintf("timeout sent (%s) is longer than the time remaining (%d ns)", vals[0], int64(d)), detail)
			return
		}
		// T >= lower*(1-1e-4) - 1ns   <=>  (T+1)*10000 >= lower*9999
		lhs := new(big.Int).Mul(new(big.Int).Add(T, big.NewInt(1)), big.NewInt(10000))
		rhs := new(big.Int).Mul(lower, big.NewInt(9999))
		if lhs.Cmp(rhs) < 0 {
			run.Violation(key+"/shorter", fmt.Sprintf("timeout sent (%s) is shorter than the time remaining by more than 0.01%% (remaining >= %s ns)", vals[0], lower), detail)
		}
		if i%97 == 0 {
			run.Sample(map[string]any{"part": "client", "protocol": protocol, "deadline_in": d.String(), "header": vals[0]})
		}
	})
	// a retrying client interceptor: the same request goes down the chain more
	// than once; every attempt's timeout must fit the time remaining *then*
	for _, protocol := range svc.Protocols {
		for _, total := range []time.Duration{3 * time.Second, 40 * time.Second} {
			key := fmt.Sprintf("c10/client-retry/%s/d=%d", protocol, int64(total))
			if !run.Want(key) {
				continue
			}
			type attempt struct {
				hdr []string
				t   time.Time
			}
			var mu sync.Mutex
			var attempts []attempt
			name := timeoutHeader(protocol)
			cn := &wire.Canned{Background: true, Respond: func(req *http.Request, _ []byte) (*http.Response, error) {
				mu.Lock()
				attempts = append(attempts, attempt{hdr: req.Header.Values(name), t: time.Now()})
				mu.Unlock()
				return nil, fmt.Errorf("verif: attempt fails")
			}}
			retry := connect.UnaryInterceptorFunc(func(next connect.UnaryFunc) connect.UnaryFunc {
				return func(ctx context.Context, req connect.AnyRequest) (connect.AnyResponse, error) {
					var res connect.AnyResponse
					var err error
					for a := 0; a < 3; a++ {
						if a > 0 {
							time.Sleep(180 * time.Millisecond)
						}
						if res, err = next(ctx, req); err == nil {
							break
						}
					}
					return res, err
				}
			})
			cs := svc.NewClientSet(cn, "http://verif.local", append(svc.ProtoOpts(protocol, "proto"), connect.WithInterceptors(retry))...)
			t0 := time.Now()
			ctx, cancel := context.WithDeadline(context.Background(), t0.Add(total))
			_ = cs.Do(ctx, svc.Unary, "x", nil, []*gen.Msg{{Id: 1}})
			cancel()
			mu.Lock()
			as := attempts
			mu.Unlock()
			run.Eval(fmt.Sprintf("client-retry|%s|attempts=%d", protocol, len(as)))
			detail := map[string]any{"protocol": protocol, "deadline_in_ns": int64(total)}
			if len(as) < 2 {
				run.Inconclusive("retry interceptor: fewer than two attempts reached the transport")
				continue
			}
			for k, a := range as {
				run.Count("client.headers.checked", 1)
				run.Count("client.retry.attempts", 1)
				if len(a.hdr) != 1 {
					detail["attempt"], detail["header"] = k+1, a.hdr
					run.Violation(key+"/header-count", fmt.Sprintf("attempt %d carries %d timeout headers", k+1, len(a.hdr)), detail)
					break
				}
				var T time.Duration
				if protocol == "connect" {
					ms, ok := refcodec.ParseConnectTimeout(a.hdr[0])
					if !ok {
						run.Violation(key+"/grammar", "timeout outside the grammar: "+a.hdr[0], detail)
						break
					}
					T = time.Duration(ms) * time.Millisecond
				} else {
					v, unit, ok := refcodec.ParseGRPCTimeout(a.hdr[0])
					if !ok {
						run.Violation(key+"/grammar", "timeout outside the grammar: "+a.hdr[0], detail)
						break
					}
					T = time.Duration(v * unit)
				}
				// the header of attempt k was written after attempt k-1 had reached
				// the transport, so at most this much time was left
				left := total
				if k > 0 {
					left = total - as[k-1].t.Sub(t0)
				}
				if T > left {
					detail["attempt"], detail["header"], detail["time_left_at_most_ns"] = k+1, a.hdr[0], int64(left)
					run.Violation(key+"/extended", fmt.Sprintf("attempt %d of a retried call announces a timeout of %v although at most %v were left: the deadline seen by the server moves out", k+1, T, left), detail)
					break
				}
			}
		}
	}
	// a client interceptor that installs its own context (a per-call budget
	// shorter than the caller's, or a deadline where the caller has none): the
	// announced timeout describes the context the call actually runs under
	for _, protocol := range svc.Protocols {
		for _, kind := range []svc.Kind{svc.Unary, svc.ServerStream, svc.ClientStream, svc.Bidi} {
			for _, callerHas := range []bool{true, false} {
				key := fmt.Sprintf("c10/client-icept-deadline/%s/%s/caller-deadline=%v", protocol, kind, callerHas)
				if !run.Want(key) {
					continue
				}
				const budget = 7 * time.Second
				ictx, icancel := context.WithTimeout(context.Background(), budget)
				var hdr http.Header
				cn := &wire.Canned{Background: true, Respond: func(req *http.Request, _ []byte) (*http.Response, error) {
					hdr = req.Header.Clone()
					return nil, fmt.Errorf("verif: stop here")
				}}
				cs := svc.NewClientSet(cn, "http://verif.local", append(svc.ProtoOpts(protocol, "proto"), connect.WithInterceptors(ctxSwapIcept{ctx: ictx}))...)
				ctx, cancel := context.Background(), func() {}
				if callerHas {
					ctx, cancel = context.WithTimeout(ctx, time.Hour)
				}
				_ = cs.Do(ctx, kind, "x", nil, []*gen.Msg{{Id: 1}})
				cancel()
				icancel()
				run.Eval(fmt.Sprintf("client-icept-deadline|%s|%s|%v", protocol, kind, callerHas))
				run.Count("client.headers.checked", 1)
				if hdr == nil {
					run.Inconclusive("interceptor deadline: no request reached the transport")
					continue
				}
				name := timeoutHeader(protocol)
				vals := hdr.Values(name)
				detail := map[string]any{"protocol": protocol, "kind": kind.String(), "caller_has_deadline": callerHas, "interceptor_budget_ns": int64(budget), "header": vals}
				if len(vals) != 1 {
					run.Violation(key+"/header-count", fmt.Sprintf("%d timeout headers on a call whose (interceptor-installed) context has a deadline", len(vals)), detail)
					continue
				}
				var T time.Duration
				if protocol == "connect" {
					ms, ok := refcodec.ParseConnectTimeout(vals[0])
					if !ok {
						run.Violation(key+"/grammar", "timeout outside the grammar: "+vals[0], detail)
						continue
					}
					T = time.Duration(ms) * time.Millisecond
				} else {
					v, unit, ok := refcodec.ParseGRPCTimeout(vals[0])
					if !ok {
						run.Violation(key+"/grammar", "timeout outside the grammar: "+vals[0], detail)
						continue
					}
					T = time.Duration(v * unit)
				}
				if T > budget {
					run.Violation(key+"/extended", fmt.Sprintf("the call runs under a context with %v left, the request announces %v", budget, T), detail)
				}
			}
		}
	}
	// sliding deadlines: a context whose deadline is always a fixed (tiny)
	// distance ahead, so that the remaining time at encoding is known exactly
	// without racing the clock
	for _, rem := range []time.Duration{1, 500, 300 * time.Microsecond, 999 * time.Microsecond, time.Millisecond, time.Millisecond + 1, 1500 * time.Microsecond, 2*time.Millisecond - 1, 59999 * time.Microsecond} {
		for _, protocol := range svc.Protocols {
			for _, kind := range []svc.Kind{svc.Unary, svc.ServerStream} {
				key := fmt.Sprintf("c10/client-sliding/%s/%s/rem=%d", protocol, kind, int64(rem))
				if !run.Want(key) {
					continue
				}
				var hdr http.Header
				cn := &wire.Canned{Background: true, Respond: func(req *http.Request, _ []byte) (*http.Response, error) {
					hdr = req.Header.Clone()
					return nil, fmt.Errorf("verif: stop here")
				}}
				cs := svc.NewClientSet(cn, "http://verif.local", svc.ProtoOpts(protocol, "proto")...)
				_ = cs.Do(slidingCtx{Context: context.Background(), ahead: rem}, kind, "x", nil, []*gen.Msg{{Id: 1}})
				run.Eval(fmt.Sprintf("client|%s|%s|sliding-sub-ms", protocol, kind))
				run.Count("client.headers.checked", 1)
				if hdr == nil {
					run.Inconclusive("client request never reached the transport")
					continue
				}
				v := hdr.Get(timeoutHeader(protocol))
				detail := map[string]any{"protocol": protocol, "kind": kind.String(), "remaining_ns": int64(rem), "header": v}
				if v == "" {
					continue // nothing sent: cannot be longer than the time remaining
				}
				var T *big.Int
				if protocol == "connect" {
					ms, ok := refcodec.ParseConnectTimeout(v)
					if !ok {
						run.Violation(key+"/grammar", "Connect-Timeout-Ms outside the grammar: "+v, detail)
						continue
					}
					T = new(big.Int).Mul(new(big.Int).SetUint64(ms), big.NewInt(1e6))
				} else {
					n, unit, ok := refcodec.ParseGRPCTimeout(v)
					if !ok {
						run.Violation(key+"/grammar", "Grpc-Timeout outside the grammar: "+v, detail)
						continue
					}
					T = new(big.Int).Mul(new(big.Int).SetUint64(n), new(big.Int).SetUint64(unit))
				}
				if T.Cmp(big.NewInt(int64(rem))) > 0 {
					run.Violation(key+"/longer", fmt.Sprintf("timeout sent (%s) is longer than the %v that remained", v, rem), detail)
				}
			}
		}
	}
	// no deadline => no header
	for _, protocol := range svc.Protocols {
		for _, kind := range svc.Kinds {
			var hdr http.Header
			cn := &wire.Canned{Background: true, Respond: func(req *http.Request, _ []byte) (*http.Response, error) {
				hdr = req.Header.Clone()
				return nil, fmt.Errorf("verif: stop here")
			}}
			cs := svc.NewClientSet(cn, "http://verif.local", svc.ProtoOpts(protocol, "proto")...)
			_ = cs.Do(context.Background(), kind, "x", nil, []*gen.Msg{{Id: 1}})
			run.Eval(fmt.Sprintf("client|%s|%s|no-deadline", protocol, kind))
			run.Count("client.headers.checked", 1)
			if hdr != nil && (hdr.Get("Grpc-Timeout") != "" || hdr.Get("Connect-Timeout-Ms") != "") {
				run.Violation(fmt.Sprintf("c10/client/%s/%s/no-deadline", protocol, kind), "client without a deadline sent a timeout header", hdr)
			}
		}
	}
}

// c10Serve runs one request with the given timeout header through the handler
// and reports the handler's deadline.
func c10Serve(protocol string, kind svc.Kind, value *string) (hl *svc.HLog, res *wire.Result, b time.Time) {
	reg := svc.NewRegistry()
	hs := svc.Handlers(reg)
	call := reg.New("c10", &svc.Program{Steps: []svc.Step{{Op: "recvall"}, {Op: "sendsum"}}})
	hdr := http.Header{"Content-Type": {contentType(protocol, "proto", kind)}, wire.CallHeader: {call.ID}}
	if value != nil {
		hdr[timeoutHeader(protocol)] = []string{*value}
	}
	body := refcodec.AppendFrame(nil, 0, encMsg("proto", &gen.Msg{Id: 1}))
	if protocol == "connect" && kind == svc.Unary {
		body = encMsg("proto", &gen.Msg{Id: 1})
	}
	rw := wire.NewRecorder()
	b = time.Now()
	hs[kind].ServeHTTP(rw, wire.ServerRequest(context.Background(), "POST", kind.Path(), hdr, &wire.ScriptedBody{Data: body}, 2))
	return call.Log, rw.Finish(), b
}

func c10HandlerParsing(run *ev.Run) {
	type tcase struct {
		protocol string
		value    *string
		class    string
	}
	var cases []tcase
	add := func(p, v, class string) { vv := v; cases = append(cases, tcase{p, &vv, class}) }
	r := run.Rand("c10-handler")
	for _, u := range "HMSmun" {
		for digits := 1; digits <= 8; digits++ {
			lo := int64(math.Pow10(digits - 1))
			for _, v := range []int64{lo, lo + 1, lo*10 - 1} {
				add([]string{"grpc", "grpcweb"}[r.Intn(2)], fmt.Sprintf("%d%c", v, u), fmt.Sprintf("grammatical-%c-%d", u, digits))
			}
		}
		add("grpc", fmt.Sprintf("0%c", u), "zero")
	}
	for i := 0; i < run.Pick(3000, 60000); i++ {
		add([]string{"grpc", "grpcweb"}[r.Intn(2)], fmt.Sprintf("%dH", 1+r.Int63n(99999999)), "random-hours")
	}
	for i := 0; i < run.Pick(500, 5000); i++ {
		add([]string{"grpc", "grpcweb"}[r.Intn(2)], fmt.Sprintf("%d%c", 1+r.Int63n(99999999), "MSmun"[r.Intn(5)]), "random-grammatical")
	}
	for digits := 1; digits <= 10; digits++ {
		lo := int64(math.Pow10(digits - 1))
		for _, v := range []int64{lo, lo + 1, lo*10 - 1} {
			add("connect", fmt.Sprint(v), fmt.Sprintf("grammatical-ms-%d", digits))
		}
	}
	add("connect", "0", "zero")
	for _, s := range badTimeoutsGRPC {
		add("grpc", s, "malformed")
		add("grpcweb", s, "malformed")
	}
	for _, s := range []string{"5SS", "S5", "nn", "1_0S", "1e3S", "5\tS", "999999999n", "100000000u"} {
		add("grpc", s, "malformed")
	}
	for _, s := range badTimeoutsConnect {
		add("connect", s, "malformed")
	}
	for _, s := range []string{"10000000000", "99999999999", "1,5", "1_0", "0b1"} {
		add("connect", s, "malformed")
	}
	alphabet := "0123456789HMSmun .eE_x"
	for i := 0; i < run.Pick(2000, 50000); i++ {
		n := 1 + r.Intn(11)
		b := make([]byte, n)
		for j := range b {
			b[j] = alphabet[r.Intn(len(alphabet))]
		}
		add(svc.Protocols[r.Intn(3)], strings.TrimSpace(string(b)), "random-string")
	}
	for _, p := range svc.Protocols {
		cases = append(cases, tcase{p, nil, "absent"})
	}
	leadingZeros := regexp.MustCompile(`^0+[0-9]+[HMSmun]?$`)
	parallel(16, len(cases), func(i int) {
		c := cases[i]
		kind := svc.Kinds[i%4]
		val := "<absent>"
		if c.value != nil {
			val = *c.value
		}
		key := fmt.Sprintf("c10/handler/%s/%s/%q", c.protocol, kind, val)
		if !run.Want(key) {
			return
		}
		if c.value != nil && *c.value == "" {
			return
		}
		hl, res, b := c10Serve(c.protocol, kind, c.value)
		streamCT := !(c.protocol == "connect" && kind == svc.Unary)
		d := refcodec.DecodeResponse(c.protocol, streamCT, res.Status, res.Header, res.Body, res.Trailer, svc.RefAlgos())
		run.Eval(fmt.Sprintf("handler|%s|%s", c.protocol, c.class))
		detail := map[string]any{"protocol": c.protocol, "kind": kind.String(), "header_value": val, "class": c.class, "invocations": hl.Invocations, "has_deadline": hl.HasDeadline, "status": res.Status}
		if d.Err != nil {
			detail["response_error"] = refcodec.CodeName(d.Err.Code) + ": " + d.Err.Message
		}
		if c.value == nil {
			run.Count("handler.deadlines.checked", 1)
			if hl.Invocations != 1 || hl.HasDeadline {
				run.Violation(key+"/absent", "request without a timeout: handler context must have no deadline", detail)
			}
			return
		}
		var T *big.Int
		grammatical := false
		if c.protocol == "connect" {
			if ms, ok := refcodec.ParseConnectTimeout(*c.value); ok {
				grammatical = true
				T = new(big.Int).Mul(new(big.Int).SetUint64(ms), big.NewInt(1e6))
			}
		} else if v, unit, ok := refcodec.ParseGRPCTimeout(*c.value); ok {
			grammatical = true
			T = new(big.Int).Mul(new(big.Int).SetUint64(v), new(big.Int).SetUint64(unit))
		}
		if grammatical && kind == svc.Unary && hl.Invocations == 0 && T.IsInt64() && T.Int64() < int64(time.Second) && d.Err != nil && d.Err.Code == 4 {
			// the deadline had already passed when the unary wrapper looked at
			// the context: the library answers deadline_exceeded without running
			// user code, which honours the timeout
			run.Count("handler.deadlines.checked", 1)
			run.Count("handler.expired_before_entry", 1)
			return
		}
		if grammatical {
			run.Count("handler.deadlines.checked", 1)
			if hl.Invocations != 1 {
				run.Violation(key+"/grammatical-rejected", "a grammatical timeout was not honoured (user code did not run)", detail)
				return
			}
			if !T.IsInt64() {
				if hl.HasDeadline {
					detail["deadline_in"] = hl.Deadline.Sub(b).String()
					run.Violation(key+"/overflow", "a timeout beyond what the runtime can represent must be honoured as unbounded, handler got a finite deadline", detail)
				}
				return
			}
			if !hl.HasDeadline {
				run.Violation(key+"/no-deadline", "grammatical timeout but the handler context has no deadline", detail)
				return
			}
			t := time.Duration(T.Int64())
			lo, hi := b.Add(t), hl.Entered.Add(t)
			if hl.Deadline.Before(lo.Add(-time.Microsecond)) || hl.Deadline.After(hi.Add(time.Microsecond)) {
				detail["deadline_minus_request_start"] = hl.Deadline.Sub(b).String()
				detail["expected"] = t.String()
				run.Violation(key+"/inexact", fmt.Sprintf("handler deadline is %v after the request started, timeout was %v (handler entered after %v)", hl.Deadline.Sub(b), t, hl.Entered.Sub(b)), detail)
			}
			return
		}
		// don't-care classes: sign prefix, over-long with only leading zeros
		if strings.HasPrefix(*c.value, "+") || strings.HasPrefix(*c.value, "-") || leadingZeros.MatchString(*c.value) {
			run.Inconclusive("don't-care timeout string (sign / leading zeros)")
			return
		}
		run.Count("handler.malformed.rejected", 1)
		if hl.Invocations != 0 || d.Err == nil || d.Err.Code != 3 {
			run.Violation(key+"/malformed-accepted", fmt.Sprintf("malformed timeout %q was not rejected as invalid_argument without running user code", val), detail)
		}
		if i%211 == 0 {
			run.Sample(map[string]any{"part": "handler", "protocol": c.protocol, "value": val, "class": c.class})
		}
	})
}

func c10EndToEnd(run *ev.Run) {
	reg := svc.NewRegistry()
	hs := svc.Handlers(reg)
	lb := &wire.Loopback{Handler: svc.Mux(hs)}
	r := run.Rand("c10-e2e")
	for i := 0; i < run.Pick(300, 5000); i++ {
		protocol := svc.Protocols[r.Intn(3)]
		kind := svc.Kinds[r.Intn(4)]
		withDeadline := r.Intn(5) > 0
		d := time.Duration(1+r.Int63n(1<<uint(30+r.Intn(30)))) + 300*time.Millisecond
		cs := svc.NewClientSet(lb, "http://verif.local", svc.ProtoOpts(protocol, "proto")...)
		call := reg.New("e2e", &svc.Program{Steps: []svc.Step{{Op: "recvall"}, {Op: "sendsum"}}})
		t0 := time.Now()
		ctx := context.Background()
		cancel := func() {}
		if withDeadline {
			ctx, cancel = context.WithDeadline(ctx, t0.Add(d))
		}
		cl := cs.Do(ctx, kind, call.ID, nil, []*gen.Msg{{Id: 1}})
		cancel()
		reg.Drop(call)
		run.Count("e2e.calls", 1)
		run.Eval(fmt.Sprintf("e2e|%s|%s|deadline=%v", protocol, kind, withDeadline))
		hl := call.Log
		key := fmt.Sprintf("c10/e2e/%s/%s/i=%d", protocol, kind, i)
		detail := map[string]any{"protocol": protocol, "kind": kind.String(), "client_deadline_in": d.String(), "with_deadline": withDeadline, "client_err": errStr(cl.Err), "handler_has_deadline": hl.HasDeadline}
		if hl.Invocations != 1 {
			run.Violation(key+"/not-invoked", "handler did not run", detail)
			continue
		}
		if !withDeadline {
			if hl.HasDeadline {
				run.Violation(key+"/spurious-deadline", "client had no deadline but the handler context has one", detail)
			}
			continue
		}
		tooBig := protocol == "connect" && d/time.Millisecond > 9999999999
		if !hl.HasDeadline {
			if !tooBig {
				run.Violation(key+"/lost", "client deadline did not reach the handler", detail)
			}
			continue
		}
		cd := t0.Add(d)
		transit := hl.Entered.Sub(t0)
		gran := time.Millisecond
		if protocol != "connect" {
			gran = time.Duration(float64(d)*1e-4) + 1
		}
		detail["handler_minus_client_deadline"] = hl.Deadline.Sub(cd).String()
		detail["transit"] = transit.String()
		if hl.Deadline.After(cd.Add(transit + time.Microsecond)) {
			run.Violation(key+"/extended", "handler deadline is later than the client's deadline by more than the measured transit time", detail)
		}
		if hl.Deadline.Before(cd.Add(-transit - gran - time.Microsecond)) {
			run.Violation(key+"/shortened", "handler deadline is earlier than the client's by more than the encoding granularity plus the measured transit time", detail)
		}
	}
}

// slidingCtx never expires; its deadline is always `ahead` from now.
type slidingCtx struct {
	context.Context
	ahead time.Duration
}

func (c slidingCtx) Deadline() (time.Time, bool) { return time.Now().Add(c.ahead), true }
