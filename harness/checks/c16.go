package checks

import (
	"context"
	"errors"
	"fmt"
	"net/http"
	"strings"
	"sync"
	"sync/atomic"

	connect "github.com/bufbuild/connect-go"
	"verif.local/harness/ev"
	"verif.local/harness/gen"
	"verif.local/harness/svc"
	"verif.local/harness/wire"
)

func init() { register("C16", "exploration", c16) }

type c16Log struct {
	mu sync.Mutex
	ev []string
}

func (l *c16Log) add(s string) {
	l.mu.Lock()
	l.ev = append(l.ev, s)
	l.mu.Unlock()
}

func (l *c16Log) take() []string {
	l.mu.Lock()
	defer l.mu.Unlock()
	out := l.ev
	l.ev = nil
	return out
}

// c16Icept logs every hook with its id. side is "c" or "h".
type c16Icept struct {
	id   int
	side string
	log  *c16Log
}

func (i *c16Icept) WrapUnary(next connect.UnaryFunc) connect.UnaryFunc {
	return func(ctx context.Context, req connect.AnyRequest) (connect.AnyResponse, error) {
		i.log.add(fmt.Sprintf("%s.unary.req:%d", i.side, i.id))
		res, err := next(ctx, req)
		i.log.add(fmt.Sprintf("%s.unary.res:%d", i.side, i.id))
		return res, err
	}
}

func (i *c16Icept) WrapStreamingClient(next connect.StreamingClientFunc) connect.StreamingClientFunc {
	return func(ctx context.Context, spec connect.Spec) connect.StreamingClientConn {
		i.log.add(fmt.Sprintf("%s.stream.wrap:%d", i.side, i.id))
		return &c16ClientConn{StreamingClientConn: next(ctx, spec), i: i}
	}
}

type c16ClientConn struct {
	connect.StreamingClientConn
	i *c16Icept
}

func (c *c16ClientConn) Send(m any) error {
	c.i.log.add(fmt.Sprintf("%s.stream.send:%d", c.i.side, c.i.id))
	return c.StreamingClientConn.Send(m)
}

func (c *c16ClientConn) Receive(m any) error {
	err := c.StreamingClientConn.Receive(m)
	if err == nil {
		c.i.log.add(fmt.Sprintf("%s.stream.recv:%d", c.i.side, c.i.id))
	}
	return err
}

func (i *c16Icept) WrapStreamingHandler(next connect.StreamingHandlerFunc) connect.StreamingHandlerFunc {
	return func(ctx context.Context, conn connect.StreamingHandlerConn) error {
		i.log.add(fmt.Sprintf("%s.stream.wrap:%d", i.side, i.id))
		return next(ctx, &c16HandlerConn{StreamingHandlerConn: conn, i: i})
	}
}

type c16HandlerConn struct {
	connect.StreamingHandlerConn
	i *c16Icept
}

func (c *c16HandlerConn) Receive(m any) error {
	err := c.StreamingHandlerConn.Receive(m)
	if err == nil {
		c.i.log.add(fmt.Sprintf("%s.stream.recv:%d", c.i.side, c.i.id))
	}
	return err
}

func (c *c16HandlerConn) Send(m any) error {
	c.i.log.add(fmt.Sprintf("%s.stream.send:%d", c.i.side, c.i.id))
	return c.StreamingHandlerConn.Send(m)
}

// c16Shape describes how a flat list is presented as options.
type c16Shape struct {
	pattern []bool // true = interceptor, false = nil entry
	groups  []int  // composition of len(pattern)
	nest    []int  // per group: 0 plain, 1 WithOptions, 2 side-specific options, 3 WithOptions(side-specific(...)), 4 side-specific(WithOptions(...))
	empties int    // bitmask: insert an empty WithInterceptors() before group k
	merge   bool   // wrap all groups together in one outer side-specific options wrapper
	mergeU  bool   // wrap all groups together in one outer WithOptions (groups plain or nested in WithOptions)
	// foreign: an interceptor that is not part of the list sits in a group of its
	// own right after the first group. The groups are sub-slices list[i:j] of one
	// backing array, as in WithInterceptors(common[:k]...): nothing the library
	// does with one group may leak into the array behind it.
	foreign bool
	// ufunc: the interceptors with an even id are UnaryInterceptorFuncs (they
	// take part in unary calls only; streams see the others, in order)
	ufunc bool
}

func (s c16Shape) String() string {
	var p []string
	for _, b := range s.pattern {
		if b {
			p = append(p, "I")
		} else {
			p = append(p, "nil")
		}
	}
	m := fmt.Sprint(s.merge)
	if s.mergeU {
		m = "WithOptions"
	}
	if s.foreign {
		m += "+foreign-after-first-group"
	}
	if s.ufunc {
		m += "+even-ids-are-UnaryInterceptorFuncs"
	}
	return fmt.Sprintf("list=[%s] groups=%v nest=%v empties=%b merge=%v", strings.Join(p, ","), s.groups, s.nest, s.empties, m)
}

func (s c16Shape) build(side string, log *c16Log) (flat []int, hopts []connect.HandlerOption, copts []connect.ClientOption) {
	var list []connect.Interceptor
	id := 0
	for _, b := range s.pattern {
		if b {
			id++
			if s.ufunc && id%2 == 0 {
				uid := id
				list = append(list, connect.UnaryInterceptorFunc(func(next connect.UnaryFunc) connect.UnaryFunc {
					return func(ctx context.Context, req connect.AnyRequest) (connect.AnyResponse, error) {
						log.add(fmt.Sprintf("%s.unary.req:%d", side, uid))
						res, err := next(ctx, req)
						log.add(fmt.Sprintf("%s.unary.res:%d", side, uid))
						return res, err
					}
				}))
			} else {
				list = append(list, &c16Icept{id: id, side: side, log: log})
			}
			flat = append(flat, id)
		} else {
			list = append(list, nil)
		}
	}
	var opts []connect.Option
	off := 0
	for gi, g := range s.groups {
		if s.empties&(1<<gi) != 0 {
			opts = append(opts, connect.WithInterceptors())
		}
		grp := connect.WithInterceptors(list[off : off+g]...)
		off += g
		opts = append(opts, grp)
		if s.foreign && gi == 0 {
			// (only used with empties == 0 and nest all zero, so that the option
			// list stays aligned with the groups below)
			nfirst := 0
			for _, b := range s.pattern[:g] {
				if b {
					nfirst++
				}
			}
			flat = append(append(append([]int{}, flat[:nfirst]...), 90), flat[nfirst:]...)
			opts = append(opts, connect.WithInterceptors(&c16Icept{id: 90, side: side, log: log}))
		}
	}
	if s.foreign {
		var h []connect.HandlerOption
		var c []connect.ClientOption
		for _, o := range opts {
			h = append(h, o)
			c = append(c, o)
		}
		return flat, h, c
	}
	wrapH := func(o connect.Option, n int) connect.HandlerOption {
		switch n {
		case 1:
			return connect.WithOptions(o)
		case 2:
			return connect.WithHandlerOptions(o)
		case 3:
			return connect.WithOptions(connect.WithOptions(o))
		case 4:
			return connect.WithHandlerOptions(connect.WithOptions(o), connect.WithHandlerOptions())
		}
		return o
	}
	wrapC := func(o connect.Option, n int) connect.ClientOption {
		switch n {
		case 1:
			return connect.WithOptions(o)
		case 2:
			return connect.WithClientOptions(o)
		case 3:
			return connect.WithOptions(connect.WithOptions(o))
		case 4:
			return connect.WithClientOptions(connect.WithOptions(o), connect.WithClientOptions())
		}
		return o
	}
	wrapU := func(o connect.Option, n int) connect.Option {
		switch n {
		case 1, 2:
			return connect.WithOptions(o)
		case 3, 4:
			return connect.WithOptions(connect.WithOptions(o), connect.WithOptions())
		}
		return o
	}
	var uopts []connect.Option
	oi := 0
	for gi := range s.groups {
		if s.empties&(1<<gi) != 0 {
			hopts = append(hopts, opts[oi])
			copts = append(copts, opts[oi])
			uopts = append(uopts, opts[oi])
			oi++
		}
		n := 0
		if gi < len(s.nest) {
			n = s.nest[gi]
		}
		hopts = append(hopts, wrapH(opts[oi], n))
		copts = append(copts, wrapC(opts[oi], n))
		uopts = append(uopts, wrapU(opts[oi], n))
		oi++
	}
	if s.empties&(1<<len(s.groups)) != 0 {
		// an empty group after everything else
		hopts = append(hopts, connect.WithInterceptors())
		copts = append(copts, connect.WithInterceptors())
		uopts = append(uopts, connect.WithInterceptors())
	}
	if s.mergeU {
		// plain and nested groups side by side inside one WithOptions
		all := connect.WithOptions(uopts...)
		return flat, []connect.HandlerOption{all}, []connect.ClientOption{all}
	}
	if s.merge {
		hopts = []connect.HandlerOption{connect.WithHandlerOptions(hopts...)}
		copts = []connect.ClientOption{connect.WithClientOptions(copts...)}
	}
	return flat, hopts, copts
}

func rev(a []int) []int {
	out := make([]int, len(a))
	for i, v := range a {
		out[len(a)-1-i] = v
	}
	return out
}

func tagged(prefix string, ids []int) []string {
	out := make([]string, len(ids))
	for i, id := range ids {
		out[i] = fmt.Sprintf("%s:%d", prefix, id)
	}
	return out
}

func c16Expected(side string, kind svc.Kind, flat []int) []string {
	var out []string
	if kind == svc.Unary {
		out = append(out, tagged(side+".unary.req", flat)...)
		return append(out, tagged(side+".unary.res", rev(flat))...)
	}
	// wrap events: the outermost wrapper function runs first
	if side == "c" {
		// client: wrap happens innermost-last? newConn = A(B(base)): calling it
		// enters A's func first, which logs and then calls next.
		out = append(out, tagged("c.stream.wrap", flat)...)
		out = append(out, tagged("c.stream.send", flat)...)
		out = append(out, tagged("c.stream.recv", rev(flat))...)
		return out
	}
	out = append(out, tagged("h.stream.wrap", flat)...)
	out = append(out, tagged("h.stream.recv", flat)...)
	out = append(out, tagged("h.stream.send", rev(flat))...)
	return out
}

// sortPhases groups a log by phase prefix, keeping the order inside a phase.
func sortPhases(log []string, phases []string) []string {
	var out []string
	for _, p := range phases {
		for _, e := range log {
			if strings.HasPrefix(e, p+":") {
				out = append(out, e)
			}
		}
	}
	return out
}

func c16(run *ev.Run) int {
	maxN := run.Pick(4, 6)
	run.SetRule(fmt.Sprintf("cases = all interceptor lists up to length %d with nil at any position x all 2^(n-1) compositions into consecutive WithInterceptors groups x nesting of each group in {plain, WithOptions, WithClientOptions/WithHandlerOptions, two levels} (all nestings for <=2 groups, seeded sample above) x empty groups x a foreign interceptor in a group of its own after the first group (the groups are sub-slices of one backing array) x all-in-one outer wrapper (side-specific, or one WithOptions holding plain and nested groups side by side); the same option values build the clients and handlers of all 4 kinds (applied 4 times); one real call per kind through the loopback; also UnaryInterceptorFunc entries (even ids); layered option sets with 2-3 leaves sharing a parent; history: one WithInterceptors value in 2-3 option lists; WithRecover at every position among 1-3 interceptors with a panicking handler (interceptors before it see the recovered error returned, those after it see the panic unwind); oracle: per-phase event log == log predicted from the flat declaration-order list, every id exactly once per phase; distinct by (list pattern, grouping, nesting class, kind, side)", maxN))
	var shapes []c16Shape
	r := run.Rand("c16-shapes")
	for n := 0; n <= maxN; n++ {
		for mask := 0; mask < 1<<n; mask++ {
			pattern := make([]bool, n)
			for i := range pattern {
				pattern[i] = mask&(1<<i) != 0
			}
			comps := gen.Compositions(n)
			if n == 0 {
				comps = [][]int{{}}
			}
			for _, comp := range comps {
				g := len(comp)
				total := 1
				for i := 0; i < g; i++ {
					total *= 5
				}
				var nestings [][]int
				if g <= 2 {
					for x := 0; x < total; x++ {
						nest := make([]int, g)
						v := x
						for i := range nest {
							nest[i] = v % 5
							v /= 5
						}
						nestings = append(nestings, nest)
					}
				} else {
					nestings = append(nestings, make([]int, g))
					for k := 0; k < run.Pick(3, 12); k++ {
						nest := make([]int, g)
						for i := range nest {
							nest[i] = r.Intn(5)
						}
						nestings = append(nestings, nest)
					}
				}
				for ni, nest := range nestings {
					s := c16Shape{pattern: pattern, groups: comp, nest: nest}
					shapes = append(shapes, s)
					if ni%3 == 0 {
						s2 := s
						s2.empties = 1 + r.Intn(1<<(g+1)-1)
						shapes = append(shapes, s2)
					}
					if ni%4 == 1 {
						s3 := s
						s3.merge = true
						shapes = append(shapes, s3)
					}
					if ni == 0 && g >= 1 {
						s5 := c16Shape{pattern: pattern, groups: comp, nest: make([]int, g), foreign: true}
						shapes = append(shapes, s5)
					}
					if ni%5 == 3 || ni == 0 {
						s6 := s
						s6.ufunc = true
						shapes = append(shapes, s6)
					}
					if ni%4 == 2 || (g >= 3 && ni > 0) {
						s4 := s
						s4.mergeU = true
						shapes = append(shapes, s4)
					}
				}
			}
		}
	}
	run.Set("shapes", len(shapes))
	parallel(16, len(shapes), func(si int) {
		s := shapes[si]
		key := "c16/" + s.String()
		if !run.Want(key) {
			return
		}
		c16Case(run, s, key)
	})
	c16Layered(run)
	c16SharedValue(run)
	c16WithRecover(run)
	return run.Finish("calls", "phases.compared")
}

func c16Case(run *ev.Run, s c16Shape, key string) {
	hlog, clog := &c16Log{}, &c16Log{}
	flatH, hopts, _ := s.build("h", hlog)
	flatC, _, copts := s.build("c", clog)
	reg := svc.NewRegistry()
	hs := svc.Handlers(reg, hopts...) // the same option values are applied to four handlers
	lb := &wire.Loopback{Handler: svc.Mux(hs)}
	cs := svc.NewClientSet(lb, "http://verif.local", copts...) // ... and to four clients
	for _, kind := range svc.Kinds {
		prog := &svc.Program{Steps: []svc.Step{{Op: "recv"}, {Op: "send", Msg: &gen.Msg{Id: 2}}}}
		call := reg.New("c16", prog)
		var cl *svc.CLog
		var panicked any
		func() {
			defer func() { panicked = recover() }()
			cl = cs.Do(context.Background(), kind, call.ID, nil, []*gen.Msg{{Id: 1}})
		}()
		reg.Drop(call)
		run.Count("calls", 1)
		nilClass := "no-nil"
		for _, b := range s.pattern {
			if !b {
				nilClass = "with-nil"
			}
		}
		run.Eval(fmt.Sprintf("n=%d|%s|groups=%d|nest=%v|e=%v|m=%v|%s", len(s.pattern), nilClass, len(s.groups), s.nest, s.empties != 0, s.merge, kind))
		gotH, gotC := hlog.take(), clog.take()
		detail := map[string]any{"shape": s.String(), "kind": kind.String(), "handler_log": gotH, "client_log": gotC}
		if panicked != nil {
			run.Violation(key+"/"+kind.String()+"/panic", fmt.Sprintf("call panicked: %v", panicked), detail)
			return
		}
		if cl.Err != nil {
			detail["client_err"] = errStr(cl.Err)
			run.Violation(key+"/"+kind.String()+"/failed", "call through the interceptor chain failed: "+errStr(cl.Err), detail)
			return
		}
		for _, side := range []string{"h", "c"} {
			flat, got := flatH, gotH
			if side == "c" {
				flat, got = flatC, gotC
			}
			if s.ufunc && kind != svc.Unary {
				var odd []int
				for _, id := range flat {
					if id%2 == 1 {
						odd = append(odd, id)
					}
				}
				flat = odd
			}
			want := c16Expected(side, kind, flat)
			phases := []string{side + ".unary.req", side + ".unary.res", side + ".stream.wrap", side + ".stream.send", side + ".stream.recv"}
			if side == "h" {
				phases = []string{side + ".unary.req", side + ".unary.res", side + ".stream.wrap", side + ".stream.recv", side + ".stream.send"}
			}
			gotSorted := sortPhases(got, phases)
			run.Count("phases.compared", int64(len(phases)))
			if fmt.Sprint(gotSorted) != fmt.Sprint(want) || len(gotSorted) != len(got) {
				detail["side"] = side
				detail["expected"] = want
				detail["observed_by_phase"] = gotSorted
				run.Violation(key+"/"+kind.String()+"/"+side+"/order", fmt.Sprintf("%s-side interceptor events %v, flat declaration order predicts %v", map[string]string{"h": "handler", "c": "client"}[side], gotSorted, want), detail)
				return
			}
		}
	}
	if len(s.pattern) == 3 && len(s.groups) == 2 {
		run.Sample(map[string]any{"shape": s.String()})
	}
}

// c16Layered: option sets derived from each other the way configuration layers
// are (org -> team -> {billing, search, ...}): every layer is built by wrapping
// its parent and adding interceptors, and several leaves share one parent. All
// leaves are created first and used afterwards; each must run exactly the
// interceptors on its own path, in declaration order.
func c16Layered(run *ev.Run) {
	for _, wrapper := range []string{"side", "WithOptions"} {
		for depth := 1; depth <= 4; depth++ {
			for leaves := 2; leaves <= 3; leaves++ {
				for perLayer := 1; perLayer <= 2; perLayer++ {
					key := fmt.Sprintf("c16/layered/wrapper=%s/depth=%d/leaves=%d/per-layer=%d", wrapper, depth, leaves, perLayer)
					if !run.Want(key) {
						continue
					}
					for _, side := range []string{"h", "c"} {
						log := &c16Log{}
						id := 0
						mk := func() connect.Option {
							id++
							return connect.WithInterceptors(&c16Icept{id: id, side: side, log: log})
						}
						wrapH := func(parent connect.HandlerOption, own []connect.Option) connect.HandlerOption {
							args := []connect.HandlerOption{}
							if parent != nil {
								args = append(args, parent)
							}
							for _, o := range own {
								args = append(args, o)
							}
							return connect.WithHandlerOptions(args...)
						}
						wrapC := func(parent connect.ClientOption, own []connect.Option) connect.ClientOption {
							args := []connect.ClientOption{}
							if parent != nil {
								args = append(args, parent)
							}
							for _, o := range own {
								args = append(args, o)
							}
							return connect.WithClientOptions(args...)
						}
						wrapU := func(parent connect.Option, own []connect.Option) connect.Option {
							args := []connect.Option{}
							if parent != nil {
								args = append(args, parent)
							}
							return connect.WithOptions(append(args, own...)...)
						}
						var ph connect.HandlerOption
						var pc connect.ClientOption
						var pu connect.Option
						var path []int
						layer := func() []connect.Option {
							var own []connect.Option
							for k := 0; k < perLayer; k++ {
								own = append(own, mk())
								path = append(path, id)
							}
							return own
						}
						for d := 0; d < depth; d++ {
							own := layer()
							ph, pc, pu = wrapH(ph, own), wrapC(pc, own), wrapU(pu, own)
						}
						type leaf struct {
							h    connect.HandlerOption
							c    connect.ClientOption
							flat []int
						}
						var ls []leaf
						for l := 0; l < leaves; l++ {
							own := []connect.Option{mk()}
							flat := append(append([]int{}, path...), id)
							if wrapper == "side" {
								ls = append(ls, leaf{wrapH(ph, own), wrapC(pc, own), flat})
							} else {
								u := wrapU(pu, own)
								ls = append(ls, leaf{u, u, flat})
							}
						}
						for li, lf := range ls {
							reg := svc.NewRegistry()
							var hopts []connect.HandlerOption
							var copts []connect.ClientOption
							if side == "h" {
								hopts = append(hopts, lf.h)
							} else {
								copts = append(copts, lf.c)
							}
							hs := svc.Handlers(reg, hopts...)
							cs := svc.NewClientSet(&wire.Loopback{Handler: svc.Mux(hs)}, "http://verif.local", copts...)
							for _, kind := range []svc.Kind{svc.Unary, svc.Bidi} {
								call := reg.New("c16l", &svc.Program{Steps: []svc.Step{{Op: "recv"}, {Op: "send", Msg: &gen.Msg{Id: 2}}}})
								cl := cs.Do(context.Background(), kind, call.ID, nil, []*gen.Msg{{Id: 1}})
								reg.Drop(call)
								run.Count("calls", 1)
								run.Eval(fmt.Sprintf("layered|%s|depth=%d|leaves=%d|per=%d|%s|%s", wrapper, depth, leaves, perLayer, side, kind))
								got := log.take()
								want := c16Expected(side, kind, lf.flat)
								phases := []string{side + ".unary.req", side + ".unary.res", side + ".stream.wrap", side + ".stream.send", side + ".stream.recv"}
								if side == "h" {
									phases = []string{side + ".unary.req", side + ".unary.res", side + ".stream.wrap", side + ".stream.recv", side + ".stream.send"}
								}
								gotSorted := sortPhases(got, phases)
								run.Count("phases.compared", int64(len(phases)))
								if cl.Err != nil || fmt.Sprint(gotSorted) != fmt.Sprint(want) || len(gotSorted) != len(got) {
									run.Violation(fmt.Sprintf("%s/%s/leaf=%d/%s", key, side, li, kind), fmt.Sprintf("leaf %d of %d sharing one parent layer ran %v, its own path predicts %v", li+1, leaves, gotSorted, want),
										map[string]any{"wrapper": wrapper, "depth": depth, "leaves": leaves, "interceptors_per_layer": perLayer, "side": side, "client_err": errStr(cl.Err)})
									break
								}
							}
						}
					}
				}
			}
		}
	}
}

// c16SharedValue: one option value (say, common := WithInterceptors(logging))
// is part of several option lists, each with its own interceptors before and
// after it; clients and handlers are built from those lists one after another.
// What one list did with the value must not show in the next: every object runs
// the interceptors of its own list, in its order.
func c16SharedValue(run *ev.Run) {
	for _, wrap := range []string{"plain", "WithOptions", "side"} {
		for _, nShared := range []int{1, 2} {
			for _, users := range []int{2, 3} {
				key := fmt.Sprintf("c16/shared-value/wrap=%s/shared-interceptors=%d/users=%d", wrap, nShared, users)
				if !run.Want(key) {
					continue
				}
				for _, side := range []string{"h", "c"} {
					log := &c16Log{}
					var sharedIDs []int
					var sharedList []connect.Interceptor
					for k := 0; k < nShared; k++ {
						sharedIDs = append(sharedIDs, 50+k)
						sharedList = append(sharedList, &c16Icept{id: 50 + k, side: side, log: log})
					}
					common := connect.WithInterceptors(sharedList...)
					type user struct {
						h    []connect.HandlerOption
						c    []connect.ClientOption
						flat []int
					}
					var us []user
					for u := 0; u < users; u++ {
						own := 10 * (u + 1)
						before := connect.WithInterceptors(&c16Icept{id: own, side: side, log: log})
						after := connect.WithInterceptors(&c16Icept{id: own + 1, side: side, log: log})
						flat := append(append([]int{own}, sharedIDs...), own+1)
						if u == users-1 && users == 3 {
							// the last user has nothing in front of the shared value
							flat = flat[1:]
							before = connect.WithInterceptors()
						}
						var x user
						x.flat = flat
						switch wrap {
						case "plain":
							x.h = []connect.HandlerOption{before, common, after}
							x.c = []connect.ClientOption{before, common, after}
						case "WithOptions":
							o := connect.WithOptions(before, connect.WithOptions(common), after)
							x.h, x.c = []connect.HandlerOption{o}, []connect.ClientOption{o}
						default:
							x.h = []connect.HandlerOption{connect.WithHandlerOptions(before, common), after}
							x.c = []connect.ClientOption{connect.WithClientOptions(before, common), after}
						}
						us = append(us, x)
					}
					for ui, x := range us {
						reg := svc.NewRegistry()
						var hopts []connect.HandlerOption
						var copts []connect.ClientOption
						if side == "h" {
							hopts = x.h
						} else {
							copts = x.c
						}
						hs := svc.Handlers(reg, hopts...)
						cs := svc.NewClientSet(&wire.Loopback{Handler: svc.Mux(hs)}, "http://verif.local", copts...)
						for _, kind := range []svc.Kind{svc.Unary, svc.ServerStream} {
							call := reg.New("c16s", &svc.Program{Steps: []svc.Step{{Op: "recv"}, {Op: "send", Msg: &gen.Msg{Id: 2}}}})
							cl := cs.Do(context.Background(), kind, call.ID, nil, []*gen.Msg{{Id: 1}})
							reg.Drop(call)
							run.Count("calls", 1)
							run.Eval(fmt.Sprintf("shared-value|%s|%d|%d|%s|%s|user=%d", wrap, nShared, users, side, kind, ui))
							got := log.take()
							want := c16Expected(side, kind, x.flat)
							phases := []string{side + ".unary.req", side + ".unary.res", side + ".stream.wrap", side + ".stream.send", side + ".stream.recv"}
							if side == "h" {
								phases = []string{side + ".unary.req", side + ".unary.res", side + ".stream.wrap", side + ".stream.recv", side + ".stream.send"}
							}
							gotSorted := sortPhases(got, phases)
							run.Count("phases.compared", int64(len(phases)))
							if cl.Err != nil || fmt.Sprint(gotSorted) != fmt.Sprint(want) || len(gotSorted) != len(got) {
								run.Violation(fmt.Sprintf("%s/%s/user=%d/%s", key, side, ui, kind), fmt.Sprintf("object %d of %d built from lists that share one WithInterceptors value ran %v, its own list predicts %v", ui+1, users, gotSorted, want),
									map[string]any{"wrap": wrap, "side": side, "shared_ids": sharedIDs, "client_err": errStr(cl.Err)})
								break
							}
						}
					}
				}
			}
		}
	}
}

// unwindIcept notes how control came back through it: next returned (with
// which error code) or a panic unwound through it.
type unwindIcept struct {
	id  int
	log *c16Log
}

func (i *unwindIcept) out(returned *bool, err *error) {
	switch {
	case !*returned:
		i.log.add(fmt.Sprintf("%d:unwound", i.id))
	case *err != nil:
		i.log.add(fmt.Sprintf("%d:returned:%v", i.id, connect.CodeOf(*err)))
	default:
		i.log.add(fmt.Sprintf("%d:returned:ok", i.id))
	}
}
func (i *unwindIcept) WrapUnary(next connect.UnaryFunc) connect.UnaryFunc {
	return func(ctx context.Context, req connect.AnyRequest) (res connect.AnyResponse, err error) {
		returned := false
		defer i.out(&returned, &err)
		res, err = next(ctx, req)
		returned = true
		return res, err
	}
}
func (i *unwindIcept) WrapStreamingClient(next connect.StreamingClientFunc) connect.StreamingClientFunc {
	return next
}
func (i *unwindIcept) WrapStreamingHandler(next connect.StreamingHandlerFunc) connect.StreamingHandlerFunc {
	return func(ctx context.Context, conn connect.StreamingHandlerConn) (err error) {
		returned := false
		defer i.out(&returned, &err)
		err = next(ctx, conn)
		returned = true
		return err
	}
}

// c16WithRecover: WithRecover installs an interceptor and so takes its slot in
// declaration order like any other. With a handler that panics the slot is
// observable: interceptors declared before it see the recovered error come
// back as an ordinary result, those declared after it see the panic unwind.
func c16WithRecover(run *ev.Run) {
	for k := 1; k <= 3; k++ {
		for p := 0; p <= k; p++ {
			for _, grouping := range []string{"flat", "one-WithHandlerOptions", "interceptors-in-WithOptions"} {
				key := fmt.Sprintf("c16/with-recover/k=%d/recover-at=%d/%s", k, p, grouping)
				if !run.Want(key) {
					continue
				}
				log := &c16Log{}
				var recovered int32
				rc := connect.WithRecover(func(context.Context, connect.Spec, http.Header, any) error {
					atomic.AddInt32(&recovered, 1)
					return connect.NewError(connect.CodeDataLoss, errors.New("recovered"))
				})
				var hopts []connect.HandlerOption
				var want []string
				for i := 0; i <= k; i++ {
					if i == p {
						hopts = append(hopts, rc)
						continue
					}
					id := i
					if i > p {
						id = i - 1
					}
					var o connect.Option = connect.WithInterceptors(&unwindIcept{id: id, log: log})
					if grouping == "interceptors-in-WithOptions" {
						o = connect.WithOptions(o)
					}
					hopts = append(hopts, o)
				}
				// control comes back innermost first
				for id := k - 1; id >= 0; id-- {
					if id >= p {
						want = append(want, fmt.Sprintf("%d:unwound", id))
					} else {
						want = append(want, fmt.Sprintf("%d:returned:data_loss", id))
					}
				}
				if grouping == "one-WithHandlerOptions" {
					hopts = []connect.HandlerOption{connect.WithHandlerOptions(hopts...)}
				}
				reg := svc.NewRegistry()
				hs := svc.Handlers(reg, hopts...)
				cs := svc.NewClientSet(&wire.Loopback{Handler: svc.Mux(hs)}, "http://verif.local")
				for _, kind := range []svc.Kind{svc.Unary, svc.ServerStream, svc.ClientStream} {
					atomic.StoreInt32(&recovered, 0)
					call := reg.New("c16r", &svc.Program{Steps: []svc.Step{{Op: "recv"}, {Op: "panic", Val: "boom"}}})
					cl := cs.Do(context.Background(), kind, call.ID, nil, []*gen.Msg{{Id: 1}})
					reg.Drop(call)
					got := log.take()
					run.Count("calls", 1)
					run.Count("recover_slot.compared", 1)
					run.Eval(fmt.Sprintf("with-recover|k=%d|p=%d|%s|%s", k, p, grouping, kind))
					detail := map[string]any{"interceptors": k, "recover_declared_at": p, "grouping": grouping, "kind": kind.String(), "observed": got, "expected": want, "client_err": errStr(cl.Err), "recovery_calls": atomic.LoadInt32(&recovered)}
					if fmt.Sprint(got) != fmt.Sprint(want) {
						run.Violation(key+"/"+kind.String()+"/slot", fmt.Sprintf("with WithRecover declared at position %d of %d, control came back through the other interceptors as %v; declaration order predicts %v", p, k+1, got, want), detail)
						break
					}
					if n := atomic.LoadInt32(&recovered); n != 1 || connect.CodeOf(cl.Err) != connect.CodeDataLoss {
						run.Violation(key+"/"+kind.String()+"/outcome", fmt.Sprintf("recovery function ran %d times and the client saw %q (want once, data_loss)", n, errStr(cl.Err)), detail)
						break
					}
				}
			}
		}
	}
}
