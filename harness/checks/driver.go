package checks

import (
	"context"
	"errors"
	"fmt"
	"io"
	"strings"
	"time"

	connect "github.com/bufbuild/connect-go"
	"google.golang.org/protobuf/proto"
	"verif.local/harness/gen"
	"verif.local/harness/svc"
	"verif.local/harness/wire"
)

// opResult is the outcome of one client API operation.
type opResult struct {
	Op       string
	Err      error
	Msg      *gen.Msg
	Returned bool // false: the watchdog fired
	Dump     string
	At       time.Time
	After    time.Time
}

// clientRun is the log of a scripted client program.
type clientRun struct {
	Ops       []opResult
	Received  []*gen.Msg
	SentOK    []*gen.Msg
	CancelIdx int // index of the op after which cancel() ran (-1: never)
	Hung      bool
	Slow      bool // an op outlived its watchdog but returned in the grace period: do not judge the case
}

// badMsg cannot be marshalled by the proto codec (invalid UTF-8 in a string).
func badMsg() *gen.Msg { return &gen.Msg{Id: 666, Note: "\xff\xfe invalid"} }

// scripted drives one call of any kind with a program of ops:
//
//	S      Send a valid message          Sbad   Send an unmarshallable message
//	Sbig   Send a 256 KiB message        CR     CloseRequest
//	R      Receive one message           Rall   Receive until an error
//	CP     CloseResponse                 X      cancel the context
//	WH     wait until the handler has finished (harness-side, not an API op)
//	Sfill  Send 64 KiB messages until one fails (at most 3000)
//	P<ms>  pause
//
// For unary / client-stream / server-stream kinds the typed API fuses some
// ops: CALL (unary: whole call; server stream: send + close request),
// CAR (client stream: close request + receive + close response).
type scripted struct {
	cs      *svc.ClientSet
	kind    svc.Kind
	callID  string
	ctx     context.Context
	cancel  context.CancelFunc
	timeout time.Duration
	// blockedHook is called (from another goroutine) when an op has been
	// running for blockAfter without returning; used to cancel inside a
	// blocked Send/Receive.
	blockedHook func(op string)
	blockAfter  time.Duration
	handlerDone <-chan struct{}
	nextID      uint64
	// noGrace: a watchdog that fires is final (used where the hang is a listed
	// known finding: re-observing it should not cost the grace period)
	noGrace bool
}

func (s *scripted) run(program []string) *clientRun {
	cr := &clientRun{CancelIdx: -1}
	var bidi *connect.BidiStreamForClient[svc.Msg, svc.Msg]
	var cstream *connect.ClientStreamForClient[svc.Msg, svc.Msg]
	var sstream *connect.ServerStreamForClient[svc.Msg]
	setHdr := func(h interface{ Set(string, string) }) { h.Set(wire.CallHeader, s.callID) }
	if len(program) > 0 && program[0] == "X0" {
		// the context is already done when the stream is created
		s.cancel()
	}
	switch s.kind {
	case svc.Bidi:
		bidi = s.cs.C[svc.Bidi].CallBidiStream(s.ctx)
		setHdr(bidi.RequestHeader())
	case svc.ClientStream:
		cstream = s.cs.C[svc.ClientStream].CallClientStream(s.ctx)
		setHdr(cstream.RequestHeader())
	}
	do := func(op string, f func() (*gen.Msg, error)) bool {
		res := opResult{Op: op, At: time.Now()}
		done := make(chan struct{})
		var m *gen.Msg
		var err error
		go func() {
			defer close(done)
			m, err = f()
		}()
		var hookTimer <-chan time.Time
		if s.blockedHook != nil {
			hookTimer = time.After(s.blockAfter)
		}
		deadline := time.After(s.timeout)
	wait:
		for {
			select {
			case <-done:
				res.Returned = true
				break wait
			case <-hookTimer:
				hookTimer = nil
				s.blockedHook(op)
			case <-deadline:
				buf := make([]byte, 1<<20)
				res.Dump = string(buf[:runtimeStack(buf)])
				if !s.noGrace && !confirmHang(done) {
					// slow, not hung (see watchdog): the case is not judged
					res.Returned = true
					cr.Slow = true
					res.Dump = ""
				}
				break wait
			}
		}
		res.After = time.Now()
		if res.Returned {
			res.Err, res.Msg = err, m
		}
		cr.Ops = append(cr.Ops, res)
		if !res.Returned {
			cr.Hung = true
			return false
		}
		return true
	}
	newMsg := func(size int) *gen.Msg {
		s.nextID++
		return gen.New(s.nextID, size, true)
	}
	for _, op := range program {
		switch {
		case op == "X" || op == "X0":
			s.cancel()
			cr.CancelIdx = len(cr.Ops) - 1
			cr.Ops = append(cr.Ops, opResult{Op: "X", Returned: true, At: time.Now(), After: time.Now()})
		case op == "WH":
			select {
			case <-s.handlerDone:
			case <-time.After(5 * time.Second):
			}
			// give the transport a moment to deliver the end of the response
			time.Sleep(30 * time.Millisecond)
			cr.Ops = append(cr.Ops, opResult{Op: "WH", Returned: true, At: time.Now(), After: time.Now()})
		case strings.HasPrefix(op, "P"):
			var ms int
			fmt.Sscanf(op, "P%d", &ms)
			time.Sleep(time.Duration(ms) * time.Millisecond)
		case op == "S" || op == "Sbad" || op == "Sbig":
			m := newMsg(20)
			if op == "Sbad" {
				m = badMsg()
			} else if op == "Sbig" {
				m = newMsg(256 << 10)
			}
			ok := do(op, func() (*gen.Msg, error) {
				switch s.kind {
				case svc.Bidi:
					return nil, bidi.Send(m)
				case svc.ClientStream:
					return nil, cstream.Send(m)
				}
				return nil, errors.New("harness: S not available for this kind")
			})
			if !ok {
				return cr
			}
			if cr.Ops[len(cr.Ops)-1].Err == nil {
				cr.SentOK = append(cr.SentOK, m)
			}
		case op == "Sfill":
			for i := 0; i < 3000; i++ {
				m := newMsg(64 << 10)
				ok := do("Sfill", func() (*gen.Msg, error) {
					if s.kind == svc.Bidi {
						return nil, bidi.Send(m)
					}
					return nil, cstream.Send(m)
				})
				if !ok {
					return cr
				}
				if cr.Ops[len(cr.Ops)-1].Err != nil {
					break
				}
			}
		case op == "CR":
			if !do(op, func() (*gen.Msg, error) { return nil, bidi.CloseRequest() }) {
				return cr
			}
		case (op == "R" || op == "Rall") && s.kind == svc.ServerStream && sstream == nil:
			// the call itself failed: there is no stream to receive from
		case op == "R" || op == "Rall":
			for {
				ok := do("R", func() (*gen.Msg, error) {
					switch s.kind {
					case svc.Bidi:
						return bidi.Receive()
					case svc.ServerStream:
						if sstream == nil {
							return nil, errors.New("harness: no stream")
						}
						if sstream.Receive() {
							return proto.Clone(sstream.Msg()).(*gen.Msg), nil
						}
						if err := sstream.Err(); err != nil {
							return nil, err
						}
						return nil, io.EOF
					}
					return nil, errors.New("harness: R not available for this kind")
				})
				if !ok {
					return cr
				}
				last := cr.Ops[len(cr.Ops)-1]
				if last.Err == nil {
					cr.Received = append(cr.Received, last.Msg)
				}
				if op == "R" || last.Err != nil {
					break
				}
			}
		case op == "CP":
			ok := do(op, func() (*gen.Msg, error) {
				switch s.kind {
				case svc.Bidi:
					return nil, bidi.CloseResponse()
				case svc.ServerStream:
					if sstream == nil {
						return nil, nil
					}
					return nil, sstream.Close()
				}
				return nil, nil
			})
			if !ok {
				return cr
			}
		case op == "CALL" || op == "CALLbad":
			m := newMsg(20)
			if op == "CALLbad" {
				m = badMsg()
			}
			ok := do(op, func() (*gen.Msg, error) {
				req := connect.NewRequest(m)
				req.Header().Set(wire.CallHeader, s.callID)
				if s.kind == svc.Unary {
					res, err := s.cs.C[svc.Unary].CallUnary(s.ctx, req)
					if err != nil {
						return nil, err
					}
					return res.Msg, nil
				}
				st, err := s.cs.C[svc.ServerStream].CallServerStream(s.ctx, req)
				sstream = st
				return nil, err
			})
			if !ok {
				return cr
			}
			last := cr.Ops[len(cr.Ops)-1]
			if last.Err == nil {
				cr.SentOK = append(cr.SentOK, m)
				if s.kind == svc.Unary {
					cr.Received = append(cr.Received, last.Msg)
				}
			}
		case op == "CAR":
			ok := do(op, func() (*gen.Msg, error) {
				res, err := cstream.CloseAndReceive()
				if err != nil {
					return nil, err
				}
				return res.Msg, nil
			})
			if !ok {
				return cr
			}
			if last := cr.Ops[len(cr.Ops)-1]; last.Err == nil {
				cr.Received = append(cr.Received, last.Msg)
			}
		default:
			panic("harness: unknown client op " + op)
		}
	}
	return cr
}

func describeOps(cr *clientRun) []string {
	var out []string
	for _, o := range cr.Ops {
		switch {
		case !o.Returned:
			out = append(out, o.Op+"=HUNG")
		case o.Err != nil:
			out = append(out, fmt.Sprintf("%s=%s", o.Op, trunc(o.Err.Error(), 90)))
		default:
			out = append(out, o.Op+"=ok")
		}
	}
	return out
}
