package checks

import (
	"bytes"
	"encoding/json"
	"fmt"
	"go/ast"
	"go/parser"
	"go/token"
	"math/rand"
	"os"
	"os/exec"
	"path/filepath"
	"sort"
	"strconv"
	"strings"
	"time"

	"google.golang.org/protobuf/proto"
	"google.golang.org/protobuf/types/descriptorpb"
	"google.golang.org/protobuf/types/pluginpb"
	"verif.local/harness/ev"
)

func init() { register("C17", "exploration", c17) }

var goKeywordNames = []string{"Import", "Type", "Func", "Go", "Map", "Range", "Select", "Var", "Return", "Default", "Interface", "Struct", "Switch", "Case", "Chan", "Const", "Continue", "Defer", "Else", "Fallthrough", "For", "Goto", "If", "Package", "Break", "String", "Error", "New", "Len", "Nil", "True", "Iota", "Any", "Init", "Main"}

// goCamelCase mirrors protogen's identifier mapping (protobuf-go strs.GoCamelCase).
func goCamelCase(s string) string {
	lower := func(c byte) bool { return 'a' <= c && c <= 'z' }
	digit := func(c byte) bool { return '0' <= c && c <= '9' }
	var b []byte
	for i := 0; i < len(s); i++ {
		c := s[i]
		switch {
		case c == '.' && i+1 < len(s) && lower(s[i+1]):
		case c == '.':
			b = append(b, '_')
		case c == '_' && (i == 0 || s[i-1] == '.'):
			b = append(b, 'X')
		case c == '_' && i+1 < len(s) && lower(s[i+1]):
		case digit(c):
			b = append(b, c)
		default:
			if lower(c) {
				c -= 'a' - 'A'
			}
			b = append(b, c)
			for ; i+1 < len(s) && lower(s[i+1]); i++ {
				b = append(b, s[i+1])
			}
		}
	}
	return string(b)
}

type c17Method struct {
	Name         string
	ClientStream bool
	ServerStream bool
	Deprecated   bool
	Comment      string
}

type c17Service struct {
	Name       string
	Methods    []c17Method
	Deprecated bool
	Comment    string
}

type c17File struct {
	Index      int
	ProtoName  string // path of the .proto
	Package    string
	GoPath     string // Go import path of the message package
	GoPkgName  string
	GoPkgForm  string // option | option;name | M-parameter
	Services   []c17Service
	Deprecated bool
	TypesIn    int // index of the file holding request/response types (-1: same file)
	shape      string
}

func (f *c17File) fq(s c17Service) string {
	if f.Package == "" {
		return s.Name
	}
	return f.Package + "." + s.Name
}

func kindOf(m c17Method) string {
	switch {
	case m.ClientStream && m.ServerStream:
		return "bidi"
	case m.ClientStream:
		return "client"
	case m.ServerStream:
		return "server"
	}
	return "unary"
}

func (f *c17File) descriptor() *descriptorpb.FileDescriptorProto {
	s := proto.String
	fd := &descriptorpb.FileDescriptorProto{Name: s(f.ProtoName), Syntax: s("proto3"), Options: &descriptorpb.FileOptions{}}
	if f.Package != "" {
		fd.Package = s(f.Package)
	}
	switch f.GoPkgForm {
	case "option":
		fd.Options.GoPackage = s(f.GoPath)
	case "option;name":
		fd.Options.GoPackage = s(f.GoPath + ";" + f.GoPkgName)
	}
	if f.Deprecated {
		fd.Options.Deprecated = proto.Bool(true)
	}
	str := descriptorpb.FieldDescriptorProto_TYPE_STRING
	opt := descriptorpb.FieldDescriptorProto_LABEL_OPTIONAL
	for _, n := range []string{"Req", "Res"} {
		fd.MessageType = append(fd.MessageType, &descriptorpb.DescriptorProto{Name: s(n), Field: []*descriptorpb.FieldDescriptorProto{{Name: s("v"), JsonName: s("v"), Number: proto.Int32(1), Type: &str, Label: &opt}}})
	}
	sci := &descriptorpb.SourceCodeInfo{}
	for si, sv := range f.Services {
		sd := &descriptorpb.ServiceDescriptorProto{Name: s(sv.Name)}
		if sv.Deprecated {
			sd.Options = &descriptorpb.ServiceOptions{Deprecated: proto.Bool(true)}
		}
		if sv.Comment != "" {
			sci.Location = append(sci.Location, &descriptorpb.SourceCodeInfo_Location{Path: []int32{6, int32(si)}, Span: []int32{1, 0, 2}, LeadingComments: s(sv.Comment)})
		}
		for mi, m := range sv.Methods {
			in, out := "Req", "Res"
			md := &descriptorpb.MethodDescriptorProto{Name: s(m.Name)}
			_ = in
			md.InputType = s(".REQ")
			md.OutputType = s(".RES")
			if m.ClientStream {
				md.ClientStreaming = proto.Bool(true)
			}
			if m.ServerStream {
				md.ServerStreaming = proto.Bool(true)
			}
			if m.Deprecated {
				md.Options = &descriptorpb.MethodOptions{Deprecated: proto.Bool(true)}
			}
			_ = out
			if m.Comment != "" {
				sci.Location = append(sci.Location, &descriptorpb.SourceCodeInfo_Location{Path: []int32{6, int32(si), 2, int32(mi)}, Span: []int32{1, 0, 2}, LeadingComments: s(m.Comment)})
			}
			sd.Method = append(sd.Method, md)
		}
		fd.Service = append(fd.Service, sd)
	}
	fd.SourceCodeInfo = sci
	return fd
}

func c17Families(run *ev.Run) []*c17File {
	r := run.Rand("c17-families")
	n := run.Pick(44, 400)
	var files []*c17File
	pkgs := []string{"", "a", "a.b.v1", "Mixed.Case_pkg"}
	forms := []string{"option", "option;name", "M-parameter"}
	plainNames := []string{"Get", "GetItem", "get_item", "getItem", "List2", "do_it_now", "X", "a", "HTTPGet", "Get_Item", "get2_items", "_private", "Q1"}
	svcNames := []string{"Svc", "ItemService", "item_service", "lowerSvc", "S2", "Type", "Client", "Handler"}
	comments := []string{"", "", " A short comment.\n", " First line.\n Second line with `code` and \"quotes\".\n\n Third after a blank line.\n", " " + strings.Repeat("very long comment word ", 30) + "\n", " Deprecated: not really.\n", " ends with */ and // tokens\n"}
	kwi := 0
	for i := 0; i < n; i++ {
		f := &c17File{Index: i, ProtoName: fmt.Sprintf("f%d/svc.proto", i), Package: pkgs[i%len(pkgs)], GoPkgForm: forms[(i/len(pkgs))%len(forms)], TypesIn: -1}
		f.GoPath = fmt.Sprintf("verif.local/gen/f%d", i)
		f.GoPkgName = fmt.Sprintf("f%d", i)
		if f.GoPkgForm == "option;name" {
			f.GoPkgName = fmt.Sprintf("custom%dpb", i)
		}
		if i%11 == 5 {
			f.Deprecated = true
		}
		nsvc := 1 + r.Intn(3)
		if i%9 == 0 {
			nsvc = 4 // determinism across several services
		}
		if i == 3 || i%8 == 5 {
			nsvc = 0 // a file without services (messages only); i%8 == 5 puts one second in its batch of four, ahead of files with services
		}
		used := map[string]bool{}
		for si := 0; si < nsvc; si++ {
			name := svcNames[r.Intn(len(svcNames))]
			for used[goCamelCase(name)] {
				name = fmt.Sprintf("%s%d", name, si)
			}
			used[goCamelCase(name)] = true
			sv := c17Service{Name: name, Comment: comments[r.Intn(len(comments))], Deprecated: r.Intn(8) == 0}
			nm := 1 + r.Intn(6)
			if i%13 == 12 {
				nm = 0 // a file in which no service has a method (legal: service Placeholder {})
			}
			usedM := map[string]bool{}
			for mi := 0; mi < nm; mi++ {
				var mn string
				if r.Intn(3) == 0 || i < len(goKeywordNames)/3+1 {
					mn = goKeywordNames[kwi%len(goKeywordNames)]
					kwi++
				} else {
					mn = plainNames[r.Intn(len(plainNames))]
				}
				for usedM[goCamelCase(mn)] || usedM[strings.ToLower(goCamelCase(mn))] {
					mn = fmt.Sprintf("%s%d", mn, mi)
				}
				usedM[goCamelCase(mn)] = true
				usedM[strings.ToLower(goCamelCase(mn))] = true
				k := (i + si + mi) % 4
				sv.Methods = append(sv.Methods, c17Method{Name: mn, ClientStream: k == 1 || k == 3, ServerStream: k == 2 || k == 3, Deprecated: r.Intn(7) == 0, Comment: comments[r.Intn(len(comments))]})
			}
			f.Services = append(f.Services, sv)
		}
		if i%7 == 6 && i > 0 {
			f.TypesIn = i - 1 // request/response types from another file and package
		}
		f.shape = fmt.Sprintf("pkg=%q|form=%s|services=%d|dep=%v|xfile=%v", f.Package, f.GoPkgForm, nsvc, f.Deprecated, f.TypesIn >= 0)
		files = append(files, f)
	}
	// one more file in which every keyword / predeclared identifier is the name
	// of a method (all four kinds) - whatever the random draw above covered
	kf := &c17File{Index: n, ProtoName: fmt.Sprintf("f%d/svc.proto", n), Package: "kw.v1", GoPkgForm: "option", TypesIn: -1,
		GoPath: fmt.Sprintf("verif.local/gen/f%d", n), GoPkgName: fmt.Sprintf("f%d", n)}
	for si := 0; si*6 < len(goKeywordNames); si++ {
		sv := c17Service{Name: fmt.Sprintf("Keywords%d", si)}
		for mi := si * 6; mi < si*6+6 && mi < len(goKeywordNames); mi++ {
			k := mi % 4
			sv.Methods = append(sv.Methods, c17Method{Name: goKeywordNames[mi], ClientStream: k == 1 || k == 3, ServerStream: k == 2 || k == 3})
		}
		kf.Services = append(kf.Services, sv)
	}
	kf.shape = fmt.Sprintf("pkg=%q|form=option|services=%d|all-keywords", kf.Package, len(kf.Services))
	files = append(files, kf)
	return files
}

type svcInfo struct {
	File       int               `json:"file"`
	ImportPath string            `json:"import"`
	GoName     string            `json:"go_name"`
	FQ         string            `json:"fq"`
	Methods    map[string]string `json:"methods"` // GoName -> kind
	Procedures map[string]string `json:"procedures"`
}

type c17Tool struct {
	dir      string
	repo     string
	plugin   string
	protocGo string
	env      []string
}

func (t *c17Tool) run(bin string, req *pluginpb.CodeGeneratorRequest) (*pluginpb.CodeGeneratorResponse, error) {
	in, _ := proto.Marshal(req)
	cmd := exec.Command(bin)
	cmd.Stdin = bytes.NewReader(in)
	var out, errb bytes.Buffer
	cmd.Stdout, cmd.Stderr = &out, &errb
	if err := cmd.Run(); err != nil {
		return nil, fmt.Errorf("%v: %s", err, trunc(errb.String(), 500))
	}
	var resp pluginpb.CodeGeneratorResponse
	if err := proto.Unmarshal(out.Bytes(), &resp); err != nil {
		return nil, err
	}
	return &resp, nil
}

func (t *c17Tool) sh(dir string, args ...string) (string, error) {
	cmd := exec.Command(args[0], args[1:]...)
	cmd.Dir = dir
	cmd.Env = t.env
	b, err := cmd.CombinedOutput()
	return string(b), err
}

func c17(run *ev.Run) int {
	run.SetRule("descriptor families built with descriptorpb (no protoc): package absent / single / dotted / mixed case; service and method names CamelCase, snake_case, lowerCamel, digits, leading underscore and every name whose lower-camel form is a Go keyword or predeclared identifier; 0..4 services x 0..6 methods (some files have only method-less services) x 4 streaming kinds; deprecated file/service/method; leading comments (multi-line, long, with comment tokens); go_package as option, option;name and M parameter; request/response types from another file and package. Per file: the real plugin binary built from the tree runs as a child process (twice; 24 times for files with >= 3 services) - exit status, determinism (also: the output for a file is the same when all files are generated in one invocation), go/parser, AST extraction of the three path literals, constructor and mount prefix per method; all generated packages are type-checked in one scratch module against the tree and then RUN: every method of every service is called through the generated client against the generated handler with recording interceptors on both sides; finally the checked-in ping.connect.go is compared with the generator's output for the descriptor embedded in the checked-in ping.pb.go; distinct by (package form, go_package form, services, options, name class); history: a second file of the same package generated alone and after the first")
	repo := os.Getenv("VERIF_REPO")
	if repo == "" {
		repo = "/repo"
	}
	base := os.Getenv("TMPDIR")
	if base == "" {
		base = "/var/tmp"
	}
	dir, err := os.MkdirTemp(base, "verif-c17.")
	if err != nil {
		fmt.Fprintln(os.Stderr, err)
		return 2
	}
	defer os.RemoveAll(dir)
	t := &c17Tool{dir: dir, repo: repo, plugin: filepath.Join(dir, "protoc-gen-connect-go"), protocGo: filepath.Join(dir, "protoc-gen-go")}
	t.env = append(os.Environ(), "GOFLAGS=-mod=mod", "GOPROXY=off", "GOSUMDB=off", "GOTOOLCHAIN=local")
	if out, err := t.sh(repo, "go", "build", "-o", t.plugin, "./cmd/protoc-gen-connect-go"); err != nil {
		fmt.Fprintf(os.Stderr, "cannot build the plugin from %s: %v\n%s\n", repo, err, out)
		return 2
	}
	if out, err := t.sh(repo, "go", "build", "-o", t.protocGo, "google.golang.org/protobuf/cmd/protoc-gen-go"); err != nil {
		fmt.Fprintf(os.Stderr, "cannot build protoc-gen-go: %v\n%s\n", err, out)
		return 2
	}
	files := c17Families(run)
	gen := filepath.Join(dir, "gen")
	_ = os.MkdirAll(gen, 0o755)
	var svcs []svcInfo
	single := map[string]string{} // generated file name -> content when generated alone
	descs := make([]*descriptorpb.FileDescriptorProto, len(files))
	for i, f := range files {
		descs[i] = f.descriptor()
	}
	for i, f := range files {
		key := fmt.Sprintf("c17/file=%d/%s", i, f.shape)
		if !run.Want(key) {
			continue
		}
		fd := descs[i]
		// wire the message types
		reqType, resType := "."+strings.TrimPrefix(f.Package+".Req", "."), "."+strings.TrimPrefix(f.Package+".Res", ".")
		protoFiles := []*descriptorpb.FileDescriptorProto{}
		mparams := []string{}
		if f.TypesIn >= 0 {
			o := files[f.TypesIn]
			reqType, resType = "."+strings.TrimPrefix(o.Package+".Req", "."), "."+strings.TrimPrefix(o.Package+".Res", ".")
			fd.Dependency = []string{o.ProtoName}
			protoFiles = append(protoFiles, descs[f.TypesIn])
			if o.GoPkgForm == "M-parameter" {
				mparams = append(mparams, fmt.Sprintf("M%s=%s", o.ProtoName, o.GoPath))
			}
		}
		for _, sd := range fd.Service {
			for _, md := range sd.Method {
				md.InputType, md.OutputType = proto.String(reqType), proto.String(resType)
			}
		}
		protoFiles = append(protoFiles, fd)
		if f.GoPkgForm == "M-parameter" {
			mparams = append(mparams, fmt.Sprintf("M%s=%s", f.ProtoName, f.GoPath))
		}
		req := &pluginpb.CodeGeneratorRequest{FileToGenerate: []string{f.ProtoName}, ProtoFile: protoFiles}
		if len(mparams) > 0 {
			req.Parameter = proto.String(strings.Join(mparams, ","))
		}
		run.Eval(f.shape)
		detail := map[string]any{"file": f.ProtoName, "package": f.Package, "go_package_form": f.GoPkgForm, "services": f.Services}
		// messages
		mresp, err := t.run(t.protocGo, req)
		if err != nil || mresp.Error != nil {
			run.Inconclusive("protoc-gen-go failed for a harness descriptor")
			fmt.Fprintf(os.Stderr, "protoc-gen-go: %v %v\n", err, mresp.GetError())
			continue
		}
		for _, gf := range mresp.File {
			p := filepath.Join(gen, strings.TrimPrefix(gf.GetName(), "verif.local/gen/"))
			_ = os.MkdirAll(filepath.Dir(p), 0o755)
			_ = os.WriteFile(p, []byte(gf.GetContent()), 0o644)
		}
		// the plugin under test
		resp, err := t.run(t.plugin, req)
		run.Count("plugin.runs", 1)
		if err != nil {
			run.Violation(key+"/plugin-failed", "the generator failed on a valid file: "+err.Error(), detail)
			continue
		}
		if resp.Error != nil {
			run.Violation(key+"/plugin-error", "the generator reported an error on a valid file: "+resp.GetError(), detail)
			continue
		}
		// Whatever it emits, the plugin declares that it understands proto3
		// optional fields: protoc refuses the whole invocation for any proto3 file
		// with such a field otherwise, services or not.
		run.Count("supported_features.checked", 1)
		if resp.GetSupportedFeatures()&uint64(pluginpb.CodeGeneratorResponse_FEATURE_PROTO3_OPTIONAL) == 0 {
			run.Violation(key+"/supported-features", fmt.Sprintf("the generator's response does not declare FEATURE_PROTO3_OPTIONAL (supported_features = %d); protoc would reject the invocation for a proto3 file with optional fields", resp.GetSupportedFeatures()), detail)
			continue
		}
		if len(f.Services) == 0 {
			if len(resp.File) != 0 {
				run.Violation(key+"/output-without-services", "the generator emitted a file for a proto file without services", detail)
			}
			continue
		}
		if len(resp.File) != 1 {
			run.Violation(key+"/file-count", fmt.Sprintf("expected one generated file, got %d", len(resp.File)), detail)
			continue
		}
		content := resp.File[0].GetContent()
		reruns := 1
		if len(f.Services) >= 3 {
			reruns = 24
		}
		deterministic := true
		for k := 0; k < reruns && deterministic; k++ {
			again, err := t.run(t.plugin, req)
			run.Count("plugin.runs", 1)
			if err != nil || len(again.File) != 1 || again.File[0].GetContent() != content || again.File[0].GetName() != resp.File[0].GetName() {
				deterministic = false
			}
		}
		run.Count("determinism.checked", 1)
		if !deterministic {
			run.Violation(key+"/nondeterministic", "the generator produced different output for the same request", detail)
			continue
		}
		name := resp.File[0].GetName()
		detail["generated_file"] = name
		fset := token.NewFileSet()
		af, perr := parser.ParseFile(fset, name, content, parser.ParseComments)
		run.Count("files.parsed", 1)
		if perr != nil {
			detail["parse_error"] = perr.Error()
			detail["source_excerpt"] = trunc(content, 3000)
			run.Violation(key+"/unparsable", "generated code is not syntactically valid Go: "+perr.Error(), detail)
			continue
		}
		wantPkg := f.GoPkgName + "connect"
		if af.Name.Name != wantPkg {
			run.Violation(key+"/package-name", fmt.Sprintf("generated package is %q, expected %q", af.Name.Name, wantPkg), detail)
			continue
		}
		// AST extraction
		if !c17CheckAST(run, key, f, af, content, detail) {
			continue
		}
		p := filepath.Join(gen, strings.TrimPrefix(name, "verif.local/gen/"))
		_ = os.MkdirAll(filepath.Dir(p), 0o755)
		_ = os.WriteFile(p, []byte(content), 0o644)
		single[name] = content
		for _, sv := range f.Services {
			si := svcInfo{File: i, ImportPath: "verif.local/gen/" + filepath.ToSlash(filepath.Dir(strings.TrimPrefix(name, "verif.local/gen/"))), GoName: goCamelCase(sv.Name), FQ: f.fq(sv), Methods: map[string]string{}, Procedures: map[string]string{}}
			for _, m := range sv.Methods {
				si.Methods[goCamelCase(m.Name)] = kindOf(m)
				si.Procedures[goCamelCase(m.Name)] = "/" + f.fq(sv) + "/" + m.Name
			}
			svcs = append(svcs, si)
		}
		if i%9 == 1 {
			run.Sample(map[string]any{"file": f.ProtoName, "shape": f.shape, "services": f.Services})
		}
	}
	if !run.Replaying() {
		// one request for everything: what the generator emits for a file must
		// not depend on which other files are generated in the same invocation
		// (many of the files declare services of the same name in different
		// packages)
		// (batches of four consecutive files: their proto packages are distinct,
		// so their Req/Res messages do not collide)
		for b0 := 0; b0+4 <= len(files) && len(single) > 0; b0 += 4 {
			batch := &pluginpb.CodeGeneratorRequest{}
			var mparams []string
			okBatch, expect := true, 0
			for i := b0; i < b0+4; i++ {
				f := files[i]
				if f.TypesIn >= 0 && f.TypesIn < b0 {
					okBatch = false // its message types live in a file outside this batch
				}
				batch.FileToGenerate = append(batch.FileToGenerate, f.ProtoName)
				batch.ProtoFile = append(batch.ProtoFile, descs[i])
				if f.GoPkgForm == "M-parameter" {
					mparams = append(mparams, fmt.Sprintf("M%s=%s", f.ProtoName, f.GoPath))
				}
				if len(f.Services) > 0 {
					expect++
				}
			}
			if !okBatch {
				continue
			}
			if len(mparams) > 0 {
				batch.Parameter = proto.String(strings.Join(mparams, ","))
			}
			bkey := fmt.Sprintf("c17/batch=%d", b0/4)
			bresp, err := t.run(t.plugin, batch)
			run.Count("plugin.runs", 1)
			run.Count("batch.invocations", 1)
			switch {
			case err != nil:
				run.Violation(bkey+"/plugin-failed", "the generator failed when four files were generated in one invocation: "+trunc(err.Error(), 600), nil)
			case bresp.Error != nil:
				run.Violation(bkey+"/plugin-error", "the generator reported an error when four files were generated in one invocation: "+trunc(bresp.GetError(), 600), nil)
			default:
				seen := 0
				for _, gf := range bresp.File {
					want, ok := single[gf.GetName()]
					if !ok {
						continue
					}
					seen++
					run.Count("batch.files.compared", 1)
					if gf.GetContent() != want {
						run.Violation(bkey+"/differs", "the code generated for "+gf.GetName()+" differs when other files are generated in the same invocation: "+firstDiff(want, gf.GetContent()), nil)
						break
					}
				}
				if seen < expect && len(bresp.File) < expect {
					run.Violation(bkey+"/missing", fmt.Sprintf("one invocation for four files produced %d generated files, the single invocations %d", len(bresp.File), expect), nil)
				}
			}
		}
		// siblings: a second file in the same proto package (and Go package) as a
		// file generated before it in the same invocation - how real packages
		// look (a.proto and b.proto of one package). It declares its own services
		// and uses the first file's messages; what is generated for it, and for
		// the first file, must be what single invocations produce.
		nsib := 0
		for i, f := range files {
			if len(f.Services) == 0 || len(f.Services[0].Methods) == 0 || f.TypesIn >= 0 || nsib >= run.Pick(12, 60) || single == nil {
				continue
			}
			wantA, okA := "", false
			for name, c := range single {
				if strings.HasPrefix(name, strings.TrimSuffix(f.ProtoName, "svc.proto")) || strings.Contains(name, fmt.Sprintf("/f%d/", i)) {
					wantA, okA = c, true
					_ = name
				}
			}
			sib := proto.Clone(descs[i]).(*descriptorpb.FileDescriptorProto)
			sib.Name = proto.String(fmt.Sprintf("f%d/sibling.proto", i))
			sib.MessageType = nil
			sib.Dependency = []string{f.ProtoName}
			sib.SourceCodeInfo = nil
			for _, sd := range sib.Service {
				sd.Name = proto.String(sd.GetName() + "Sibling")
			}
			var params *string
			if f.GoPkgForm == "M-parameter" {
				params = proto.String(fmt.Sprintf("M%s=%s,M%s=%s", f.ProtoName, f.GoPath, sib.GetName(), f.GoPath))
			}
			alone, err1 := t.run(t.plugin, &pluginpb.CodeGeneratorRequest{FileToGenerate: []string{sib.GetName()}, ProtoFile: []*descriptorpb.FileDescriptorProto{descs[i], sib}, Parameter: params})
			both, err2 := t.run(t.plugin, &pluginpb.CodeGeneratorRequest{FileToGenerate: []string{f.ProtoName, sib.GetName()}, ProtoFile: []*descriptorpb.FileDescriptorProto{descs[i], sib}, Parameter: params})
			run.Count("plugin.runs", 2)
			run.Count("sibling.invocations", 1)
			nsib++
			skey := fmt.Sprintf("c17/sibling/file=%d", i)
			run.Eval("sibling|" + f.shape)
			if err1 != nil || err2 != nil || alone.Error != nil || both.Error != nil {
				run.Violation(skey+"/plugin-failed", fmt.Sprintf("the generator failed on a second file of the same package: %v %v %q %q", err1, err2, alone.GetError(), both.GetError()), nil)
				continue
			}
			if len(alone.File) != 1 || len(both.File) != 2 {
				run.Violation(skey+"/files", fmt.Sprintf("generated %d file(s) for the sibling alone and %d for the pair (want 1 and 2)", len(alone.File), len(both.File)), nil)
				continue
			}
			for _, gf := range both.File {
				switch {
				case gf.GetName() == alone.File[0].GetName():
					if gf.GetContent() != alone.File[0].GetContent() {
						run.Violation(skey+"/differs", "the code generated for the second file of a package differs when the first file is generated before it in the same invocation: "+firstDiff(alone.File[0].GetContent(), gf.GetContent()), nil)
					}
				case okA && single[gf.GetName()] != "":
					if gf.GetContent() != single[gf.GetName()] {
						run.Violation(skey+"/first-differs", "the code generated for a file differs when a second file of its package follows in the same invocation: "+firstDiff(single[gf.GetName()], gf.GetContent()), nil)
					}
				}
			}
			_ = wantA
		}
		c17BuildAndRun(run, t, gen, svcs)
		c17CheckedIn(run, t)
	}
	return run.Finish("plugin.runs", "files.parsed", "determinism.checked", "paths.checked", "runtime.methods.called")
}

func strLit(e ast.Expr) (string, bool) {
	bl, ok := e.(*ast.BasicLit)
	if !ok || bl.Kind != token.STRING {
		return "", false
	}
	s, err := strconv.Unquote(bl.Value)
	return s, err == nil
}

// c17CheckAST extracts, per method, the mux pattern, the handler procedure and
// the client URL suffix, the constructor used, and the mount prefix.
func c17CheckAST(run *ev.Run, key string, f *c17File, af *ast.File, content string, detail map[string]any) bool {
	type found struct{ mux, handlerProc, ctor string }
	handlers := map[string][]found{} // service GoName -> in order
	clientPaths := map[string][]string{}
	clientCalls := map[string]map[string]string{} // receiver -> method -> Call*
	prefixes := map[string]string{}
	for _, d := range af.Decls {
		fn, ok := d.(*ast.FuncDecl)
		if !ok {
			continue
		}
		name := fn.Name.Name
		switch {
		case fn.Recv == nil && strings.HasPrefix(name, "New") && strings.HasSuffix(name, "Handler"):
			base := strings.TrimSuffix(strings.TrimPrefix(name, "New"), "Handler")
			ast.Inspect(fn.Body, func(n ast.Node) bool {
				switch x := n.(type) {
				case *ast.CallExpr:
					if sel, ok := x.Fun.(*ast.SelectorExpr); ok && sel.Sel.Name == "Handle" && len(x.Args) == 2 {
						pat, _ := strLit(x.Args[0])
						fd := found{mux: pat}
						if inner, ok := x.Args[1].(*ast.CallExpr); ok {
							if isel, ok := inner.Fun.(*ast.SelectorExpr); ok {
								fd.ctor = isel.Sel.Name
							}
							if len(inner.Args) > 0 {
								fd.handlerProc, _ = strLit(inner.Args[0])
							}
						}
						handlers[base] = append(handlers[base], fd)
					}
				case *ast.ReturnStmt:
					if len(x.Results) == 2 {
						if s, ok := strLit(x.Results[0]); ok {
							prefixes[base] = s
						}
					}
				}
				return true
			})
		case fn.Recv == nil && strings.HasPrefix(name, "New") && strings.HasSuffix(name, "Client"):
			base := strings.TrimSuffix(strings.TrimPrefix(name, "New"), "Client")
			ast.Inspect(fn.Body, func(n ast.Node) bool {
				if be, ok := n.(*ast.BinaryExpr); ok && be.Op == token.ADD {
					if s, ok := strLit(be.Y); ok {
						clientPaths[base] = append(clientPaths[base], s)
					}
				}
				return true
			})
		case fn.Recv != nil && len(fn.Recv.List) == 1:
			recv := ""
			if st, ok := fn.Recv.List[0].Type.(*ast.StarExpr); ok {
				if id, ok := st.X.(*ast.Ident); ok {
					recv = id.Name
				}
			}
			ast.Inspect(fn.Body, func(n ast.Node) bool {
				if ce, ok := n.(*ast.CallExpr); ok {
					if sel, ok := ce.Fun.(*ast.SelectorExpr); ok && strings.HasPrefix(sel.Sel.Name, "Call") {
						if clientCalls[recv] == nil {
							clientCalls[recv] = map[string]string{}
						}
						clientCalls[recv][name] = sel.Sel.Name
					}
				}
				return true
			})
		}
	}
	ctorFor := map[string]string{"unary": "NewUnaryHandler", "client": "NewClientStreamHandler", "server": "NewServerStreamHandler", "bidi": "NewBidiStreamHandler"}
	callFor := map[string]string{"unary": "CallUnary", "client": "CallClientStream", "server": "CallServerStream", "bidi": "CallBidiStream"}
	for _, sv := range f.Services {
		g := goCamelCase(sv.Name)
		fq := f.fq(sv)
		hs, cp := handlers[g], clientPaths[g]
		if len(hs) != len(sv.Methods) || len(cp) != len(sv.Methods) {
			detail["handlers_found"], detail["client_paths_found"] = len(hs), len(cp)
			run.Violation(key+"/registrations", fmt.Sprintf("service %s has %d methods but the generated code registers %d handlers and builds %d clients", fq, len(sv.Methods), len(hs), len(cp)), detail)
			return false
		}
		if got, want := prefixes[g], "/"+fq+"/"; got != want {
			run.Violation(key+"/mount-prefix", fmt.Sprintf("mount prefix %q, canonical is %q", got, want), detail)
			return false
		}
		implRecv := ""
		for recv := range clientCalls {
			if strings.EqualFold(strings.TrimPrefix(recv, "_"), g+"Client") {
				implRecv = recv
			}
		}
		for mi, m := range sv.Methods {
			want := "/" + fq + "/" + m.Name
			run.Count("paths.checked", 3)
			if hs[mi].mux != want || hs[mi].handlerProc != want || cp[mi] != want {
				detail["method"] = m.Name
				run.Violation(key+"/path", fmt.Sprintf("method %s.%s: mux pattern %q, handler procedure %q, client URL suffix %q; canonical path is %q", fq, m.Name, hs[mi].mux, hs[mi].handlerProc, cp[mi], want), detail)
				return false
			}
			k := kindOf(m)
			if hs[mi].ctor != ctorFor[k] {
				run.Violation(key+"/constructor", fmt.Sprintf("method %s.%s is %s-streaming but is registered with %s", fq, m.Name, k, hs[mi].ctor), detail)
				return false
			}
			if got := clientCalls[implRecv][goCamelCase(m.Name)]; got != callFor[k] {
				run.Violation(key+"/client-call", fmt.Sprintf("method %s.%s is %s-streaming but the client calls %q", fq, m.Name, k, got), detail)
				return false
			}
		}
	}
	return true
}

const c17DriverTmpl = `package main

import (
	"context"
	"encoding/json"
	"fmt"
	"net/http"
	"net/http/httptest"
	"os"
	"reflect"
	"sync"

	connect "github.com/bufbuild/connect-go"
%s
)

type rec struct {
	mu    sync.Mutex
	specs []connect.Spec
}

func (r *rec) add(s connect.Spec) { r.mu.Lock(); r.specs = append(r.specs, s); r.mu.Unlock() }
func (r *rec) take() []connect.Spec { r.mu.Lock(); defer r.mu.Unlock(); o := r.specs; r.specs = nil; return o }
func (r *rec) WrapUnary(next connect.UnaryFunc) connect.UnaryFunc {
	return func(ctx context.Context, req connect.AnyRequest) (connect.AnyResponse, error) { r.add(req.Spec()); return next(ctx, req) }
}
func (r *rec) WrapStreamingClient(next connect.StreamingClientFunc) connect.StreamingClientFunc {
	return func(ctx context.Context, s connect.Spec) connect.StreamingClientConn { r.add(s); return next(ctx, s) }
}
func (r *rec) WrapStreamingHandler(next connect.StreamingHandlerFunc) connect.StreamingHandlerFunc {
	return func(ctx context.Context, c connect.StreamingHandlerConn) error { r.add(c.Spec()); return next(ctx, c) }
}

type result struct {
	Index   int
	Service string
	Method  string
	Prefix  string
	Client  []connect.Spec
	Handler []connect.Spec
	Err     string
	Code    string
	Panic   string
}

func callAll(index int, service string, prefix string, handler http.Handler, mkClient func(connect.HTTPClient, string, ...connect.ClientOption) any, hrec *rec, out *[]result) {
	mux := http.NewServeMux()
	mux.Handle(prefix, handler)
	srv := httptest.NewUnstartedServer(mux)
	srv.EnableHTTP2 = true
	srv.StartTLS()
	defer srv.Close()
	crec := &rec{}
	client := mkClient(srv.Client(), srv.URL, connect.WithInterceptors(crec))
	cv := reflect.ValueOf(client)
	for i := 0; i < cv.NumMethod(); i++ {
		m := cv.Type().Method(i)
		r := result{Index: index, Service: service, Method: m.Name, Prefix: prefix}
		func() {
			defer func() {
				if p := recover(); p != nil {
					r.Panic = fmt.Sprint(p)
				}
			}()
			mt := cv.Method(i).Type()
			args := []reflect.Value{reflect.ValueOf(context.Background())}
			if mt.NumIn() == 2 {
				reqv := reflect.New(mt.In(1).Elem())
				reqv.Elem().FieldByName("Msg").Set(reflect.New(reqv.Elem().FieldByName("Msg").Type().Elem()))
				args = append(args, reqv)
			}
			outs := cv.Method(i).Call(args)
			var err error
			last := outs[len(outs)-1]
			if last.Type().Implements(reflect.TypeOf((*error)(nil)).Elem()) {
				if !last.IsNil() {
					err = last.Interface().(error)
				}
			}
			st := outs[0]
			if err == nil && st.Kind() == reflect.Ptr && !st.IsNil() {
				if f := st.MethodByName("CloseAndReceive"); f.IsValid() {
					o := f.Call(nil)
					if !o[1].IsNil() {
						err = o[1].Interface().(error)
					}
				} else if f := st.MethodByName("CloseRequest"); f.IsValid() {
					f.Call(nil)
					o := st.MethodByName("Receive").Call(nil)
					if !o[1].IsNil() {
						err = o[1].Interface().(error)
					}
					st.MethodByName("CloseResponse").Call(nil)
				} else if f := st.MethodByName("Receive"); f.IsValid() && f.Type().NumOut() == 1 {
					for f.Call(nil)[0].Bool() {
					}
					if e := st.MethodByName("Err").Call(nil)[0]; !e.IsNil() {
						err = e.Interface().(error)
					}
					st.MethodByName("Close").Call(nil)
				}
			}
			if err != nil {
				r.Err = err.Error()
				r.Code = connect.CodeOf(err).String()
			}
		}()
		r.Client, r.Handler = crec.take(), hrec.take()
		*out = append(*out, r)
	}
}

func main() {
	var out []result
%s
	b, _ := json.Marshal(out)
	os.Stdout.Write(b)
}
`

func c17BuildAndRun(run *ev.Run, t *c17Tool, gen string, svcs []svcInfo) {
	if len(svcs) == 0 {
		return
	}
	gomod := fmt.Sprintf("module verif.local/gen\n\ngo 1.18\n\nrequire (\n\tgithub.com/bufbuild/connect-go v0.0.0\n\tgoogle.golang.org/protobuf v1.28.0\n)\n\nreplace github.com/bufbuild/connect-go => %s\n", t.repo)
	_ = os.WriteFile(filepath.Join(gen, "go.mod"), []byte(gomod), 0o644)
	if b, err := os.ReadFile(filepath.Join(t.repo, "go.sum")); err == nil {
		_ = os.WriteFile(filepath.Join(gen, "go.sum"), b, 0o644)
	}
	var imports, calls strings.Builder
	seen := map[string]string{}
	for i, s := range svcs {
		alias, ok := seen[s.ImportPath]
		if !ok {
			alias = fmt.Sprintf("p%d", i)
			seen[s.ImportPath] = alias
			fmt.Fprintf(&imports, "\t%s %q\n", alias, s.ImportPath)
		}
		fmt.Fprintf(&calls, "\t{\n\t\threc := &rec{}\n\t\tprefix, h := %s.New%sHandler(%s.Unimplemented%sHandler{}, connect.WithInterceptors(hrec))\n\t\tcallAll(%d, %q, prefix, h, func(c connect.HTTPClient, u string, o ...connect.ClientOption) any { return %s.New%sClient(c, u, o...) }, hrec, &out)\n\t}\n",
			alias, s.GoName, alias, s.GoName, i, s.FQ, alias, s.GoName)
	}
	_ = os.MkdirAll(filepath.Join(gen, "cmd", "driver"), 0o755)
	_ = os.WriteFile(filepath.Join(gen, "cmd", "driver", "main.go"), []byte(fmt.Sprintf(c17DriverTmpl, imports.String(), calls.String())), 0o644)
	start := time.Now()
	out, err := t.sh(gen, "go", "build", "-o", filepath.Join(t.dir, "driver"), "./cmd/driver")
	run.Set("typecheck_build_seconds", time.Since(start).Seconds())
	if err != nil {
		// find which generated package fails
		out2, _ := t.sh(gen, "go", "build", "./...")
		run.Violation("c17/type-check", "generated code does not type-check against the library", map[string]any{"go_build": trunc(out+out2, 6000)})
		return
	}
	run.Count("packages.typechecked", int64(len(seen)))
	cmd := exec.Command(filepath.Join(t.dir, "driver"))
	// several harness files deliberately share proto packages and names
	cmd.Env = append(os.Environ(), "GOLANG_PROTOBUF_REGISTRATION_CONFLICT=ignore")
	var stdout, stderr bytes.Buffer
	cmd.Stdout, cmd.Stderr = &stdout, &stderr
	done := make(chan error, 1)
	go func() { done <- cmd.Run() }()
	select {
	case err = <-done:
	case <-time.After(10 * time.Minute):
		_ = cmd.Process.Kill()
		run.Violation("c17/runtime-hang", "the program built from the generated code did not finish", nil)
		return
	}
	if err != nil {
		run.Violation("c17/runtime-crash", "the program built from the generated code crashed: "+err.Error(), trunc(stderr.String(), 4000))
		return
	}
	var results []struct {
		Index                                     int
		Service, Method, Prefix, Err, Code, Panic string
		Client, Handler                           []struct {
			StreamType int
			Procedure  string
			IsClient   bool
		}
	}
	if err := json.Unmarshal(stdout.Bytes(), &results); err != nil {
		run.Violation("c17/runtime-output", "driver output unparsable: "+err.Error(), trunc(stdout.String(), 2000))
		return
	}
	byFQ := map[string]int{}
	for i, s := range svcs {
		byFQ[s.FQ+"@"+s.ImportPath] = i
	}
	stream := map[string]int{"unary": 0, "client": 1, "server": 2, "bidi": 3}
	bySvc := map[string][]int{}
	for i, s := range svcs {
		bySvc[s.FQ] = append(bySvc[s.FQ], i)
	}
	called := map[string]int{}
	for _, r := range results {
		run.Count("runtime.methods.called", 1)
		var s *svcInfo
		if r.Index >= 0 && r.Index < len(svcs) {
			if _, ok := svcs[r.Index].Methods[r.Method]; ok {
				s = &svcs[r.Index]
			}
		}
		key := fmt.Sprintf("c17/runtime/%s/%s", r.Service, r.Method)
		if s == nil {
			run.Violation(key+"/unknown-method", "the generated client has a method the descriptor does not predict", r)
			continue
		}
		called[fmt.Sprintf("%d/%s", r.Index, r.Method)]++
		want := s.Procedures[r.Method]
		k := s.Methods[r.Method]
		detail := map[string]any{"result": r, "expected_procedure": want, "kind": k}
		if r.Panic != "" {
			run.Violation(key+"/panic", "calling the generated client panicked: "+r.Panic, detail)
			continue
		}
		if want == "" {
			continue
		}
		if r.Prefix != "/"+s.FQ+"/" {
			run.Violation(key+"/prefix", fmt.Sprintf("handler constructor returned mount prefix %q", r.Prefix), detail)
			continue
		}
		if len(r.Handler) != 1 {
			run.Violation(key+"/not-routed", fmt.Sprintf("the call did not reach the generated handler (handler interceptor fired %d times, client error %q)", len(r.Handler), r.Err), detail)
			continue
		}
		if r.Code != "unimplemented" {
			run.Violation(key+"/outcome", fmt.Sprintf("Unimplemented handler answered %q (%s)", r.Code, r.Err), detail)
			continue
		}
		if len(r.Client) != 1 || r.Client[0].Procedure != want || r.Handler[0].Procedure != want || !r.Client[0].IsClient || r.Handler[0].IsClient {
			run.Violation(key+"/spec-procedure", fmt.Sprintf("Spec procedures: client %+v handler %+v, canonical %q", r.Client, r.Handler, want), detail)
			continue
		}
		if r.Client[0].StreamType != stream[k] || r.Handler[0].StreamType != stream[k] {
			run.Violation(key+"/spec-stream-type", fmt.Sprintf("method is %s-streaming, Specs say client %d handler %d", k, r.Client[0].StreamType, r.Handler[0].StreamType), detail)
		}
	}
	for i, s := range svcs {
		for m := range s.Methods {
			if called[fmt.Sprintf("%d/%s", i, m)] == 0 {
				run.Violation(fmt.Sprintf("c17/runtime/%s/%s/missing", s.FQ, m), "the generated client has no method for this RPC", s)
			}
		}
	}
}

// c17CheckedIn compares the checked-in ping.connect.go with the generator's
// output for the descriptor embedded in the checked-in ping.pb.go.
func c17CheckedIn(run *ev.Run, t *c17Tool) {
	pkgDir := filepath.Join(t.repo, "internal", "gen", "connect", "ping", "v1")
	dump := filepath.Join(t.dir, "ping.fd.bin")
	testSrc := fmt.Sprintf(`package pingv1

import (
	"os"
	"testing"

	"google.golang.org/protobuf/proto"
	"google.golang.org/protobuf/reflect/protodesc"
)

func TestVerifDumpDescriptor(t *testing.T) {
	b, err := proto.Marshal(protodesc.ToFileDescriptorProto(File_connect_ping_v1_ping_proto))
	if err != nil {
		t.Fatal(err)
	}
	if err := os.WriteFile(%q, b, 0o644); err != nil {
		t.Fatal(err)
	}
}
`, dump)
	src := filepath.Join(t.dir, "dump_test.go")
	_ = os.WriteFile(src, []byte(testSrc), 0o644)
	ov := filepath.Join(t.dir, "ov.json")
	_ = os.WriteFile(ov, []byte(fmt.Sprintf(`{"Replace":{%q:%q}}`, filepath.Join(pkgDir, "zz_verif_dump_test.go"), src)), 0o644)
	if out, err := t.sh(pkgDir, "go", "test", "-vet=off", "-count=1", "-overlay", ov, "-run", "^TestVerifDumpDescriptor$", "."); err != nil {
		run.Inconclusive("could not dump the checked-in descriptor")
		fmt.Fprintf(os.Stderr, "descriptor dump failed: %v\n%s\n", err, out)
		return
	}
	raw, err := os.ReadFile(dump)
	if err != nil {
		run.Inconclusive("checked-in descriptor dump missing")
		return
	}
	var fd descriptorpb.FileDescriptorProto
	if err := proto.Unmarshal(raw, &fd); err != nil {
		run.Inconclusive("checked-in descriptor unparsable")
		return
	}
	resp, err := t.run(t.plugin, &pluginpb.CodeGeneratorRequest{FileToGenerate: []string{fd.GetName()}, ProtoFile: []*descriptorpb.FileDescriptorProto{&fd}, Parameter: proto.String("paths=source_relative")})
	run.Eval("checked-in|ping")
	if err != nil || resp.Error != nil || len(resp.File) != 1 {
		run.Violation("c17/checked-in/generate", fmt.Sprintf("the generator failed on the checked-in descriptor: %v %v", err, resp.GetError()), nil)
		return
	}
	checked, err := os.ReadFile(filepath.Join(t.repo, "internal", "gen", filepath.FromSlash(resp.File[0].GetName())))
	if err != nil {
		run.Violation("c17/checked-in/missing", "the generator writes "+resp.File[0].GetName()+" but no such file is checked in", nil)
		return
	}
	protoSrc, _ := os.ReadFile(filepath.Join(t.repo, "internal", "proto", "connect", "ping", "v1", "ping.proto"))
	norm := func(s string, isChecked bool) []string {
		lines := strings.Split(s, "\n")
		if isChecked {
			// the licence header that the repository's licence tool prepends
			for i, l := range lines {
				if strings.HasPrefix(l, "// Code generated") {
					lines = lines[i:]
					break
				}
			}
		}
		var out []string
		for _, l := range lines {
			out = append(out, strings.TrimRight(l, " \t"))
		}
		return out
	}
	want := norm(resp.File[0].GetContent(), false)
	got := norm(string(checked), true)
	// The embedded descriptor has no source info, so comment lines copied from
	// the .proto are missing from the regenerated file: drop from the checked-in
	// text every pure comment line that occurs as a comment in ping.proto.
	protoComments := map[string]bool{}
	for _, l := range strings.Split(string(protoSrc), "\n") {
		t := strings.TrimSpace(l)
		if strings.HasPrefix(t, "//") {
			protoComments[strings.TrimSpace(strings.TrimPrefix(t, "//"))] = true
		}
	}
	// Walk both texts; where they differ, the only thing allowed is an extra
	// pure comment line in the checked-in file that comes from ping.proto (or
	// the empty "//" separator that accompanies such comments).
	i, j := 0, 0
	for i < len(got) && j < len(want) {
		if got[i] == want[j] {
			i++
			j++
			continue
		}
		t := strings.TrimSpace(got[i])
		if strings.HasPrefix(t, "//") {
			text := strings.TrimSpace(strings.TrimPrefix(t, "//"))
			if text == "" || protoComments[text] {
				i++
				continue
			}
		}
		break
	}
	for i < len(got) && strings.TrimSpace(got[i]) == "" {
		i++
	}
	for j < len(want) && strings.TrimSpace(want[j]) == "" {
		j++
	}
	run.Count("checked_in.lines.compared", int64(i))
	if i < len(got) || j < len(want) {
		a, b := "<end of file>", "<end of file>"
		if i < len(got) {
			a = got[i]
		}
		if j < len(want) {
			b = want[j]
		}
		run.Violation("c17/checked-in/differs", "the checked-in generated code is not what the generator produces from the checked-in descriptor", map[string]any{"checked_in_line": i + 1, "checked_in": a, "regenerated_line": j + 1, "regenerated": b})
	}
	_ = sort.Strings
	_ = rand.Int
}

// firstDiff describes the first line at which two texts differ.
func firstDiff(a, b string) string {
	la, lb := strings.Split(a, "\n"), strings.Split(b, "\n")
	for i := 0; i < len(la) && i < len(lb); i++ {
		if la[i] != lb[i] {
			return fmt.Sprintf("line %d: alone %q, in the batch %q", i+1, trunc(la[i], 160), trunc(lb[i], 160))
		}
	}
	return fmt.Sprintf("lengths %d and %d lines", len(la), len(lb))
}
