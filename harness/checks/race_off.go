//go:build !race

package checks

// RaceEnabled reports whether the binary was built with the race detector.
const RaceEnabled = false
