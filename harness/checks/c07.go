package checks

import (
	"bytes"
	"context"
	"fmt"
	"math/rand"
	"net/http"
	"os"
	"strings"
	"sync/atomic"
	"time"

	connect "github.com/bufbuild/connect-go"
	"google.golang.org/protobuf/encoding/protojson"
	"google.golang.org/protobuf/proto"
	"verif.local/harness/ev"
	"verif.local/harness/gen"
	"verif.local/harness/refcodec"
	"verif.local/harness/svc"
	"verif.local/harness/wire"
)

func init() { register("C07", "exploration", c07) }

const c07ReadMax = 1 << 20

// hostileReq is one crafted request.
type hostileReq struct {
	class   string
	method  string
	proto   int // 1, 2, 10 (HTTP/1.0), 3
	header  http.Header
	body    []byte
	expect  string // "", "unimplemented-compression", "invalid-timeout"
	algName string
}

func decodeMsg(codec string, b []byte) (*gen.Msg, bool) {
	var m gen.Msg
	if codec == "json" {
		if protojson.Unmarshal(b, &m) != nil {
			return nil, false
		}
		return &m, true
	}
	if proto.Unmarshal(b, &m) != nil {
		return nil, false
	}
	return &m, true
}

// refRequest decodes a request body the way a strict peer would and returns
// the messages that are valid in order, and whether the body as a whole is
// malformed (first problem class).
func refRequest(protocol, codec string, streamingCT bool, hdr http.Header, body []byte, limit int) (valid []*gen.Msg, problem string) {
	encName := "Grpc-Encoding"
	if protocol == "connect" {
		encName = "Connect-Content-Encoding"
		if !streamingCT {
			encName = "Content-Encoding"
		}
	}
	enc := hdr.Get(encName)
	decompress := func(p []byte) ([]byte, string) {
		if enc == "" || enc == "identity" {
			return nil, "compressed-without-encoding"
		}
		if enc != "gzip" {
			return nil, "unknown-encoding"
		}
		out, err := refcodec.GzipDecompress(p)
		if err != nil {
			return nil, "corrupt-compressed"
		}
		return out, ""
	}
	if protocol == "connect" && !streamingCT {
		p := body
		if len(p) > limit {
			return nil, "oversize"
		}
		if enc != "" && enc != "identity" && len(p) > 0 {
			var why string
			if p, why = decompress(p); why != "" {
				return nil, why
			}
			if len(p) > limit {
				return nil, "oversize"
			}
		}
		m, ok := decodeMsg(codec, p)
		if !ok {
			return nil, "undecodable"
		}
		return []*gen.Msg{m}, ""
	}
	for len(body) > 0 {
		if len(body) < 5 {
			return valid, "truncated-prefix"
		}
		n := int(uint32(body[1])<<24 | uint32(body[2])<<16 | uint32(body[3])<<8 | uint32(body[4]))
		flags := body[0]
		if n > limit {
			return valid, "oversize"
		}
		if len(body)-5 < n {
			return valid, "truncated-payload"
		}
		p := body[5 : 5+n]
		body = body[5+n:]
		if flags&^1 != 0 {
			return valid, "bad-flags"
		}
		if flags&1 != 0 && len(p) > 0 {
			var why string
			if p, why = decompress(p); why != "" {
				return valid, why
			}
			if len(p) > limit {
				return valid, "oversize"
			}
		}
		if len(p) == 0 && codec == "json" {
			// a zero-length JSON payload: the library documents that it treats
			// a zero-length envelope as the zero message; a strict JSON reader
			// would reject it. Don't-care: follow the library's reading.
			valid = append(valid, gen.Zero())
			continue
		}
		m, ok := decodeMsg(codec, p)
		if !ok {
			return valid, "undecodable"
		}
		valid = append(valid, m)
	}
	return valid, ""
}

var badTimeoutsGRPC = []string{"5", "S", "5s", "5X", "1.5S", " 5S", "5 S", "123456789S", "123456789H", "999999999H", "100000000M", "99999999999999999999S", "0x5S", "5S5", "٣S", "５S"}
var badTimeoutsConnect = []string{"abc", "1e3", "1.5", " 5", "5 ", "12345678901", "0x10", "５", "5ms"}

func genRequest(r *rand.Rand, protocol, codec string, kind svc.Kind) *hostileReq {
	h := &hostileReq{class: "grammar/" + protocol, method: "POST", proto: 2, header: http.Header{}}
	h.header.Set("Content-Type", contentType(protocol, codec, kind))
	streamCT := !(protocol == "connect" && kind == svc.Unary)
	encName := "Grpc-Encoding"
	if protocol == "connect" {
		encName = "Connect-Content-Encoding"
		if !streamCT {
			encName = "Content-Encoding"
		}
	}
	enc := ""
	switch r.Intn(8) {
	case 0, 1:
		enc = "gzip"
	case 2:
		enc = []string{"br", "zstd", "GZIP", "gzip ", "x"}[r.Intn(5)]
		h.expect = "unimplemented-compression"
		h.algName = enc
	case 3:
		enc = "identity"
	}
	if enc != "" {
		h.header.Set(encName, enc)
	}
	if r.Intn(10) == 0 {
		if protocol == "connect" {
			h.header.Set("Connect-Timeout-Ms", badTimeoutsConnect[r.Intn(len(badTimeoutsConnect))])
		} else {
			h.header.Set("Grpc-Timeout", badTimeoutsGRPC[r.Intn(len(badTimeoutsGRPC))])
		}
		if h.expect == "" {
			h.expect = "invalid-timeout"
		}
	}
	mk := func(i int) []byte {
		m := &gen.Msg{Id: uint64(i + 1), Note: "req"}
		switch r.Intn(12) {
		case 0:
			m = gen.Zero()
		case 1:
			m = gen.New(uint64(i+1), 2000, true)
		}
		return encMsg(codec, m)
	}
	if !streamCT {
		p := mk(0)
		switch r.Intn(10) {
		case 0:
			p = p[:len(p)/2]
		case 1:
			p = []byte{0xff, 0xfe, 0xfd}
		case 2:
			if enc == "gzip" {
				p = refcodec.GzipCompress(p)
			}
		case 3:
			p = bytes.Repeat([]byte("a"), c07ReadMax+3)
		case 4:
			if enc == "gzip" {
				p = refcodec.GzipCompress(bytes.Repeat([]byte{0}, 8<<20))
			}
		case 5:
			p = nil
		}
		if enc == "gzip" && r.Intn(2) == 0 {
			p = refcodec.GzipCompress(p)
		}
		h.body = p
		return h
	}
	n := r.Intn(4)
	var body []byte
	for i := 0; i < n; i++ {
		p := mk(i)
		flags := byte(0)
		switch r.Intn(15) {
		case 0:
			flags = 1 // flag without (or with) encoding, payload not compressed
		case 1:
			flags = 1
			p = refcodec.GzipCompress(p)
		case 2:
			flags = []byte{0x02, 0x03, 0x80, 0x04, 0xff}[r.Intn(5)]
		case 3:
			p = p[:len(p)/2]
		case 4:
			p = []byte{0xff, 0xff, 0xff, 0xff}
		case 5:
			flags = 1
			p = refcodec.GzipCompress(bytes.Repeat([]byte{0}, 4<<20))
		case 6:
			flags = 1
			g := refcodec.GzipCompress(p)
			g[len(g)-5] ^= 0x40 // corrupt CRC
			p = g
		case 8:
			// reserved flag bits on a zero-length envelope
			flags, p = []byte{0x02, 0x04, 0x40, 0x80, 0xff, 0x03, 0x81}[r.Intn(7)], nil
		case 7:
			// frames only servers may send: gRPC-Web trailers / Connect end-of-stream
			if r.Intn(2) == 0 {
				flags, p = 0x80, []byte("x-a: b\r\ngrpc-status: 0\r\n")
			} else {
				flags, p = 0x02, []byte(`{"metadata":{"x-a":["b"]}}`)
			}
		}
		if enc == "gzip" && flags == 0 && r.Intn(2) == 0 {
			flags = 1
			p = refcodec.GzipCompress(p)
		}
		body = refcodec.AppendFrame(body, flags, p)
		if r.Intn(14) == 0 {
			lie := []uint32{0xffffffff, 0x80000000, c07ReadMax + 1, uint32(len(p) + 3), uint32(len(p) - 1)}[r.Intn(5)]
			off := len(body) - len(p) - 4
			body[off], body[off+1], body[off+2], body[off+3] = byte(lie>>24), byte(lie>>16), byte(lie>>8), byte(lie)
		}
	}
	switch r.Intn(12) {
	case 0:
		body = append(body, 0, 0, 0)
	case 1:
		if len(body) > 0 {
			body = body[:len(body)-1]
		}
	}
	h.body = body
	return h
}

func mutateReq(r *rand.Rand, rec *recorded) *hostileReq {
	h := &hostileReq{class: "mutation/" + rec.Proto, method: "POST", proto: 2, header: rec.Ex.ReqHeader.Clone(), body: append([]byte(nil), rec.Ex.ReqBody...)}
	for n := 1 + r.Intn(3); n > 0; n-- {
		switch r.Intn(9) {
		case 0, 1:
			if len(h.body) > 0 {
				h.body[r.Intn(len(h.body))] ^= 1 << uint(r.Intn(8))
			}
		case 2:
			if len(h.body) > 0 {
				h.body = h.body[:r.Intn(len(h.body))]
			}
		case 3:
			for k := range h.header {
				if r.Intn(3) == 0 {
					delete(h.header, k)
					break
				}
			}
		case 4:
			h.method = []string{"GET", "PUT", "post", "", "DELETE", "OPTIONS", "POST"}[r.Intn(7)]
		case 5:
			h.proto = []int{1, 10, 2, 3}[r.Intn(4)]
		case 6:
			if len(h.body) >= 5 {
				h.body[0] = byte(r.Intn(256))
			}
		case 7:
			ct := h.header.Get("Content-Type")
			h.header.Set("Content-Type", []string{"application/grpc", "application/json", "application/proto", "application/connect+proto", "application/grpc-web+json", "text/plain", "",
				ct + "; charset=utf-8", ct + ";x=y", strings.ToUpper(ct), strings.Replace(ct, "application", "Application", 1), " " + ct, ct + " "}[r.Intn(13)])
		case 8:
			h.body = append(h.body, h.body...)
		}
	}
	return h
}

func randomReq(r *rand.Rand, protocol, codec string, kind svc.Kind) *hostileReq {
	h := &hostileReq{class: "random/" + protocol, method: "POST", proto: 2, header: http.Header{}}
	h.header.Set("Content-Type", contentType(protocol, codec, kind))
	h.body = make([]byte, r.Intn(48))
	r.Read(h.body)
	if len(h.body) >= 5 && r.Intn(2) == 0 {
		h.body[0] &= 1
		h.body[1], h.body[2], h.body[3] = 0, 0, 0
	}
	return h
}

func c07(run *ev.Run) int {
	run.SetRule("cases = crafted (method, HTTP version, headers, body) from three generators - grammar-based hostile requests (unknown/odd encodings, malformed timeouts, flags, lying lengths, truncated/undecodable/oversize/bomb payloads), mutations of recorded valid requests (bit flips, truncation, dropped headers, method/version/content-type changes), random bytes, undecodable JSON whose offending token is several KiB of multi-byte characters, valid requests under a Content-Length unrelated to the body, and requests that must be refused (bad timeout, unknown compression) arriving on a request body that stays open until the handler answers - x 3 protocols x 2 codecs x 4 kinds x 2 handler configurations; also user codecs named in mixed/upper case addressed in every spelling (valid, truncated, garbage, empty bodies); nine-digit timeouts in every unit; oracle: no panic, returns, response well-formed per reference decoder (or bare 405/415/505), user code <= 1x, received messages a prefix of the reference-decoded valid prefix, documented error classes never answered with success; distinct by (generator class, config, kind, outcome class); a registered decompressor that reports corruption from Close instead of Read (payload never reaches user code, peer gets an error; intact payloads delivered)")
	run.Assume("handlers use WithReadMaxBytes(1 MiB)")
	n := run.Pick(1500, 60000)
	corp := buildCorpus(corpusSpec{protos: svc.Protocols, codecs: svc.Codecs, kinds: svc.Kinds, gzips: []bool{false, true}, counts: []int{1, 2}, scenarios: []string{"ok"}})
	byCfg := map[string][]*recorded{}
	for _, c := range corp {
		k := fmt.Sprintf("%s/%s/%s", c.Proto, c.Codec, c.Kind)
		byCfg[k] = append(byCfg[k], c)
	}
	type cfgT struct {
		proto, codec string
		kind         svc.Kind
		hv           int
	}
	var cfgs []cfgT
	for _, p := range svc.Protocols {
		for _, c := range svc.Codecs {
			for _, k := range svc.Kinds {
				for hv := 0; hv < 2; hv++ {
					cfgs = append(cfgs, cfgT{p, c, k, hv})
				}
			}
		}
	}
	parallel(16, len(cfgs), func(ci int) {
		c := cfgs[ci]
		cfg := fmt.Sprintf("%s/%s/%s/hv=%d", c.proto, c.codec, c.kind, c.hv)
		r := run.Rand("c07/" + cfg)
		hopts := []connect.HandlerOption{connect.WithReadMaxBytes(c07ReadMax)}
		if c.hv == 1 {
			hopts = append(hopts, connect.WithCompressMinBytes(64))
		}
		reg := svc.NewRegistry()
		hs := svc.Handlers(reg, hopts...)
		recs := byCfg[fmt.Sprintf("%s/%s/%s", c.proto, c.codec, c.kind)]
		for i := 0; i < n/2; i++ {
			var h *hostileReq
			switch {
			case i%10 < 6:
				h = genRequest(r, c.proto, c.codec, c.kind)
			case i%10 < 9:
				h = mutateReq(r, recs[r.Intn(len(recs))])
			default:
				h = randomReq(r, c.proto, c.codec, c.kind)
			}
			key := fmt.Sprintf("c07/%s/i=%d", cfg, i)
			if !run.Want(key) {
				continue
			}
			fmt.Fprintf(os.Stderr, "case %s\n", key)
			c07Case(run, reg, hs[c.kind], c.codec, c.kind, cfg, key, h)
		}
	})
	c07LongTokens(run)
	c07CustomCodecs(run)
	c07OpenBody(run, corp)
	// declared-length lies (Content-Length unrelated to the body)
	declaredLengthHandler(run, "c07", 1<<20, func(key string, hl *svc.HLog, res *wire.Result, panicked any, hung bool, _ uint64, detail map[string]any) {
		run.Count("requests", 1)
		switch {
		case hung:
			run.Violation(key+"/hang", "ServeHTTP did not return within 20 s", detail)
		case panicked != nil:
			run.Violation(key+"/panic", fmt.Sprintf("ServeHTTP panicked: %v", panicked), detail)
		case hl.Invocations > 1:
			run.Violation(key+"/invoked-twice", fmt.Sprintf("user code ran %d times for one request", hl.Invocations), detail)
		case res.Status == 0:
			run.Violation(key+"/no-response", "ServeHTTP returned without writing a response", detail)
		}
	})
	c07LateVerdict(run)
	return run.Finish("requests", "responses.decoded", "received.prefix.checked", "rejections.checked")
}

func protocolOfCT(ct string, kind svc.Kind) (protocol, codec string, streamCT bool, ok bool) {
	accepted := map[string]bool{}
	for _, a := range refcodec.AcceptedContentTypes(kind != svc.Unary, []string{"proto", "json"}) {
		accepted[a] = true
	}
	if !accepted[ct] {
		return "", "", false, false
	}
	switch {
	case ct == "application/grpc":
		return "grpc", "proto", true, true
	case ct == "application/grpc-web":
		return "grpcweb", "proto", true, true
	case strings.HasPrefix(ct, "application/grpc-web+"):
		return "grpcweb", strings.TrimPrefix(ct, "application/grpc-web+"), true, true
	case strings.HasPrefix(ct, "application/grpc+"):
		return "grpc", strings.TrimPrefix(ct, "application/grpc+"), true, true
	case strings.HasPrefix(ct, "application/connect+"):
		return "connect", strings.TrimPrefix(ct, "application/connect+"), true, true
	}
	return "connect", strings.TrimPrefix(ct, "application/"), false, true
}

func c07Case(run *ev.Run, reg *svc.Registry, handler *connect.Handler, _ string, kind svc.Kind, cfg, key string, h *hostileReq) {
	drains := kind == svc.ClientStream || kind == svc.Bidi
	var prog *svc.Program
	if kind == svc.ClientStream && len(h.body)%2 == 1 {
		// a client-stream handler that polls Receive a few more times after it
		// returned false (the stream keeps reporting its first error)
		// (receive until the stream reports its end or an error, then three more
		// times; the handler returns the first error it saw)
		prog = &svc.Program{ReturnFirstRecvErr: true, Steps: []svc.Step{{Op: "recvall"}, {Op: "recv"}, {Op: "recv"}, {Op: "recv"}, {Op: "sendsum"}}}
	} else if drains {
		prog = &svc.Program{Steps: []svc.Step{{Op: "recvall"}, {Op: "sendsum"}}, StopOnRecvErr: true}
	} else {
		prog = &svc.Program{Steps: []svc.Step{{Op: "recv"}, {Op: "sendsum"}}, StopOnRecvErr: true}
	}
	call := reg.New("c07", prog)
	defer reg.Drop(call)
	h.header.Set(wire.CallHeader, call.ID)
	rw := wire.NewRecorder()
	req := wire.ServerRequest(context.Background(), h.method, kind.Path(), h.header, &wire.ScriptedBody{Data: h.body}, h.proto)
	var panicked any
	ok, dump := watchdog(20*time.Second, func() {
		defer func() { panicked = recover() }()
		handler.ServeHTTP(rw, req)
	})
	run.Count("requests", 1)
	detail := map[string]any{"config": cfg, "class": h.class, "method": h.method, "http": h.proto, "header": h.header, "body_hex": trunc(fmt.Sprintf("%x", h.body), 600)}
	if !ok {
		run.Eval(cfg + "|" + h.class + "|hang")
		run.Violation(key+"/hang", "ServeHTTP did not return within 20 s", map[string]any{"case": detail, "goroutines": trunc(dump, 20000)})
		return
	}
	if panicked != nil {
		run.Eval(cfg + "|" + h.class + "|panic")
		run.Violation(key+"/panic", fmt.Sprintf("ServeHTTP panicked: %v", panicked), detail)
		return
	}
	res := rw.Finish()
	hl := call.Log
	detail["status"] = res.Status
	detail["resp_header"] = res.Header
	detail["resp_trailer"] = res.Trailer
	detail["resp_body_hex"] = trunc(fmt.Sprintf("%x", res.Body), 400)
	if hl.Invocations > 1 {
		run.Violation(key+"/invoked-twice", fmt.Sprintf("user code ran %d times for one request", hl.Invocations), detail)
		return
	}
	outcome := "dispatched"
	// ---- dispatch model (details belong to C12; here only well-formedness)
	protocol, codec, streamCT, selected := protocolOfCT(h.header.Get("Content-Type"), kind)
	bare := func(want int) bool {
		if res.Status != want || len(res.Body) != 0 {
			run.Violation(key+"/dispatch", fmt.Sprintf("expected a bare %d, got status %d with %d body bytes", want, res.Status, len(res.Body)), detail)
			return false
		}
		if hl.Invocations != 0 {
			run.Violation(key+"/dispatch-invoked", "user code ran for a request that was rejected at dispatch", detail)
			return false
		}
		return true
	}
	switch {
	case kind == svc.Bidi && (h.proto == 1 || h.proto == 10):
		outcome = "505"
		if !bare(505) {
			return
		}
	case h.method != "POST":
		outcome = "405"
		if !bare(405) {
			return
		}
	case !selected:
		outcome = "415"
		if !bare(415) {
			return
		}
	default:
		d := refcodec.DecodeResponse(protocol, streamCT, res.Status, res.Header, res.Body, res.Trailer, svc.RefAlgos())
		run.Count("responses.decoded", 1)
		if len(d.Problems) > 0 || !d.Complete {
			detail["problems"] = d.Problems
			detail["complete"] = d.Complete
			run.Violation(key+"/malformed-response", "response is not well-formed for the selected protocol: "+strings.Join(d.Problems, "; "), detail)
			return
		}
		wantCT := h.header.Get("Content-Type")
		if protocol == "connect" && !streamCT && d.Err != nil {
			wantCT = "application/json"
		}
		if got := res.Header.Get("Content-Type"); got != wantCT {
			run.Violation(key+"/content-type", fmt.Sprintf("response Content-Type %q, want %q", got, wantCT), detail)
			return
		}
		if d.Err != nil && d.Err.Code == 0 {
			run.Violation(key+"/zero-code", "error response carries code 0", detail)
			return
		}
		valid, problem := refRequest(protocol, codec, streamCT, h.header, h.body, c07ReadMax)
		detail["ref_problem"] = problem
		detail["ref_valid"] = gen.DescribeSeq(valid)
		detail["handler_received"] = gen.DescribeSeq(hl.Received)
		detail["handler_recv_err"] = errStr(hl.RecvErr)
		if d.Err != nil {
			outcome = "error:" + refcodec.CodeName(d.Err.Code)
		} else {
			outcome = "success"
		}
		if problem != "" {
			outcome += "/" + problem
		}
		// documented rejections
		encName := "Grpc-Encoding"
		if protocol == "connect" {
			encName = "Connect-Content-Encoding"
			if !streamCT {
				encName = "Content-Encoding"
			}
		}
		if enc := h.header.Get(encName); enc != "" && enc != "identity" && enc != "gzip" {
			run.Count("rejections.checked", 1)
			if d.Err == nil || d.Err.Code != 12 || !strings.Contains(d.Err.Message, "gzip") || hl.Invocations != 0 {
				run.Violation(key+"/unknown-compression", fmt.Sprintf("request compressed with unsupported %q was not rejected as unimplemented listing the supported algorithms without running user code", enc), detail)
				return
			}
			run.Eval(cfg + "|" + h.class + "|" + outcome)
			return
		}
		if h.expect == "invalid-timeout" {
			run.Count("rejections.checked", 1)
			if d.Err == nil || d.Err.Code != 3 || hl.Invocations != 0 {
				run.Violation(key+"/invalid-timeout", "malformed timeout was not rejected as invalid_argument without running user code", detail)
				return
			}
			run.Eval(cfg + "|" + h.class + "|" + outcome)
			return
		}
		// user code only ever receives messages that decoded successfully
		run.Count("received.prefix.checked", 1)
		if okp, why := isPrefix(hl.Received, valid); !okp {
			run.Violation(key+"/received-invalid", "user code received a message the reference decoder could not extract from the request: "+why, detail)
			return
		}
		if hl.Invocations == 1 && hl.SawEOF && problem != "" && drains {
			run.Violation(key+"/clean-end-on-malformed", "handler saw a clean end of a malformed request stream ("+problem+")", detail)
			return
		}
		mustFail := false
		if problem != "" {
			if drains {
				mustFail = true
			} else if len(valid) == 0 {
				mustFail = true
			}
		}
		if !drains && problem == "" && len(valid) == 0 {
			mustFail = true // no message at all for a unary request
		}
		if mustFail {
			run.Count("rejections.checked", 1)
			if d.Err == nil {
				run.Violation(key+"/malformed-as-success", "malformed request ("+problem+") was answered with success", detail)
				return
			}
			okCodes := map[uint32]bool{3: true, 13: true, 2: true}
			if problem == "oversize" {
				okCodes = map[uint32]bool{3: true, 8: true}
			}
			if len(valid) == 0 && problem == "" {
				okCodes = map[uint32]bool{3: true, 13: true, 2: true, 12: true}
			}
			if !okCodes[d.Err.Code] {
				run.Violation(key+"/error-class", fmt.Sprintf("malformed request (%s) answered with code %s", problem, refcodec.CodeName(d.Err.Code)), detail)
				return
			}
		}
	}
	run.Eval(cfg + "|" + h.class + "|" + outcome)
	if h.class[0] == 'g' {
		run.Sample(map[string]any{"config": cfg, "class": h.class, "header": h.header, "body_len": len(h.body), "outcome": outcome})
	}
}

// c07OpenBody: requests the handler must refuse without user code - a malformed
// timeout, an unsupported compression - arrive on a request body whose sender
// has not finished (a streaming client that sent its first message and now
// waits for the answer). The refusal must not wait for the end of that body.
func c07OpenBody(run *ev.Run, corp []*recorded) {
	type refusal struct {
		name string
		set  func(h http.Header, proto string, stream bool)
		code uint32
	}
	refusals := []refusal{
		{"bad-timeout", func(h http.Header, proto string, _ bool) {
			if proto == "connect" {
				h.Set("Connect-Timeout-Ms", "12x")
			} else {
				h.Set("Grpc-Timeout", "12")
			}
		}, 3},
		{"unknown-compression", func(h http.Header, proto string, stream bool) {
			switch {
			case proto != "connect":
				h.Set("Grpc-Encoding", "br")
			case stream:
				h.Set("Connect-Content-Encoding", "br")
			default:
				h.Set("Content-Encoding", "br")
			}
		}, 12},
	}
	for _, rec := range corp {
		if rec.Codec != "proto" || rec.Gzip || len(rec.Sends) != 1 {
			continue
		}
		for _, rf := range refusals {
			key := fmt.Sprintf("c07/open-body/%s/%s/%s", rec.Proto, rec.Kind, rf.name)
			if !run.Want(key) {
				continue
			}
			reg := svc.NewRegistry()
			hs := svc.Handlers(reg, connect.WithReadMaxBytes(c07ReadMax))
			call := reg.New("ob", drainProgram())
			hdr := rec.Ex.ReqHeader.Clone()
			hdr.Set(wire.CallHeader, call.ID)
			stream := !(rec.Proto == "connect" && rec.Kind == svc.Unary)
			rf.set(hdr, rec.Proto, stream)
			body := wire.NewOpenBody(rec.Ex.ReqBody)
			rw := wire.NewRecorder()
			req := wire.ServerRequest(context.Background(), "POST", rec.Kind.Path(), hdr, body, 2)
			var panicked any
			done := make(chan struct{})
			go func() {
				defer close(done)
				defer func() { panicked = recover() }()
				hs[rec.Kind].ServeHTTP(rw, req)
			}()
			answered := true
			select {
			case <-done:
			case <-time.After(5 * time.Second):
				// suspicion; confirm with the same grace the other watchdogs use
				if confirmHang(done) {
					answered = false
				}
			}
			stillOpen := !body.Released()
			body.Release()
			<-done
			run.Count("requests", 1)
			run.Count("open_body.refusals", 1)
			run.Eval(fmt.Sprintf("open-body|%s|%s|%s", rec.Proto, rec.Kind, rf.name))
			detail := map[string]any{"protocol": rec.Proto, "kind": rec.Kind.String(), "refusal": rf.name, "body_still_open_when_answered": stillOpen}
			if panicked != nil {
				run.Violation(key+"/panic", fmt.Sprintf("ServeHTTP panicked: %v", panicked), detail)
				continue
			}
			if !answered {
				run.Violation(key+"/waits-for-body", "the handler did not answer a request it has to refuse ("+rf.name+") while the sender's request body was still open; it only returned once the body was ended", detail)
				continue
			}
			res := rw.Finish()
			d := refcodec.DecodeResponse(rec.Proto, stream, res.Status, res.Header, res.Body, res.Trailer, svc.RefAlgos())
			if d.Err == nil || d.Err.Code != rf.code || call.Log.Invocations != 0 {
				detail["status"], detail["decoded_error"] = res.Status, fmt.Sprint(d.Err)
				run.Violation(key+"/not-refused", "request was not refused with the documented code without running user code", detail)
			}
		}
	}
}

// c07LongTokens: undecodable JSON whose offending token is long and full of
// multi-byte characters. Codecs quote such tokens in their error texts, and an
// error text is data the handler has to put on the wire like any other: the
// response must stay well-formed (a proper error, not an empty body or a
// missing end-of-stream) wherever a byte limit or a cut might fall inside it.
func c07LongTokens(run *ev.Run) {
	reg := svc.NewRegistry()
	reg.Default = drainProgram()
	hs := svc.Handlers(reg, connect.WithReadMaxBytes(c07ReadMax))
	wide := strings.Repeat("\u00e9\u20ac\U0001d11e", 700) // 2-, 3- and 4-byte runes, about 6 KiB
	for shift := 0; shift < 9; shift++ {
		token := strings.Repeat("a", 2000+shift) + wide
		bodies := map[string][]byte{
			"unknown-field": []byte(`{"` + token + `":1}`),
			"bad-literal":   []byte(`{"id":` + token + `}`),
			"bad-string":    []byte(`{"note":"` + token + "\xff" + `"}`),
		}
		for bn, jb := range bodies {
			for _, protocol := range svc.Protocols {
				for _, kind := range []svc.Kind{svc.Unary, svc.ClientStream} {
					key := fmt.Sprintf("c07/long-token/%s/%s/%s/shift=%d", protocol, kind, bn, shift)
					if !run.Want(key) {
						continue
					}
					stream := !(protocol == "connect" && kind == svc.Unary)
					body := jb
					if stream {
						body = refcodec.AppendFrame(nil, 0, jb)
					}
					hdr := http.Header{"Content-Type": {contentType(protocol, "json", kind)}}
					rw := wire.NewRecorder()
					var panicked any
					ok, _ := watchdog(20*time.Second, func() {
						defer func() { panicked = recover() }()
						hs[kind].ServeHTTP(rw, wire.ServerRequest(context.Background(), "POST", kind.Path(), hdr, &wire.ScriptedBody{Data: body}, 2))
					})
					run.Count("requests", 1)
					run.Count("long_token.requests", 1)
					run.Eval(fmt.Sprintf("long-token|%s|%s|%s", protocol, kind, bn))
					detail := map[string]any{"protocol": protocol, "kind": kind.String(), "body": bn, "token_bytes": len(token)}
					if !ok {
						run.Violation(key+"/hang", "ServeHTTP did not return", detail)
						continue
					}
					if panicked != nil {
						run.Violation(key+"/panic", fmt.Sprintf("ServeHTTP panicked: %v", panicked), detail)
						continue
					}
					res := rw.Finish()
					d := refcodec.DecodeResponse(protocol, stream, res.Status, res.Header, res.Body, res.Trailer, svc.RefAlgos())
					detail["status"], detail["response_bytes"], detail["problems"] = res.Status, len(res.Body), d.Problems
					if len(d.Problems) > 0 || !d.Complete {
						run.Violation(key+"/malformed", "response to an undecodable request with a long multi-byte token is not well-formed for the selected protocol: "+strings.Join(d.Problems, "; "), detail)
						continue
					}
					if d.Err == nil {
						run.Violation(key+"/accepted", "an undecodable request was answered with success", detail)
					}
				}
			}
		}
	}
}

// c07CustomCodecs: handlers with user-registered codecs whose names are not
// lower-case words ("Custom", "x.Y-z_1"). Requests that name such a codec -
// spelled as registered, or in another case - with valid, truncated and garbage
// bodies: no panic, a well-formed answer, user code at most once, and a valid
// request spelled as registered is served.
func c07CustomCodecs(run *ev.Run) {
	names := []string{"Custom", "x.Y-z_1", "UPPER"}
	hopts := []connect.HandlerOption{connect.WithReadMaxBytes(c07ReadMax)}
	for _, n := range names {
		hopts = append(hopts, connect.WithCodec(namedCodec{n}))
	}
	reg := svc.NewRegistry()
	reg.Default = drainProgram()
	hs := svc.Handlers(reg, hopts...)
	msg, _ := proto.Marshal(gen.New(77, 40, true))
	for _, n := range names {
		for _, spelled := range []string{n, strings.ToLower(n), strings.ToUpper(n)} {
			for _, protocol := range svc.Protocols {
				for _, kind := range svc.Kinds {
					for _, shape := range []string{"valid", "truncated", "garbage", "empty"} {
						key := fmt.Sprintf("c07/custom-codec/%s/%s/%s/%s/%s", n, spelled, protocol, kind, shape)
						if !run.Want(key) {
							continue
						}
						stream := !(protocol == "connect" && kind == svc.Unary)
						var body []byte
						switch shape {
						case "valid":
							body = msg
						case "truncated":
							body = msg[:len(msg)/2]
						case "garbage":
							body = []byte("\xff\xff\xff\xff\x0f not a message")
						}
						if stream && shape != "empty" {
							body = refcodec.AppendFrame(nil, 0, body)
						}
						hdr := http.Header{"Content-Type": {contentType(protocol, spelled, kind)}}
						if protocol == "grpc" {
							hdr.Set("Te", "trailers")
						}
						call := reg.New("cc", drainProgram())
						hdr.Set(wire.CallHeader, call.ID)
						rw := wire.NewRecorder()
						var panicked any
						ok, _ := watchdog(20*time.Second, func() {
							defer func() { panicked = recover() }()
							hs[kind].ServeHTTP(rw, wire.ServerRequest(context.Background(), "POST", kind.Path(), hdr, &wire.ScriptedBody{Data: body}, 2))
						})
						reg.Drop(call)
						run.Count("requests", 1)
						run.Count("custom_codec.requests", 1)
						run.Eval(fmt.Sprintf("custom-codec|%s|%s|%s|exact=%v", protocol, kind, shape, spelled == n))
						detail := map[string]any{"registered": n, "content_type": hdr.Get("Content-Type"), "protocol": protocol, "kind": kind.String(), "body": shape}
						switch {
						case !ok:
							run.Violation(key+"/hang", "ServeHTTP did not return", detail)
							continue
						case panicked != nil:
							run.Violation(key+"/panic", fmt.Sprintf("ServeHTTP panicked: %v", panicked), detail)
							continue
						case call.Log.Invocations > 1:
							run.Violation(key+"/invoked-twice", "user code ran more than once for one request", detail)
							continue
						}
						res := rw.Finish()
						detail["status"] = res.Status
						if res.Status == 0 {
							run.Violation(key+"/no-response", "ServeHTTP returned without writing a response", detail)
							continue
						}
						if spelled == n && shape == "valid" {
							d := refcodec.DecodeResponse(protocol, stream, res.Status, res.Header, res.Body, res.Trailer, svc.RefAlgos())
							if call.Log.Invocations != 1 || d.Err != nil || len(d.Problems) > 0 {
								detail["problems"], detail["error"] = d.Problems, d.Err
								run.Violation(key+"/valid-not-served", "a valid request naming a registered codec exactly was not served", detail)
							}
						}
					}
				}
			}
		}
	}
}

// c07LateVerdict: a registered decompressor may report a corrupt stream from
// Close instead of Read (a format whose integrity check trails the data).
// Such a payload did not decode successfully: user code must not receive it
// and the peer gets an error, in every protocol and for unary and streaming
// requests alike; an intact payload of the same algorithm is delivered.
func c07LateVerdict(run *ev.Run) {
	stats := &svc.AlgoStats{CloseVerdict: 1}
	zd, zc := svc.Algo("zz-len", stats)
	for _, protocol := range svc.Protocols {
		for _, kind := range []svc.Kind{svc.Unary, svc.ClientStream, svc.ServerStream, svc.Bidi} {
			for _, corrupt := range []bool{false, true} {
				key := fmt.Sprintf("c07/late-verdict/%s/%s/corrupt=%v", protocol, kind, corrupt)
				if !run.Want(key) {
					continue
				}
				plain := encMsg("proto", &gen.Msg{Id: 42, Note: "checked at close"})
				comp := append([]byte{'L', 0, 0, 0, byte(len(plain))}, plain...)
				if corrupt {
					comp[4]++ // the declared length no longer matches: this format's checksum
				}
				reg := svc.NewRegistry()
				reg.Default = drainProgram()
				hs := svc.Handlers(reg, connect.WithCompression("zz-len", zd, zc), connect.WithCompressMinBytes(1<<30), connect.WithReadMaxBytes(1<<20))
				hdr := http.Header{"Content-Type": {contentType(protocol, "proto", kind)}}
				encH, _ := encHeaders(protocol, kind)
				hdr.Set(encH, "zz-len")
				body := comp
				enveloped := !(protocol == "connect" && kind == svc.Unary)
				if enveloped {
					body = refcodec.AppendFrame(nil, 1, comp)
				}
				call := reg.New("lv", drainProgram())
				hdr.Set(wire.CallHeader, call.ID)
				rw := wire.NewRecorder()
				var panicked any
				ok, dump := watchdog(30*time.Second, func() {
					defer func() { panicked = recover() }()
					hs[kind].ServeHTTP(rw, wire.ServerRequest(context.Background(), "POST", kind.Path(), hdr, &wire.ScriptedBody{Data: body}, 2))
				})
				run.Count("requests", 1)
				run.Count("late_verdict.requests", 1)
				run.Eval(fmt.Sprintf("late-verdict|%s|%s|%v", protocol, kind, corrupt))
				if !ok {
					run.Violation(key+"/hang", "ServeHTTP did not return", trunc(dump, 20000))
					continue
				}
				res := rw.Finish()
				hl := call.Log
				d := refcodec.DecodeResponse(protocol, enveloped, res.Status, res.Header, res.Body, res.Trailer, svc.RefAlgos())
				detail := map[string]any{"protocol": protocol, "kind": kind.String(), "corrupt": corrupt, "status": res.Status, "handler_received": gen.DescribeSeq(hl.Received), "late_verdicts": atomic.LoadInt64(&stats.LateVerdicts), "response_error": fmt.Sprint(d.Err)}
				switch {
				case panicked != nil:
					run.Violation(key+"/panic", fmt.Sprintf("ServeHTTP panicked: %v", panicked), detail)
				case corrupt && len(hl.Received) > 0:
					run.Violation(key+"/delivered", "user code received a message whose decompressor reported the stream corrupt (from Close)", detail)
				case corrupt && d.Err == nil:
					run.Violation(key+"/success", "a request whose decompressor reported the stream corrupt (from Close) was answered with success", detail)
				case !corrupt && (len(hl.Received) != 1 || hl.Received[0].Id != 42 || d.Err != nil):
					run.Violation(key+"/intact-rejected", "an intact message of the same algorithm was not delivered", detail)
				}
				run.Count("rejections.checked", 1)
			}
		}
	}
}
