package checks

import (
	"context"
	"errors"
	"fmt"
	"io"
	"net/http"
	"strings"
	"sync"
	"time"

	connect "github.com/bufbuild/connect-go"
	"google.golang.org/protobuf/proto"
	"verif.local/harness/ev"
	"verif.local/harness/gen"
	"verif.local/harness/svc"
	"verif.local/harness/wire"
)

func init() { register("C01", "exploration", c01) }

// c01 variant: handler-side and client-side compression settings.
// prefixCodec is a user-supplied codec: binary proto behind a two-byte magic,
// so that no message - not even the zero value - has an empty encoding.
type prefixCodec struct{}

func (prefixCodec) Name() string { return "verifbin" }
func (prefixCodec) Marshal(m any) ([]byte, error) {
	b, err := proto.Marshal(m.(proto.Message))
	return append([]byte{0xC0, 0xDE}, b...), err
}
func (prefixCodec) Unmarshal(b []byte, m any) error {
	if len(b) < 2 || b[0] != 0xC0 || b[1] != 0xDE {
		return fmt.Errorf("verifbin: bad magic in %d bytes", len(b))
	}
	return proto.Unmarshal(b[2:], m.(proto.Message))
}

type c01Variant struct {
	customCodec bool
	name        string
	hopts       []connect.HandlerOption
	copts       []connect.ClientOption
	compressed  bool
}

func c01Variants(stats *svc.AlgoStats) []c01Variant {
	d, c := svc.Algo("Zz-Xor", stats)
	ld, lc := svc.Algo("zz-lazy", stats)
	return []c01Variant{
		// an algorithm whose output for an empty message is empty (and whose
		// decompressor, like gzip's, rejects an empty source)
		{name: "zzlazy-both-min0",
			hopts:      []connect.HandlerOption{connect.WithCompression("zz-lazy", ld, lc), connect.WithCompressMinBytes(0)},
			copts:      []connect.ClientOption{connect.WithAcceptCompression("zz-lazy", ld, lc), connect.WithSendCompression("zz-lazy"), connect.WithCompressMinBytes(0)},
			compressed: true},
		{name: "gzip-resp-only-min0"},
		{name: "identity", hopts: []connect.HandlerOption{connect.WithCompressMinBytes(1 << 30)}, copts: []connect.ClientOption{connect.WithCompressMinBytes(1 << 30)}},
		{name: "gzip-both-min0", copts: []connect.ClientOption{connect.WithSendGzip()}, compressed: true},
		{name: "gzip-both-min512", hopts: []connect.HandlerOption{connect.WithCompressMinBytes(512)}, copts: []connect.ClientOption{connect.WithSendGzip(), connect.WithCompressMinBytes(512)}, compressed: true},
		{name: "custom-codec-gzip", hopts: []connect.HandlerOption{connect.WithCodec(prefixCodec{})}, copts: []connect.ClientOption{connect.WithCodec(prefixCodec{}), connect.WithSendGzip()}, compressed: true, customCodec: true},
		{name: "zzxor-both-min1",
			hopts:      []connect.HandlerOption{connect.WithCompression("Zz-Xor", d, c), connect.WithCompressMinBytes(1)},
			copts:      []connect.ClientOption{connect.WithAcceptCompression("Zz-Xor", d, c), connect.WithSendCompression("Zz-Xor"), connect.WithCompressMinBytes(1)},
			compressed: true},
	}
}

// c01Seqs builds the message sequences (by spec strings: Z zero, S small,
// T threshold-straddling, or explicit sizes).
func c01Seqs(run *ev.Run) [][]string {
	var out [][]string
	// lengths
	for _, n := range []int{0, 1, 2, 3, 5, 17} {
		s := make([]string, n)
		for i := range s {
			s[i] = "S"
		}
		out = append(out, s)
	}
	// all placements of zero messages over {Z,S,T}
	maxK := run.Pick(4, 5)
	alpha := []string{"Z", "S", "T"}
	r := run.Rand("c01-seqs")
	for k := 1; k <= maxK; k++ {
		total := 1
		for i := 0; i < k; i++ {
			total *= 3
		}
		for x := 0; x < total; x++ {
			if (run.Quick() && k == 4 && r.Intn(8) != 0) || (k == 5 && r.Intn(3) != 0) {
				// quick: a seeded eighth of the 81 length-4 sequences ...
				continue
			}
			s := make([]string, k)
			v := x
			for i := 0; i < k; i++ {
				s[i] = alpha[v%3]
				v /= 3
			}
			out = append(out, s)
		}
	}
	// ... plus the shapes the property note names.
	out = append(out, []string{"S", "Z", "Z", "S"}, []string{"T", "Z", "S", "Z"}, []string{"Z", "Z", "Z", "Z"})
	// size ladder around the pool seed and compression thresholds
	out = append(out, []string{"1", "127", "128", "511", "512", "513", "Z", "65535", "65536", "3"})
	out = append(out, []string{"513", "Z", "511", "Z", "512"})
	if !run.Quick() {
		out = append(out, []string{"1048576", "Z", "5"}, []string{"5242880", "S", "Z"},
			[]string{"8388607", "Z", "8388608"}, []string{"8388609", "S", "Z", "8388600"})
		// long streams and random walks over the size ladder
		long := make([]string, 120)
		for i := range long {
			long[i] = []string{"S", "Z", "T", "3", "513"}[i%5]
		}
		out = append(out, long)
		ladder := []string{"Z", "S", "T", "1", "2", "127", "128", "511", "512", "513", "1023", "1024", "1025", "4095", "4096", "65535", "65536", "200000"}
		for k := 0; k < 60; k++ {
			n := 1 + r.Intn(12)
			s := make([]string, n)
			for i := range s {
				s[i] = ladder[r.Intn(len(ladder))]
			}
			out = append(out, s)
		}
	}
	return out
}

func c01Build(spec []string, base uint64, compressible bool) []*gen.Msg {
	ms := make([]*gen.Msg, len(spec))
	for i, s := range spec {
		id := base + uint64(i) + 1
		switch s {
		case "Z":
			ms[i] = gen.Zero()
		case "S":
			ms[i] = &gen.Msg{Id: id, Note: fmt.Sprintf("n%d", id)}
		case "T":
			ms[i] = gen.New(id, 500+int(id%20), compressible)
		default:
			var n int
			fmt.Sscanf(s, "%d", &n)
			ms[i] = gen.New(id, n, compressible)
		}
	}
	return ms
}

func c01(run *ev.Run) int {
	run.SetRule("cases = (compression variant x HTTP version x protocol x codec x kind) x message sequences {lengths 0..17; every word over {zero,small,threshold} up to length 4 (quick: all <=3 + seeded 1/8 of length 4); size ladders}; a case is non-trivial/distinct by (config, sequence shape); also an algorithm with empty output for empty messages, the paired corrupt-then-valid history; history: a third of the jobs close every stream twice; oracle: received == sent elementwise (proto.Equal) in both directions + clean end + un-cloned holder sum; an application codec whose messages are plain structs with Reset() (not protobuf messages), sequences with empty-encoding messages after non-empty ones through the typed streaming APIs, both directions")
	run.Assume("transport is Go net/http client/server over loopback")
	stats := &svc.AlgoStats{}
	variants := c01Variants(stats)
	seqs := c01Seqs(run)
	g0, p0, r0, _ := connect.VerifPoolStats()
	poolViol := int64(0)
	connect.VerifSetPoolReport(func(kind string) {
		poolViol++
		run.Violation("c01/pool/"+kind, "buffer pool discipline violated: "+kind, nil)
	})
	defer connect.VerifSetPoolReport(nil)

	type job struct {
		v     int
		http2 bool
		proto string
		codec string
		kind  svc.Kind
	}
	var jobs []job
	for vi := range variants {
		for _, h2 := range []bool{false, true} {
			for _, p := range svc.Protocols {
				for _, c := range svc.Codecs {
					for _, k := range svc.Kinds {
						if k == svc.Bidi && !h2 {
							continue
						}
						if variants[vi].customCodec && c != "proto" {
							continue // the variant brings its own codec
						}
						jobs = append(jobs, job{vi, h2, p, c, k})
					}
				}
			}
		}
	}
	servers := make([]*svc.Server, len(variants))
	for i, v := range variants {
		servers[i] = svc.NewServer(v.hopts...)
	}
	defer func() {
		for _, s := range servers {
			s.Close()
		}
	}()
	var idBase uint64
	parallel(16, len(jobs), func(ji int) {
		j := jobs[ji]
		v := variants[j.v]
		srv := servers[j.v]
		opts := append(svc.ProtoOpts(j.proto, j.codec), v.copts...)
		cs := srv.Clients(j.http2, opts...)
		// every third job closes each stream twice (defer stream.Close() plus an
		// explicit Close); the calls that follow on the same client are the ones
		// that would show it
		cs.CloseTwice = ji%3 == 1
		cfg := fmt.Sprintf("%s/h2=%v/%s/%s/%s", v.name, j.http2, j.proto, j.codec, j.kind)
		r := run.Rand("c01/" + cfg)
		for si, spec := range seqs {
			if run.Saturated() {
				return
			}
			if j.codec == "json" && len(spec) > 0 && len(spec[0]) > 6 {
				// multi-MiB payloads as base64 JSON: keep to the proto codec
				continue
			}
			key := fmt.Sprintf("c01/%s/seq=%s", cfg, strings.Join(spec, ","))
			if !run.Want(key) {
				continue
			}
			base := uint64(ji)<<32 | uint64(si)<<16
			_ = idBase
			compressible := r.Intn(2) == 0
			in := c01Build(spec, base, compressible)
			out := c01Build(spec, base+1<<15, compressible)
			// Shape the call for the kind.
			var sends, replies []*gen.Msg
			prog := &svc.Program{}
			switch j.kind {
			case svc.Unary:
				if len(in) == 0 {
					continue
				}
				// one request message, one response message; walk the sequence
				// as consecutive calls so that buffers get reused
				for i := range in {
					c01Call(run, srv, cs, j.kind, key+fmt.Sprintf("/i=%d", i), cfg, spec, []*gen.Msg{in[i]}, []*gen.Msg{out[i]}, &svc.Program{Steps: []svc.Step{{Op: "recv"}, {Op: "send", Msg: out[i]}}})
				}
				continue
			case svc.ClientStream:
				sends = in
				replies = []*gen.Msg{{Id: base + 99, Note: "reply"}}
				if len(spec) > 0 && spec[len(spec)-1] == "Z" {
					replies = []*gen.Msg{gen.Zero()}
				}
				prog.Steps = []svc.Step{{Op: "recvall"}, {Op: "send", Msg: replies[0]}}
			case svc.ServerStream:
				sends = []*gen.Msg{{Id: base + 98}}
				if len(spec) > 0 && spec[0] == "Z" {
					sends = []*gen.Msg{gen.Zero()}
				}
				replies = out
				prog.Steps = []svc.Step{{Op: "recv"}}
				for _, m := range out {
					prog.Steps = append(prog.Steps, svc.Step{Op: "send", Msg: m})
				}
			case svc.Bidi:
				sends = in
				replies = out
				for _, m := range out {
					prog.Steps = append(prog.Steps, svc.Step{Op: "recv"}, svc.Step{Op: "send", Msg: m})
				}
				prog.Steps = append(prog.Steps, svc.Step{Op: "recvall"})
			}
			c01Call(run, srv, cs, j.kind, key, cfg, spec, sends, replies, prog)
		}
	})
	for _, s := range servers {
		serverPanicCheck(run, s, "c01")
	}
	if !run.Replaying() || strings.Contains(run.ReplayKey(), "late-eof") {
		c01LateRequestEOF(run)
	}
	if !run.Replaying() || strings.Contains(run.ReplayKey(), "/paired/") {
		// messages of valid calls that follow a call with a corrupt compression
		// header on the same pools (the history is the one C08 uses)
		c08Paired(run, "c01")
	}
	if !run.Replaying() || strings.Contains(run.ReplayKey(), "late-close") {
		c01LateClose(run)
	}
	if !run.Replaying() || strings.Contains(run.ReplayKey(), "jitter") {
		c01Jitter(run)
	}
	g1, p1, r1, dp := connect.VerifPoolStats()
	run.Count("pool.gets", int64(g1-g0))
	run.Count("pool.puts", int64(p1-p0))
	run.Count("pool.recycled_gets", int64(r1-r0))
	run.Count("pool.double_puts", int64(dp))
	run.Count("custom_algo.compressions", stats.Compressions)
	run.Count("custom_algo.decompressions", stats.Decompressions)
	if stats.Violations > 0 {
		run.Violation("c01/compressor-discipline", "custom (de)compressor used outside Reset..Close or concurrently", stats.Notes)
	}
	c01PlainStructCodec(run)
	return run.Finish("calls", "pool.recycled_gets", "custom_algo.compressions")
}

func c01Call(run *ev.Run, srv *svc.Server, cs *svc.ClientSet, kind svc.Kind, key, cfg string, spec []string, sends, replies []*gen.Msg, prog *svc.Program) {
	c01CallWith(run, srv, cs, kind, key, cfg, spec, sends, replies, prog, nil, nil)
}

func c01CallWith(run *ev.Run, srv *svc.Server, cs *svc.ClientSet, kind svc.Kind, key, cfg string, spec []string, sends, replies []*gen.Msg, prog *svc.Program, pre, post func(id string)) {
	call := srv.Reg.New("c01", prog)
	defer srv.Reg.Drop(call)
	if pre != nil {
		pre(call.ID)
	}
	if post != nil {
		defer post(call.ID)
	}
	defer cs.Tap.Forget(call.ID)
	var cl *svc.CLog
	ctx, cancel := context.WithCancel(context.Background())
	defer cancel()
	ok, dump := watchdog(90*time.Second, func() { cl = cs.Do(ctx, kind, call.ID, nil, sends) })
	run.Eval(cfg + "|" + strings.Join(spec, ","))
	run.Count("calls", 1)
	if !ok {
		run.Violation(key+"/hang", "call did not return within the 90 s watchdog", trunc(dump, 20000))
		return
	}
	if fin, inv := waitHandler(call, 30*time.Second); !fin {
		if inv {
			run.Violation(key+"/handler-hang", "handler did not finish within 30 s after the client call returned", nil)
		} else {
			run.Violation(key+"/not-served", "the handler was never invoked for a fault-free call; client error: "+errStr(cl.Err), map[string]any{"config": cfg, "sequence": spec, "client_err": errStr(cl.Err)})
		}
		return
	}
	hl := call.Log
	detail := func(extra string) map[string]any {
		return map[string]any{"config": cfg, "sequence": spec, "client_sent": gen.DescribeSeq(sends), "handler_received": gen.DescribeSeq(hl.Received),
			"handler_sent": gen.DescribeSeq(replies), "client_received": gen.DescribeSeq(cl.Msgs), "client_err": errStr(cl.Err), "handler_recv_err": errStr(hl.RecvErr), "note": extra}
	}
	run.Count("messages.sent", int64(len(sends)+len(replies)))
	if hl.Invocations != 1 {
		run.Violation(key+"/invocations", fmt.Sprintf("handler invoked %d times", hl.Invocations), detail(""))
		return
	}
	if same, why := gen.SameSeq(hl.Received, sends); !same {
		run.Violation(key+"/request-direction", "handler received a different sequence than the client sent: "+why, detail(""))
	}
	if kind == svc.ClientStream || kind == svc.Bidi {
		if !hl.SawEOF {
			run.Violation(key+"/request-end", "handler did not observe a clean end of the request stream: "+errStr(hl.RecvErr), detail(""))
		}
	}
	if kind == svc.ClientStream {
		var want uint64
		for _, m := range sends {
			want += m.Id
		}
		if hl.HolderSum != want {
			run.Violation(key+"/holder", fmt.Sprintf("reading the reused message holder summed ids to %d, sent ids sum to %d (stale state in the holder)", hl.HolderSum, want), detail(""))
		}
		run.Count("holder.reads", int64(len(sends)))
	}
	if cl.Err != nil {
		run.Violation(key+"/client-error", "client reported an error on a fault-free call: "+errStr(cl.Err), detail(""))
		return
	}
	if same, why := gen.SameSeq(cl.Msgs, replies); !same {
		run.Violation(key+"/response-direction", "client received a different sequence than the handler sent: "+why, detail(""))
	}
	if kind == svc.ServerStream {
		var want uint64
		for _, m := range replies {
			want += m.Id
		}
		if cl.HolderSum != want {
			run.Violation(key+"/holder", fmt.Sprintf("reading the client's reused message holder summed ids to %d, sent ids sum to %d", cl.HolderSum, want), detail(""))
		}
		run.Count("holder.reads", int64(len(replies)))
	}
	for _, m := range append(append([]*gen.Msg{}, hl.Received...), cl.Msgs...) {
		if !gen.PayloadOK(m.Id, m.Payload) {
			run.Violation(key+"/payload-ids", "payload carries a foreign or poisoned id", detail(""))
			break
		}
	}
	for i, e := range cl.PostEnd {
		if e == nil {
			run.Violation(key+"/receive-after-end", fmt.Sprintf("Receive call %d after the end of the stream returned a message", i+1), detail(""))
			break
		}
	}
	if cl.CloseErr != nil {
		run.Violation(key+"/close-error", "closing the response of a fault-free call failed: "+errStr(cl.CloseErr), detail(""))
	}
	if len(cl.SendErrs) > 0 {
		run.Violation(key+"/send-error", "Send failed on a fault-free call: "+errStr(cl.SendErrs[0]), detail(""))
	}
	run.Sample(map[string]any{"config": cfg, "sent": gen.DescribeSeq(sends), "replied": gen.DescribeSeq(replies)})
}

// slowReqBody delays every read of the request body after the first: the
// transport learns about the end of the request late.
type slowReqBody struct {
	io.ReadCloser
	n     int
	delay time.Duration
}

func (b *slowReqBody) Read(p []byte) (int, error) {
	b.n++
	if b.n > 1 {
		time.Sleep(b.delay)
	}
	return b.ReadCloser.Read(p)
}

type slowReqTransport struct {
	next  http.RoundTripper
	delay time.Duration
}

func (t slowReqTransport) RoundTrip(r *http.Request) (*http.Response, error) {
	if r.Body != nil {
		r.Body = &slowReqBody{ReadCloser: r.Body, delay: t.delay}
	}
	return t.next.RoundTrip(r)
}

// c01LateRequestEOF is a schedule injection at the HTTP boundary: the client's
// transport reads the end of the request body late, and the server ends the
// HTTP/2 stream a while after the handler wrote its last byte. Nothing is
// faulty, so every call must still succeed completely.
func c01LateRequestEOF(run *ev.Run) {
	reg := svc.NewRegistry()
	hs := svc.Handlers(reg)
	mux := svc.Mux(hs)
	front := http.HandlerFunc(func(w http.ResponseWriter, req *http.Request) {
		mux.ServeHTTP(w, req)
		time.Sleep(120 * time.Millisecond) // END_STREAM comes after the in-body terminator
	})
	srv := svc.NewServerWith(reg, hs, front)
	defer srv.Close()
	for _, h2 := range []bool{true, false} {
		for _, p := range svc.Protocols {
			for _, kind := range svc.Kinds {
				if kind == svc.Bidi && !h2 {
					continue
				}
				for _, delay := range []time.Duration{10 * time.Millisecond, 40 * time.Millisecond} {
					key := fmt.Sprintf("c01/late-eof/h2=%v/%s/%s/delay=%v", h2, p, kind, delay)
					if !run.Want(key) {
						continue
					}
					hc, base, _ := srv.HTTPClient(h2)
					slow := &http.Client{Transport: slowReqTransport{next: hc.Transport, delay: delay}}
					cs := svc.NewClientSet(slow, base, svc.ProtoOpts(p, "proto")...)
					cs.Tap = srv.Tap2
					if !h2 {
						cs.Tap = srv.Tap1
					}
					in := []*gen.Msg{{Id: 1, Note: "a"}, {Id: 2, Note: "b"}}
					out := []*gen.Msg{{Id: 3, Note: "c"}, {Id: 4, Note: "d"}}
					prog := &svc.Program{Steps: []svc.Step{{Op: "recvall"}}}
					sends, replies := in, out
					if kind == svc.Unary || kind == svc.ServerStream {
						sends = in[:1]
					}
					if kind == svc.Unary || kind == svc.ClientStream {
						replies = out[:1]
					}
					for _, m := range replies {
						prog.Steps = append(prog.Steps, svc.Step{Op: "send", Msg: m})
					}
					cfg := fmt.Sprintf("late-request-eof/h2=%v/%s/%s", h2, p, kind)
					run.Count("schedule.late_request_eof.calls", 1)
					c01Call(run, srv, cs, kind, key, cfg, []string{"late-eof", delay.String()}, sends, replies, prog)
				}
			}
		}
	}
}

// jitterBody delays reads according to a seeded schedule.
type jitterBody struct {
	io.ReadCloser
	delays []time.Duration
	n      int
}

func (b *jitterBody) Read(p []byte) (int, error) {
	if b.n < len(b.delays) && b.delays[b.n] > 0 {
		time.Sleep(b.delays[b.n])
	}
	b.n++
	return b.ReadCloser.Read(p)
}

type jitterTransport struct {
	next     http.RoundTripper
	reqReads []time.Duration
	resReads []time.Duration
	// holdResp keeps a response back for this long after the round trip has
	// produced it (an HTTPClient is free to take its time; the call's context
	// may well end in the meantime, and the response is handed over all the same)
	holdResp time.Duration
}

func (t jitterTransport) RoundTrip(r *http.Request) (*http.Response, error) {
	if r.Body != nil {
		r.Body = &jitterBody{ReadCloser: r.Body, delays: t.reqReads}
	}
	resp, err := t.next.RoundTrip(r)
	if err == nil {
		resp.Body = &jitterBody{ReadCloser: resp.Body, delays: t.resReads}
		if t.holdResp > 0 {
			time.Sleep(t.holdResp)
		}
	}
	return resp, err
}

// c01Jitter is a schedule fuzzer at the HTTP boundary: seeded random delays in
// front of the transport's reads of the request body, the library's reads of
// the response body, and on the server before the handler starts and after it
// has returned (which delays the end of the HTTP stream). All calls are
// fault-free, so the C01 oracle applies unchanged.
func c01Jitter(run *ev.Run) {
	reg := svc.NewRegistry()
	hs := svc.Handlers(reg)
	mux := svc.Mux(hs)
	var before, after sync.Map // call id -> time.Duration
	front := http.HandlerFunc(func(w http.ResponseWriter, req *http.Request) {
		id := req.Header.Get("X-Verif-Call")
		if d, ok := before.Load(id); ok {
			time.Sleep(d.(time.Duration))
		}
		mux.ServeHTTP(w, req)
		if d, ok := after.Load(id); ok {
			time.Sleep(d.(time.Duration))
		}
	})
	srv := svc.NewServerWith(reg, hs, front)
	defer srv.Close()
	pick := func(r interface{ Intn(int) int }) time.Duration {
		return []time.Duration{0, 0, 0, 0, time.Millisecond, 5 * time.Millisecond, 20 * time.Millisecond, 60 * time.Millisecond}[r.Intn(8)]
	}
	type cfgT struct {
		h2    bool
		proto string
		kind  svc.Kind
	}
	var cfgs []cfgT
	for _, h2 := range []bool{true, false} {
		for _, p := range svc.Protocols {
			for _, k := range svc.Kinds {
				if k == svc.Bidi && !h2 {
					continue
				}
				cfgs = append(cfgs, cfgT{h2, p, k})
			}
		}
	}
	n := run.Pick(12, 150)
	parallel(16, len(cfgs), func(ci int) {
		c := cfgs[ci]
		for i := 0; i < n; i++ {
			key := fmt.Sprintf("c01/jitter/h2=%v/%s/%s/i=%d", c.h2, c.proto, c.kind, i)
			if !run.Want(key) || run.Saturated() {
				continue
			}
			r := run.Rand(key)
			jt := jitterTransport{}
			// three profiles, so that delays on one side are also explored
			// against an undisturbed other side
			profile := i % 3
			for k := 0; k < 6; k++ {
				var a, b time.Duration
				if profile != 1 {
					a = pick(r)
				}
				if profile != 0 {
					b = pick(r)
				}
				jt.reqReads = append(jt.reqReads, a)
				jt.resReads = append(jt.resReads, b)
			}
			hc, base, tap := srv.HTTPClient(c.h2)
			jt.next = hc.Transport
			cs := svc.NewClientSet(&http.Client{Transport: jt}, base, svc.ProtoOpts(c.proto, "proto")...)
			cs.Tap = tap
			in := []*gen.Msg{{Id: 1, Note: "a"}, gen.New(2, 3000, true), {Id: 3}}
			out := []*gen.Msg{gen.New(4, 1000, true), {Id: 5, Note: "e"}}
			sends, replies := in, out
			if c.kind == svc.Unary || c.kind == svc.ServerStream {
				sends = in[:1]
			}
			if c.kind == svc.Unary || c.kind == svc.ClientStream {
				replies = out[:1]
			}
			prog := &svc.Program{Steps: []svc.Step{{Op: "recvall"}}}
			if c.kind == svc.Bidi && r.Intn(2) == 0 {
				prog.Steps = nil // answer before draining
				for _, m := range replies {
					prog.Steps = append(prog.Steps, svc.Step{Op: "send", Msg: m})
				}
				prog.Steps = append(prog.Steps, svc.Step{Op: "recvall"})
			} else {
				for _, m := range replies {
					prog.Steps = append(prog.Steps, svc.Step{Op: "send", Msg: m})
				}
			}
			spec := []string{"jitter", fmt.Sprint(jt.reqReads), fmt.Sprint(jt.resReads)}
			run.Count("schedule.jitter.calls", 1)
			c01CallWith(run, srv, cs, c.kind, key, fmt.Sprintf("jitter/h2=%v/%s/%s", c.h2, c.proto, c.kind), spec, sends, replies, prog, func(id string) {
				before.Store(id, pick(r))
				after.Store(id, pick(r)*3)
			}, func(id string) {
				before.Delete(id)
				after.Delete(id)
			})
		}
	})
}

// c01LateClose is the mirror image of c01LateRequestEOF: the handler answers
// and returns while the client's request side is still open, the HTTP/2 stream
// ends a while after the handler's last byte, and the client closes its request
// side only after it has received everything. Nothing is faulty: every reply
// arrives, the stream ends cleanly, and closing either side reports no error.
func c01LateClose(run *ev.Run) {
	reg := svc.NewRegistry()
	hs := svc.Handlers(reg)
	mux := svc.Mux(hs)
	front := http.HandlerFunc(func(w http.ResponseWriter, req *http.Request) {
		mux.ServeHTTP(w, req)
		time.Sleep(90 * time.Millisecond) // END_STREAM comes after the in-body terminator
	})
	srv := svc.NewServerWith(reg, hs, front)
	defer srv.Close()
	for _, p := range svc.Protocols {
		for rep := 0; rep < 4; rep++ {
			key := fmt.Sprintf("c01/late-close/%s/rep=%d", p, rep)
			if !run.Want(key) {
				continue
			}
			cs := srv.Clients(true, svc.ProtoOpts(p, "proto")...)
			replies := []*gen.Msg{{Id: 31, Note: "x"}, gen.Zero(), {Id: 33, Note: "z"}}
			prog := &svc.Program{Steps: []svc.Step{{Op: "recv"}}}
			for _, m := range replies {
				prog.Steps = append(prog.Steps, svc.Step{Op: "send", Msg: m})
			}
			call := srv.Reg.New("c01lc", prog)
			type res struct {
				got                           []*gen.Msg
				sendErr, endErr, crErr, cpErr error
			}
			var r res
			ok, dump := watchdog(60*time.Second, func() {
				st := cs.C[svc.Bidi].CallBidiStream(context.Background())
				st.RequestHeader().Set(wire.CallHeader, call.ID)
				r.sendErr = st.Send(&gen.Msg{Id: 1})
				for {
					m, err := st.Receive()
					if err != nil {
						r.endErr = err
						break
					}
					r.got = append(r.got, proto.Clone(m).(*gen.Msg))
				}
				r.crErr = st.CloseRequest()
				r.cpErr = st.CloseResponse()
			})
			srv.Reg.Drop(call)
			cs.Tap.Forget(call.ID)
			run.Count("calls", 1)
			run.Count("schedule.late_close.calls", 1)
			run.Eval(fmt.Sprintf("late-close|%s", p))
			if !ok {
				run.Violation(key+"/hang", "fault-free call did not return", trunc(dump, 20000))
				continue
			}
			detail := map[string]any{"protocol": p, "send_err": errStr(r.sendErr), "receive_end": errStr(r.endErr), "close_request_err": errStr(r.crErr), "close_response_err": errStr(r.cpErr), "received": gen.DescribeSeq(r.got)}
			if same, why := gen.SameSeq(r.got, replies); !same {
				run.Violation(key+"/sequence", "client received a different sequence than the handler sent: "+why, detail)
				continue
			}
			if r.sendErr != nil || !errors.Is(r.endErr, io.EOF) {
				run.Violation(key+"/end", "the stream of a fault-free call did not end cleanly: "+errStr(r.endErr), detail)
				continue
			}
			if r.cpErr != nil || (r.crErr != nil && !errors.Is(r.crErr, io.EOF)) {
				run.Violation(key+"/close", fmt.Sprintf("closing a completely received, fault-free call failed: CloseRequest %v, CloseResponse %v", r.crErr, r.cpErr), detail)
			}
		}
	}
	serverPanicCheck(run, srv, "c01/late-close")
}
