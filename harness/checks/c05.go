package checks

import (
	"context"
	"errors"
	"fmt"
	"math/rand"
	"net/http"
	"strings"
	"time"

	connect "github.com/bufbuild/connect-go"
	"google.golang.org/protobuf/proto"
	"google.golang.org/protobuf/types/known/anypb"
	"verif.local/harness/ev"
	"verif.local/harness/gen"
	"verif.local/harness/refcodec"
	"verif.local/harness/svc"
	"verif.local/harness/wire"
)

func init() { register("C05", "exploration", c05) }

func c05(run *ev.Run) int {
	run.SetRule("(i) connect-go -> reference: random handler programs (headers, trailers, k messages of assorted sizes, nil or an error with any code / text class / details / metadata incl. forwarded Grpc-* keys) and the client's requests x 3 protocols x 2 codecs x 4 kinds x compression modes, every request and response decoded by the independent reference codec with structural assertions (200 + exactly one grpc-status in the right place, exactly one final end-of-stream envelope, JSON error under the code's status, Content-Type echoed, compressed flag only with a named algorithm, grammatical timeout, te: trailers) and value assertions (messages, status, error, metadata); (ii) reference -> connect-go: conformant responses and requests produced by the reference encoder with legal variation (in-body key casing, padded/unpadded base64, hex case in percent-encoding, per-message compression, optional fields absent, bare application/grpc, every timeout unit) must be accepted and decoded to the same values; (iii) optional: grpc-go v1.38 as a live third-party peer; distinct by (direction, protocol, codec, kind, compression, outcome class, variation); also: metadata of responses that could not be marshalled; peer messages whose only escape is in the last three bytes; responses written after a registered compressor refused the message (Close fails) must still be well-formed")
	run.Assume("the reference codec is this harness author's reading of the Connect, gRPC and gRPC-Web specifications; grpc-go covers gRPC only")
	c05Outbound(run)
	c05InboundResponses(run)
	c05InboundRequests(run)
	failingCompressor(run, "c05", true)
	mergeInterop(run)
	return run.Finish("outbound.responses.decoded", "outbound.requests.decoded", "inbound.responses.accepted", "inbound.requests.accepted")
}

// ---------------------------------------------------------------------------
// (i) what connect-go writes is decodable and yields the application's values

func c05Outbound(run *ev.Run) {
	type cfgT struct {
		proto, codec string
		kind         svc.Kind
		mode         string // identity | gzip | gzip-min100
	}
	var cfgs []cfgT
	for _, p := range svc.Protocols {
		for _, c := range svc.Codecs {
			for _, k := range svc.Kinds {
				for _, m := range []string{"identity", "gzip", "gzip-min100"} {
					cfgs = append(cfgs, cfgT{p, c, k, m})
				}
			}
		}
	}
	per := run.Pick(40, 400)
	algos := svc.RefAlgos()
	parallel(16, len(cfgs), func(ci int) {
		c := cfgs[ci]
		cfg := fmt.Sprintf("%s/%s/%s/%s", c.proto, c.codec, c.kind, c.mode)
		var hopts []connect.HandlerOption
		copts := svc.ProtoOpts(c.proto, c.codec)
		switch c.mode {
		case "identity":
			hopts = append(hopts, connect.WithCompressMinBytes(1<<30))
		case "gzip":
			copts = append(copts, connect.WithSendGzip())
		case "gzip-min100":
			copts = append(copts, connect.WithSendGzip(), connect.WithCompressMinBytes(100))
			hopts = append(hopts, connect.WithCompressMinBytes(100))
		}
		reg := svc.NewRegistry()
		hs := svc.Handlers(reg, hopts...)
		lb := &wire.Loopback{Handler: svc.Mux(hs)}
		cs := svc.NewClientSet(lb, "http://verif.local", copts...)
		texts := gen.TextClasses(run.Rand("c05/out/texts/"+cfg), 300)
		var classNames []string
		for k := range texts {
			classNames = append(classNames, k)
		}
		sortStrings(classNames)
		for i := 0; i < per; i++ {
			key := fmt.Sprintf("c05/out/%s/i=%d", cfg, i)
			if !run.Want(key) {
				continue
			}
			r := run.Rand(key) // per-case stream, so that a replay regenerates exactly this case
			c05OutCase(run, r, reg, lb, cs, algos, c.proto, c.codec, c.kind, c.mode, cfg, key, texts, classNames)
		}
	})
}

func sortStrings(s []string) {
	for i := 1; i < len(s); i++ {
		for j := i; j > 0 && s[j] < s[j-1]; j-- {
			s[j], s[j-1] = s[j-1], s[j]
		}
	}
}

func c05OutCase(run *ev.Run, r *rand.Rand, reg *svc.Registry, lb *wire.Loopback, cs *svc.ClientSet, algos refcodec.Algos,
	protocol, codec string, kind svc.Kind, mode, cfg, key string, texts map[string]string, classNames []string) {
	respH, _ := gen.Meta(r, "H", 1+r.Intn(4), refcodec.B64Encode)
	respT, _ := gen.Meta(r, "T", 1+r.Intn(4), refcodec.B64Encode)
	sizes := []int{0, 1, 50, 99, 100, 101, 1000, 70000}
	mk := func(id uint64) *gen.Msg {
		s := sizes[r.Intn(len(sizes))]
		if s == 0 {
			return gen.Zero()
		}
		return gen.New(id, s, r.Intn(2) == 0)
	}
	var sends, replies []*gen.Msg
	n := r.Intn(4)
	for i := 0; i < n; i++ {
		sends = append(sends, mk(uint64(10+i)))
		replies = append(replies, mk(uint64(20+i)))
	}
	if kind == svc.Unary || kind == svc.ServerStream {
		sends = []*gen.Msg{mk(10)}
	}
	if kind == svc.Unary || kind == svc.ClientStream {
		replies = []*gen.Msg{mk(20)}
	}
	prog := &svc.Program{Header: respH, Trailer: respT, Steps: []svc.Step{{Op: "recvall"}}}
	outcome := "ok"
	var herr *connect.Error
	var details []*anypb.Any
	var errMeta http.Header
	if r.Intn(3) == 0 {
		outcome = "error"
		code := connect.Code(1 + r.Intn(16))
		cn := classNames[r.Intn(len(classNames))]
		herr = connect.NewError(code, errors.New(texts[cn]))
		if r.Intn(4) == 0 {
			// a coded error whose cause is a context error (a backend call that
			// timed out, say) keeps its own code, text, details and metadata
			cause := context.DeadlineExceeded
			if r.Intn(2) == 0 {
				cause = context.Canceled
			}
			herr = connect.NewError(code, fmt.Errorf("%s: %w", texts[cn], cause))
			outcome = "error-wrapping-context-error"
		}
		details = c02Details(r, r.Intn(3), uint64(r.Int63()))
		for _, d := range details {
			herr.AddDetail(d)
		}
		errMeta, _ = gen.Meta(r, "E", 1+r.Intn(3), refcodec.B64Encode)
		if r.Intn(3) == 0 {
			// an error forwarded from another gRPC hop carries that hop's status fields
			errMeta["Grpc-Status"] = []string{"9"}
			errMeta["Grpc-Message"] = []string{"upstream"}
			errMeta["Grpc-Status-Details-Bin"] = []string{"CAk"}
			outcome += "-forwarded"
		}
		for k, vs := range errMeta {
			for _, v := range vs {
				herr.Meta().Add(k, v)
			}
		}
		prog.Return = herr
		if kind == svc.Unary || kind == svc.ClientStream || r.Intn(2) == 0 {
			replies = nil
		} else {
			replies = replies[:len(replies)/2]
		}
	}
	bareCtxErr, sendFails := false, false
	switch r.Intn(10) {
	case 0:
		if herr == nil {
			// the handler returns a bare context error (what ctx.Err() gives it)
			outcome = "bare-context-error"
			bareCtxErr = true
			if r.Intn(2) == 0 {
				prog.Return = context.Canceled
				herr = connect.NewError(connect.CodeCanceled, context.Canceled)
			} else {
				prog.Return = context.DeadlineExceeded
				herr = connect.NewError(connect.CodeDeadlineExceeded, context.DeadlineExceeded)
			}
			if kind == svc.Unary || kind == svc.ClientStream {
				replies = nil
			}
		}
	case 1:
		if herr == nil {
			// the first response message cannot be marshalled (invalid UTF-8 in a
			// string field): whatever the handler does next, the response on the
			// wire must still be a well-formed one
			outcome = "first-send-fails"
			sendFails = true
			prog.Steps = append(prog.Steps, svc.Step{Op: "send", Msg: &gen.Msg{Id: 3, Note: "\xff\xfe"}})
			replies = nil
		}
	}
	for _, m := range replies {
		prog.Steps = append(prog.Steps, svc.Step{Op: "send", Msg: m})
	}
	call := reg.New("c05", prog)
	ctx := context.Background()
	withTimeout := r.Intn(3) == 0
	cancel := func() {}
	if withTimeout {
		ctx, cancel = context.WithTimeout(ctx, time.Duration(1+r.Intn(100000))*time.Second)
	}
	reqH, _ := gen.Meta(r, "Q", 1+r.Intn(3), refcodec.B64Encode)
	cl := cs.Do(ctx, kind, call.ID, reqH, sends)
	cancel()
	reg.Drop(call)
	var ex *wire.LoopExchange
	lb.Mu().Lock()
	for i := len(lb.Log) - 1; i >= 0; i-- {
		if lb.Log[i].ReqHeader.Get(wire.CallHeader) == call.ID {
			ex = lb.Log[i]
			lb.Log = append(lb.Log[:i], lb.Log[i+1:]...)
			break
		}
	}
	lb.Mu().Unlock()
	run.Eval(fmt.Sprintf("out|%s|%s|msgs=%d", cfg, outcome, len(replies)))
	detail := map[string]any{"config": cfg, "outcome": outcome, "client_err": errStr(cl.Err), "bare_context_error": bareCtxErr}
	if ex == nil {
		run.Violation(key+"/no-exchange", "no HTTP exchange recorded", detail)
		return
	}
	streamCT := !(protocol == "connect" && kind == svc.Unary)
	rq, rs := ex.ReqHeader, ex.Result
	detail["request_header"] = rq
	detail["status"] = rs.Status
	detail["response_header"] = rs.Header
	detail["response_trailer"] = rs.Trailer
	detail["response_body_hex"] = trunc(fmt.Sprintf("%x", rs.Body), 500)
	bad := func(suffix, what string) { run.Violation(key+"/"+suffix, what, detail) }
	// ---- request
	run.Count("outbound.requests.decoded", 1)
	if got, want := rq.Get("Content-Type"), contentType(protocol, codec, kind); got != want {
		bad("request-content-type", fmt.Sprintf("request Content-Type %q, want %q", got, want))
		return
	}
	if protocol == "grpc" && rq.Get("Te") != "trailers" {
		bad("te-trailers", "gRPC request without te: trailers")
		return
	}
	tname := timeoutHeader(protocol)
	if tv := rq.Get(tname); withTimeout {
		ok := false
		if protocol == "connect" {
			_, ok = refcodec.ParseConnectTimeout(tv)
		} else {
			_, _, ok = refcodec.ParseGRPCTimeout(tv)
		}
		if !ok {
			bad("timeout-grammar", fmt.Sprintf("%s: %q is not grammatical", tname, tv))
			return
		}
	} else if tv != "" {
		bad("timeout-spurious", "timeout header without a deadline")
		return
	}
	dreq := refcodec.DecodeRequestBody(protocol, streamCT, rq, ex.ReqBody, algos)
	if len(dreq.Problems) > 0 {
		bad("request-malformed", "request written by the client is not decodable: "+strings.Join(dreq.Problems, "; "))
		return
	}
	if !c05SameMsgs(codec, dreq.Messages, sends) {
		bad("request-values", "reference decoder extracts different messages from the request than the application sent")
		return
	}
	for k, want := range reqH {
		if got := rq.Values(k); !sameList(got, want) {
			bad("request-metadata", fmt.Sprintf("request header %q = %q on the wire, application set %q", k, got, want))
			return
		}
	}
	// ---- response
	run.Count("outbound.responses.decoded", 1)
	d := refcodec.DecodeResponse(protocol, streamCT, rs.Status, rs.Header, rs.Body, rs.Trailer, algos)
	if len(d.Problems) > 0 || !d.Complete {
		detail["problems"] = d.Problems
		bad("response-malformed", "response written by the handler violates the protocol: "+strings.Join(d.Problems, "; "))
		return
	}
	if sendFails {
		run.Count("outbound.first_send_fails", 1)
		// unary kinds: the call as a whole fails; streams: the program ignores
		// the Send error and returns nil
		if (kind == svc.Unary || kind == svc.ClientStream) && d.Err == nil {
			bad("send-failure-as-success", "the response message could not be marshalled, yet the wire carries a success")
		}
		if len(d.Messages) != 0 {
			bad("send-failure-message", "a message that could not be marshalled appears on the wire")
		}
		// metadata the handler had set by then: whatever of it the failed
		// response still carries is carried as set (not doubled, not mixed)
		for _, set := range []http.Header{respH, respT} {
			for k, want := range set {
				got := append(append([]string{}, d.Header.Values(k)...), d.Trailer.Values(k)...)
				if len(got) != 0 && !sameList(got, want) {
					bad("send-failure-metadata", fmt.Sprintf("%q = %q on the wire of a response whose message could not be marshalled, handler set %q", k, got, want))
					return
				}
			}
		}
		return
	}
	wantCT := rq.Get("Content-Type")
	if !streamCT && herr != nil {
		wantCT = "application/json"
	}
	if got := rs.Header.Get("Content-Type"); got != wantCT {
		bad("content-type-echo", fmt.Sprintf("response Content-Type %q, want %q", got, wantCT))
		return
	}
	if !c05SameMsgs(codec, d.Messages, replies) {
		detail["decoded_count"] = len(d.Messages)
		bad("response-values", "reference decoder extracts different messages from the response than the handler sent")
		return
	}
	if herr == nil {
		if d.Err != nil {
			bad("spurious-error", fmt.Sprintf("handler returned nil, wire says %s", refcodec.CodeName(d.Err.Code)))
			return
		}
	} else {
		if d.Err == nil || d.Err.Code != uint32(herr.Code()) || d.Err.Message != herr.Message() {
			detail["decoded_error"] = d.Err
			bad("error-values", fmt.Sprintf("handler returned %v, the wire carries %+v", herr, d.Err))
			return
		}
		if len(d.Err.Details) != len(details) {
			bad("error-details", fmt.Sprintf("%d details on the wire, handler attached %d", len(d.Err.Details), len(details)))
			return
		}
		for i, dd := range d.Err.Details {
			if dd.TypeURL != details[i].TypeUrl || !proto.Equal(mustUnpack(&anypb.Any{TypeUrl: dd.TypeURL, Value: dd.Value}), mustUnpack(details[i])) {
				bad("error-details", fmt.Sprintf("detail %d differs on the wire", i))
				return
			}
		}
	}
	// metadata: headers under headers, trailers under trailers (or all together
	// when the response has no body to separate them)
	all := func(k string) []string {
		return append(append([]string{}, d.Header.Values(k)...), d.Trailer.Values(k)...)
	}
	hdrOK := herr == nil || kind == svc.ServerStream || kind == svc.Bidi
	if hdrOK {
		for k, want := range respH {
			if got := all(k); !sameList(got, want) {
				bad("response-metadata", fmt.Sprintf("header %q = %q on the wire, handler set %q", k, got, want))
				return
			}
		}
		for k, want := range respT {
			if got := all(k); !sameList(got, want) {
				bad("response-metadata", fmt.Sprintf("trailer %q = %q on the wire, handler set %q", k, got, want))
				return
			}
		}
	}
	for k, want := range errMeta {
		if strings.HasPrefix(k, "Grpc-") {
			continue
		}
		if got := all(k); !sameList(got, want) {
			bad("error-metadata", fmt.Sprintf("error metadata %q = %q on the wire, handler set %q", k, got, want))
			return
		}
	}
	if r.Intn(50) == 0 {
		run.Sample(map[string]any{"config": cfg, "outcome": outcome, "status": rs.Status, "messages": len(d.Messages), "body_bytes": len(rs.Body)})
	}
}

func c05SameMsgs(codec string, payloads [][]byte, want []*gen.Msg) bool {
	if len(payloads) != len(want) {
		return false
	}
	for i, p := range payloads {
		m, ok := decodeMsg(codec, p)
		if !ok || !proto.Equal(m, want[i]) {
			return false
		}
	}
	return true
}

// ---------------------------------------------------------------------------
// (ii) conformant peer-encoded responses are accepted with the same values

// lowerHex re-encodes a percent-encoded string with lower-case hex digits.
func lowerHex(s string) string {
	b := []byte(s)
	for i := 0; i+2 < len(b); i++ {
		if b[i] == '%' {
			for j := 1; j <= 2; j++ {
				if b[i+j] >= 'A' && b[i+j] <= 'F' {
					b[i+j] += 32
				}
			}
		}
	}
	return string(b)
}

func c05InboundResponses(run *ev.Run) {
	type cfgT struct {
		proto, codec string
		kind         svc.Kind
	}
	var cfgs []cfgT
	for _, p := range svc.Protocols {
		for _, c := range svc.Codecs {
			for _, k := range svc.Kinds {
				cfgs = append(cfgs, cfgT{p, c, k})
			}
		}
	}
	per := run.Pick(60, 600)
	parallel(16, len(cfgs), func(ci int) {
		c := cfgs[ci]
		cfg := fmt.Sprintf("%s/%s/%s", c.proto, c.codec, c.kind)
		for i := 0; i < per; i++ {
			key := fmt.Sprintf("c05/in-resp/%s/i=%d", cfg, i)
			if !run.Want(key) {
				continue
			}
			c05InRespCase(run, run.Rand(key), c.proto, c.codec, c.kind, cfg, key)
		}
	})
}

func c05InRespCase(run *ev.Run, r *rand.Rand, protocol, codec string, kind svc.Kind, cfg, key string) {
	streamCT := !(protocol == "connect" && kind == svc.Unary)
	n := 1
	if kind == svc.ServerStream || kind == svc.Bidi {
		n = r.Intn(4)
	}
	var msgs []*gen.Msg
	for i := 0; i < n; i++ {
		if r.Intn(5) == 0 {
			msgs = append(msgs, gen.Zero())
		} else {
			msgs = append(msgs, gen.New(uint64(30+i), []int{1, 40, 300, 5000}[r.Intn(4)], true))
		}
	}
	failing := r.Intn(3) == 0
	code := uint32(1 + r.Intn(16))
	texts := []string{"", "plain text", "café 日本", "100% sure", "a\nb", "inner  blanks",
		// the only byte that needs escaping is the last one / the first one
		"line ends here\n", "completely 100%", "\ttabbed", "%"}
	message := texts[r.Intn(len(texts))]
	var details []refcodec.Any
	if failing && r.Intn(2) == 0 {
		a, _ := anypb.New(&gen.Msg{Id: 99, Note: "detail"})
		details = append(details, refcodec.Any{TypeURL: a.TypeUrl, Value: a.Value})
		if r.Intn(2) == 0 {
			// payload lengths 1 and 2 mod 3 force one or two '=' when padded
			a2, _ := anypb.New(&gen.Msg{Id: 7})
			details = append(details, refcodec.Any{TypeURL: a2.TypeUrl, Value: a2.Value})
		}
	}
	if failing && (kind == svc.Unary || kind == svc.ClientStream) {
		msgs = nil
	}
	if failing && len(msgs) > 1 {
		msgs = msgs[:1]
	}
	variation := []string{}
	metaKey, metaVals := "X-Peer-Meta", []string{"v1", "v2"}
	binKey := "X-Peer-Bin"
	binRaw := make([]byte, 1+r.Intn(8))
	r.Read(binRaw)
	binVal := refcodec.B64Encode(binRaw)
	if r.Intn(2) == 0 {
		binVal = refcodec.B64EncodePadded(binRaw)
		variation = append(variation, "padded-bin")
	}
	gz := r.Intn(3) == 0
	hdr := http.Header{"Content-Type": {contentType(protocol, codec, kind)}, "X-Peer-Header": {"h1"}}
	trailer := http.Header{}
	status := 200
	var body []byte
	frame := func(p []byte) {
		flags := byte(0)
		if gz && r.Intn(2) == 0 && len(p) > 0 {
			flags = 1
			p = refcodec.GzipCompress(p)
		}
		body = refcodec.AppendFrame(body, flags, p)
	}
	switch {
	case !streamCT:
		if gz {
			variation = append(variation, "gzip")
		}
		if failing {
			status = refcodec.ConnectHTTPStatus(code)
			hdr.Set("Content-Type", "application/json")
			body = []byte(c05ErrorJSON(r, code, message, details, &variation))
			if gz {
				hdr.Set("Content-Encoding", "gzip")
				body = refcodec.GzipCompress(body)
			}
			hdr[metaKey] = metaVals
			hdr[binKey] = []string{binVal}
		} else {
			body = encMsg(codec, msgs[0])
			if gz {
				hdr.Set("Content-Encoding", "gzip")
				body = refcodec.GzipCompress(body)
			}
			hdr["Trailer-"+metaKey] = metaVals
			hdr["Trailer-"+binKey] = []string{binVal}
		}
	case protocol == "connect":
		if gz {
			hdr.Set("Connect-Content-Encoding", "gzip")
			variation = append(variation, "per-message-gzip")
		}
		for _, m := range msgs {
			frame(encMsg(codec, m))
		}
		wk := metaKey
		if r.Intn(2) == 0 {
			wk = strings.ToLower(metaKey)
			variation = append(variation, "lower-case-metadata-key")
		}
		es := "{"
		if failing {
			es += `"error":` + c05ErrorJSON(r, code, message, details, &variation) + ","
		}
		es += fmt.Sprintf(`"metadata":{%q:["v1","v2"],%q:[%q]}}`, wk, strings.ToLower(binKey), binVal)
		if !failing && r.Intn(4) == 0 {
			es = "{}"
			metaVals = nil
			variation = append(variation, "empty-end-stream")
		}
		p := []byte(es)
		flags := byte(0x02)
		if gz && r.Intn(2) == 0 {
			flags |= 1
			p = refcodec.GzipCompress(p)
			variation = append(variation, "compressed-end-stream")
		}
		body = refcodec.AppendFrame(body, flags, p)
	default:
		if gz {
			hdr.Set("Grpc-Encoding", "gzip")
			variation = append(variation, "per-message-gzip")
		}
		for _, m := range msgs {
			frame(encMsg(codec, m))
		}
		tr := http.Header{metaKey: metaVals, binKey: {binVal}}
		if failing {
			tr.Set("Grpc-Status", fmt.Sprint(code))
			enc := refcodec.PercentEncode(message)
			if r.Intn(2) == 0 {
				enc = lowerHex(enc)
				variation = append(variation, "lower-hex")
			}
			if message != "" || r.Intn(2) == 0 {
				tr.Set("Grpc-Message", enc)
			}
			if len(details) > 0 {
				st := refcodec.Status{Code: int32(code), Message: message, Details: details}.Marshal()
				if r.Intn(2) == 0 {
					tr.Set("Grpc-Status-Details-Bin", refcodec.B64EncodePadded(st))
					variation = append(variation, "padded-details")
				} else {
					tr.Set("Grpc-Status-Details-Bin", refcodec.B64Encode(st))
				}
			}
		} else {
			tr.Set("Grpc-Status", "0")
		}
		switch {
		case protocol == "grpcweb" && len(msgs) == 0 && r.Intn(2) == 0:
			for k, v := range tr {
				hdr[k] = v
			}
			variation = append(variation, "trailers-only")
		case protocol == "grpcweb":
			body = refcodec.AppendFrame(body, 0x80, refcodec.WebTrailerBlock(tr))
			variation = append(variation, "lower-case-crlf-trailer-block")
		case len(msgs) == 0 && r.Intn(2) == 0:
			for k, v := range tr {
				hdr[k] = v
			}
			variation = append(variation, "trailers-only")
		default:
			trailer = tr
		}
	}
	cn := &wire.Canned{Background: true, Respond: func(req *http.Request, _ []byte) (*http.Response, error) {
		return wire.NewResponse(req, status, hdr, &wire.ScriptedBody{Data: body}, trailer), nil
	}}
	cs := svc.NewClientSet(cn, "http://verif.local", svc.ProtoOpts(protocol, codec)...)
	cl := cs.Do(context.Background(), kind, "peer", nil, []*gen.Msg{{Id: 1}})
	run.Count("inbound.responses.accepted", 1)
	run.Eval(fmt.Sprintf("in-resp|%s|fail=%v|%s", cfg, failing, strings.Join(variation, "+")))
	detail := map[string]any{"config": cfg, "variation": variation, "status": status, "header": hdr, "trailer": trailer, "body_hex": trunc(fmt.Sprintf("%x", body), 500), "body_text": trunc(string(body), 300), "client_err": errStr(cl.Err), "client_msgs": gen.DescribeSeq(cl.Msgs)}
	bad := func(suffix, what string) { run.Violation(key+"/"+suffix, what, detail) }
	if same, why := gen.SameSeq(cl.Msgs, msgs); !same {
		bad("messages", "a conformant peer response was decoded to different messages: "+why)
		return
	}
	var meta http.Header
	if failing {
		var ce *connect.Error
		if !errors.As(cl.Err, &ce) {
			bad("error-lost", "conformant error response did not produce a *connect.Error: "+errStr(cl.Err))
			return
		}
		if uint32(ce.Code()) != code || ce.Message() != message {
			bad("error-values", fmt.Sprintf("peer sent %s %q, client reports %v %q", refcodec.CodeName(code), message, ce.Code(), ce.Message()))
			return
		}
		if len(ce.Details()) != len(details) {
			bad("error-details", fmt.Sprintf("peer sent %d details, client reports %d", len(details), len(ce.Details())))
			return
		}
		meta = ce.Meta()
	} else {
		if cl.Err != nil {
			bad("rejected", "a conformant peer response was rejected: "+errStr(cl.Err))
			return
		}
		// without a body to separate them, leading and trailing metadata may
		// legitimately arrive together
		meta = cl.Trailer.Clone()
		for k, v := range cl.Header {
			meta[k] = append(meta[k], v...)
		}
	}
	if metaVals != nil {
		if got := meta.Values(metaKey); !subseq(got, metaVals) {
			detail["meta_seen"] = meta
			bad("metadata", fmt.Sprintf("peer metadata %q: client sees %q, peer sent %q", metaKey, got, metaVals))
			return
		}
		gotBin := meta.Get(binKey)
		dec, err := connect.DecodeBinaryHeader(gotBin)
		if err != nil || string(dec) != string(binRaw) {
			bad("binary-metadata", fmt.Sprintf("peer binary metadata %q does not decode to the peer's bytes (%v)", gotBin, err))
			return
		}
	}
	if len(variation) > 1 && r.Intn(20) == 0 {
		run.Sample(map[string]any{"direction": "reference->client", "config": cfg, "variation": variation, "failing": failing})
	}
}

func c05ErrorJSON(r *rand.Rand, code uint32, message string, details []refcodec.Any, variation *[]string) string {
	var b strings.Builder
	fmt.Fprintf(&b, `{"code":%q`, refcodec.CodeName(code))
	if message != "" || r.Intn(2) == 0 {
		fmt.Fprintf(&b, `,"message":%s`, jsonString(message))
	} else {
		*variation = append(*variation, "error-without-message")
	}
	if len(details) > 0 {
		b.WriteString(`,"details":[`)
		for i, d := range details {
			if i > 0 {
				b.WriteByte(',')
			}
			a := &anypb.Any{TypeUrl: d.TypeURL, Value: d.Value}
			j, err := protojsonMarshal(a)
			if err != nil {
				panic(err)
			}
			b.Write(j)
		}
		b.WriteByte(']')
	}
	b.WriteByte('}')
	return b.String()
}

// ---------------------------------------------------------------------------
// (ii') conformant peer-encoded requests are accepted with the same values

func c05InboundRequests(run *ev.Run) {
	type cfgT struct {
		proto, codec string
		kind         svc.Kind
	}
	var cfgs []cfgT
	for _, p := range svc.Protocols {
		for _, c := range svc.Codecs {
			for _, k := range svc.Kinds {
				cfgs = append(cfgs, cfgT{p, c, k})
			}
		}
	}
	per := run.Pick(50, 500)
	algos := svc.RefAlgos()
	parallel(16, len(cfgs), func(ci int) {
		c := cfgs[ci]
		cfg := fmt.Sprintf("%s/%s/%s", c.proto, c.codec, c.kind)
		reg := svc.NewRegistry()
		hs := svc.Handlers(reg)
		for i := 0; i < per; i++ {
			key := fmt.Sprintf("c05/in-req/%s/i=%d", cfg, i)
			if !run.Want(key) {
				continue
			}
			r := run.Rand(key)
			streamCT := !(c.proto == "connect" && c.kind == svc.Unary)
			n := 1
			if c.kind == svc.ClientStream || c.kind == svc.Bidi {
				n = r.Intn(4)
			}
			var msgs []*gen.Msg
			for k := 0; k < n; k++ {
				if r.Intn(5) == 0 {
					msgs = append(msgs, gen.Zero())
				} else {
					msgs = append(msgs, gen.New(uint64(40+k), []int{1, 60, 2000}[r.Intn(3)], true))
				}
			}
			var variation []string
			ct := contentType(c.proto, c.codec, c.kind)
			if c.codec == "proto" && c.proto != "connect" && r.Intn(2) == 0 {
				ct = map[string]string{"grpc": "application/grpc", "grpcweb": "application/grpc-web"}[c.proto]
				variation = append(variation, "bare-content-type")
			}
			hdr := http.Header{"Content-Type": {ct}, "X-Peer-Req": {"q1", "q2"}}
			binRaw := make([]byte, 1+r.Intn(8))
			r.Read(binRaw)
			if r.Intn(2) == 0 {
				hdr["X-Peer-Req-Bin"] = []string{refcodec.B64EncodePadded(binRaw)}
				variation = append(variation, "padded-bin")
			} else {
				hdr["X-Peer-Req-Bin"] = []string{refcodec.B64Encode(binRaw)}
			}
			gz := r.Intn(3) == 0
			encH, _ := encHeaders(c.proto, c.kind)
			var body []byte
			if !streamCT {
				body = encMsg(c.codec, msgs[0])
				if gz {
					hdr.Set(encH, "gzip")
					body = refcodec.GzipCompress(body)
					variation = append(variation, "gzip")
				}
			} else {
				if gz {
					hdr.Set(encH, "gzip")
					variation = append(variation, "per-message-gzip")
				}
				for _, m := range msgs {
					p := encMsg(c.codec, m)
					flags := byte(0)
					if gz && r.Intn(2) == 0 && len(p) > 0 {
						flags, p = 1, refcodec.GzipCompress(p)
					}
					body = refcodec.AppendFrame(body, flags, p)
				}
			}
			wantDeadline := time.Duration(0)
			if r.Intn(3) == 0 {
				if c.proto == "connect" {
					ms := 1000 + r.Intn(1000000)
					hdr.Set("Connect-Timeout-Ms", fmt.Sprint(ms))
					wantDeadline = time.Duration(ms) * time.Millisecond
				} else {
					u := "HMSmun"[r.Intn(6)]
					units := map[byte]time.Duration{'H': time.Hour, 'M': time.Minute, 'S': time.Second, 'm': time.Millisecond, 'u': time.Microsecond, 'n': time.Nanosecond}
					v := 10000000 + r.Intn(80000000) // 8 digits; at least 10 ms whatever the unit
					hdr.Set("Grpc-Timeout", fmt.Sprintf("%d%c", v, u))
					wantDeadline = time.Duration(v) * units[u]
					if u == 'H' {
						wantDeadline = -1 // beyond the runtime: unbounded
					}
					variation = append(variation, "timeout-unit-"+string(u))
				}
			}
			if c.proto == "grpc" {
				hdr.Set("Te", "trailers")
			}
			call := reg.New("c05r", &svc.Program{Steps: []svc.Step{{Op: "recvall"}, {Op: "sendsum"}}, StopOnRecvErr: true})
			hdr.Set(wire.CallHeader, call.ID)
			rw := wire.NewRecorder()
			t0 := time.Now()
			hs[c.kind].ServeHTTP(rw, wire.ServerRequest(context.Background(), "POST", c.kind.Path(), hdr, &wire.ScriptedBody{Data: body}, 2))
			reg.Drop(call)
			res := rw.Finish()
			run.Count("inbound.requests.accepted", 1)
			run.Eval(fmt.Sprintf("in-req|%s|%s", cfg, strings.Join(variation, "+")))
			hl := call.Log
			detail := map[string]any{"config": cfg, "variation": variation, "header": hdr, "body_hex": trunc(fmt.Sprintf("%x", body), 400), "status": res.Status, "handler_received": gen.DescribeSeq(hl.Received), "handler_recv_err": errStr(hl.RecvErr)}
			bad := func(suffix, what string) { run.Violation(key+"/"+suffix, what, detail) }
			if hl.Invocations != 1 {
				bad("not-served", fmt.Sprintf("a conformant request was not served (status %d)", res.Status))
				continue
			}
			if same, why := gen.SameSeq(hl.Received, msgs); !same {
				bad("messages", "a conformant peer request was decoded to different messages: "+why)
				continue
			}
			if got := hl.ReqHeader.Values("X-Peer-Req"); !sameList(got, []string{"q1", "q2"}) {
				bad("metadata", fmt.Sprintf("peer request metadata seen as %q", got))
				continue
			}
			if dec, err := connect.DecodeBinaryHeader(hl.ReqHeader.Get("X-Peer-Req-Bin")); err != nil || string(dec) != string(binRaw) {
				bad("binary-metadata", fmt.Sprintf("peer binary request metadata does not decode (%v)", err))
				continue
			}
			switch {
			case wantDeadline > 0:
				if !hl.HasDeadline || hl.Deadline.Before(t0.Add(wantDeadline-time.Millisecond)) || hl.Deadline.After(hl.Entered.Add(wantDeadline+time.Millisecond)) {
					bad("timeout", fmt.Sprintf("peer timeout %v not honoured: has=%v deadline-in=%v", wantDeadline, hl.HasDeadline, hl.Deadline.Sub(t0)))
					continue
				}
			case wantDeadline < 0 || hdr.Get(timeoutHeader(c.proto)) == "":
				if hl.HasDeadline {
					bad("timeout", "handler has a deadline although the peer sent none (or an unbounded one)")
					continue
				}
			}
			d := refcodec.DecodeResponse(c.proto, streamCT, res.Status, res.Header, res.Body, res.Trailer, algos)
			if len(d.Problems) > 0 || d.Err != nil {
				detail["problems"] = d.Problems
				bad("response", "conformant request not answered with a well-formed success")
				continue
			}
			if got := res.Header.Get("Content-Type"); got != ct {
				detail["response_content_type"] = got
				bad("content-type-echo", fmt.Sprintf("request Content-Type %q answered with Content-Type %q; the response must echo the request's", ct, got))
			}
		}
	})
}
