package checks

import (
	"encoding/json"
	"os"

	"verif.local/harness/ev"
)

// mergeInterop folds the result of the optional grpc-go interop run (a
// separate module built and run by run.sh) into the C05 evidence.
func mergeInterop(run *ev.Run) {
	if run.Replaying() {
		return
	}
	path := os.Getenv("VERIF_INTEROP_RESULT")
	if path == "" {
		run.Inconclusive("grpc-go interop peer not run (module unavailable); the reference codec remains the deciding oracle")
		return
	}
	b, err := os.ReadFile(path)
	if err != nil {
		run.Inconclusive("grpc-go interop result unreadable")
		return
	}
	var res struct {
		Calls      int64 `json:"calls"`
		Violations []struct {
			Key, What string
			Detail    any
		} `json:"violations"`
		Counters map[string]int64 `json:"counters"`
	}
	if json.Unmarshal(b, &res) != nil {
		run.Inconclusive("grpc-go interop result unparsable")
		return
	}
	for k, v := range res.Counters {
		run.Count("grpc-go."+k, v)
		run.Eval("grpc-go|" + k)
	}
	for _, v := range res.Violations {
		run.Violation(v.Key, v.What, v.Detail)
	}
}
