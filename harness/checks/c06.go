package checks

import (
	"bytes"
	"context"
	"errors"
	"fmt"
	"io"
	"math/rand"
	"net/http"
	"os"
	"strings"
	"sync"
	"time"

	connect "github.com/bufbuild/connect-go"
	"google.golang.org/protobuf/encoding/protojson"
	"google.golang.org/protobuf/proto"
	"verif.local/harness/ev"
	"verif.local/harness/gen"
	"verif.local/harness/refcodec"
	"verif.local/harness/svc"
	"verif.local/harness/wire"
)

func init() { register("C06", "exploration", c06) }

// hostile is one crafted response.
type hostile struct {
	class   string
	status  int
	header  http.Header
	body    []byte
	trailer http.Header
	// noValidError: the response carries no valid protocol-level error, so for
	// a non-200 status the code must be a function of the status.
	noValidError bool
	// expectMeta: canonical key -> values that must be found (Get/Values with
	// canonical casing) in the trailers or, on error, in the error metadata.
	expectMeta map[string][]string
	// metaAnyOrder: the values were sent under two spellings of the key, so
	// only their presence (not their relative order) is specified.
	metaAnyOrder bool
}

func encMsg(codec string, m *gen.Msg) []byte {
	if codec == "json" {
		b, _ := protojson.Marshal(m)
		return b
	}
	b, _ := proto.Marshal(m)
	return b
}

func contentType(protocol, codec string, kind svc.Kind) string {
	switch protocol {
	case "grpc":
		return "application/grpc+" + codec
	case "grpcweb":
		return "application/grpc-web+" + codec
	}
	if kind == svc.Unary {
		return "application/" + codec
	}
	return "application/connect+" + codec
}

func randCase(r *rand.Rand, s string) string {
	b := []byte(s)
	for i, c := range b {
		if r.Intn(2) == 0 {
			if c >= 'a' && c <= 'z' {
				b[i] = c - 32
			} else if c >= 'A' && c <= 'Z' {
				b[i] = c + 32
			}
		}
	}
	return string(b)
}

var hostileStatuses = []string{"", "0", "00", "000", "+0", "-0", "-1", "1", "16", "17", "99", "4294967295", "4294967296", "8589934592", "18446744073709551616", "x", "1 ", " 1", "0x1", "1.0", "1e1", "٣", "2,3"}
var hostileMessages = []string{"", "plain", "%", "%4", "%zz", "%E4%B8", "%00", "a%20b%", "caf%C3%A9 100%4", "%41%4", "%41%", "%41%%", "x%41y%zz%4", strings.Repeat("%41", 200), "caf\xc3\xa9", "\x00\x01"}

func hostileDetails(r *rand.Rand) string {
	switch r.Intn(8) {
	case 0:
		return "!!!not-base64"
	case 1:
		return refcodec.B64Encode([]byte{0xff, 0xff, 0xff, 0x01})
	case 2:
		return refcodec.B64Encode(refcodec.Status{Code: 0, Message: "zero"}.Marshal())
	case 3:
		return refcodec.B64Encode(refcodec.Status{Code: 5, Message: "five", Details: []refcodec.Any{{TypeURL: "type.googleapis.com/nope.Nope", Value: []byte{1, 2, 3}}}}.Marshal())
	case 4:
		return refcodec.B64EncodePadded(refcodec.Status{Code: 7, Message: "padded"}.Marshal())
	case 5:
		return refcodec.B64Encode(bytes.Repeat([]byte{0x0a, 0x01, 0x41}, 20000))
	case 6:
		return refcodec.B64Encode(refcodec.Status{Code: -1, Message: "neg"}.Marshal())
	}
	return ""
}

// genGRPC builds grammar-based hostile gRPC / gRPC-Web responses.
func genGRPC(r *rand.Rand, protocol, codec string, kind svc.Kind) *hostile {
	web := protocol == "grpcweb"
	h := &hostile{class: "grammar/" + protocol, status: 200, header: http.Header{}, trailer: http.Header{}}
	h.header.Set("Content-Type", contentType(protocol, codec, kind))
	if r.Intn(12) == 0 {
		h.header.Set("Content-Type", []string{"", "text/html", "application/grpc", "application/json"}[r.Intn(4)])
	}
	if r.Intn(6) == 0 {
		st := []int{100, 101, 199, 201, 204, 301, 302, 400, 401, 403, 404, 408, 413, 429, 431, 500, 501, 502, 503, 504, 599}
		h.status = st[r.Intn(len(st))]
		h.noValidError = true
	}
	enc := ""
	switch r.Intn(8) {
	case 0:
		enc = "gzip"
	case 1:
		enc = "br"
	case 2:
		enc = "identity"
	}
	if enc != "" {
		h.header.Set("Grpc-Encoding", enc)
	}
	nmsg := r.Intn(3)
	var body []byte
	for i := 0; i < nmsg; i++ {
		p := encMsg(codec, &gen.Msg{Id: uint64(i + 1), Note: "m"})
		flags := byte(0)
		switch r.Intn(10) {
		case 0:
			flags = 1 // compressed flag, maybe without encoding / not actually compressed
		case 1:
			flags = 1
			p = refcodec.GzipCompress(p)
		case 2:
			flags = []byte{0x02, 0x04, 0x40, 0x80, 0xff, 0x81}[r.Intn(6)]
		case 3:
			p = p[:len(p)/2]
		}
		body = refcodec.AppendFrame(body, flags, p)
		if r.Intn(15) == 0 { // lying length
			lie := []uint32{0xffffffff, 0x80000000, 1<<20 + 1, uint32(len(p) + 7)}[r.Intn(4)]
			off := len(body) - len(p) - 4
			body[off], body[off+1], body[off+2], body[off+3] = byte(lie>>24), byte(lie>>16), byte(lie>>8), byte(lie)
		}
	}
	tr := http.Header{}
	st := hostileStatuses[r.Intn(len(hostileStatuses))]
	if r.Intn(3) == 0 {
		st = []string{"0", "5", "13"}[r.Intn(3)]
	}
	if st != "" || r.Intn(2) == 0 {
		tr["Grpc-Status"] = []string{st}
	}
	if r.Intn(2) == 0 {
		tr["Grpc-Message"] = []string{hostileMessages[r.Intn(len(hostileMessages))]}
	}
	if d := hostileDetails(r); d != "" && r.Intn(2) == 0 {
		tr["Grpc-Status-Details-Bin"] = []string{d}
	}
	if r.Intn(10) == 0 {
		tr["Grpc-Status"] = append(tr["Grpc-Status"], "3")
	}
	if r.Intn(12) == 0 {
		// announced in the Trailer header but never sent: net/http leaves the key
		// in Response.Trailer with no values
		tr["Grpc-Status"] = nil
		if r.Intn(2) == 0 {
			tr["Grpc-Message"] = nil
			tr["Grpc-Status-Details-Bin"] = []string{}
		}
	}
	// application metadata with adversarial casing where it survives to the
	// library (in-body trailers).
	mk := fmt.Sprintf("x-verif-%d", r.Intn(100))
	mv := []string{"v1", "v2"}
	where := r.Intn(4)
	switch {
	case where == 0: // trailers-only in headers
		for k, v := range tr {
			h.header[k] = v
		}
		h.header[http.CanonicalHeaderKey(mk)] = mv
		body = nil
		if r.Intn(4) == 0 {
			body = refcodec.AppendFrame(nil, 0, encMsg(codec, &gen.Msg{Id: 1}))
		}
	case web:
		wk := randCase(r, mk)
		block := &bytes.Buffer{}
		for k, vs := range tr {
			for _, v := range vs {
				fmt.Fprintf(block, "%s: %s\r\n", randCase(r, k), v)
			}
		}
		for _, v := range mv {
			fmt.Fprintf(block, "%s: %s\r\n", wk, v)
		}
		if wk2 := randCase(r, mk); wk2 != wk && r.Intn(2) == 0 {
			fmt.Fprintf(block, "%s: %s\r\n", wk2, "v3")
			mv = []string{"v1", "v2", "v3"}
			h.metaAnyOrder = true
		}
		tb := block.Bytes()
		switch r.Intn(12) {
		case 0:
			tb = []byte("no colon here\r\n")
		case 1:
			tb = append(tb, 0xff, 0xfe)
		case 2:
			tb = nil
		}
		if !strings.ContainsAny(strings.Join(append(tr["Grpc-Message"], tr["Grpc-Status"]...), ""), "\r\n\x00") {
			h.expectMeta = map[string][]string{http.CanonicalHeaderKey(mk): mv}
		}
		if len(tb) == 0 || tb[0] == 'n' || tb[len(tb)-1] == 0xfe {
			h.expectMeta = nil
		}
		tflags := byte(0x80)
		if r.Intn(12) == 0 {
			tflags = 0x81
		}
		body = refcodec.AppendFrame(body, tflags, tb)
		switch r.Intn(12) {
		case 0: // trailer frame not last
			body = refcodec.AppendFrame(body, 0, encMsg(codec, &gen.Msg{Id: 9}))
		case 1: // second trailer frame
			body = refcodec.AppendFrame(body, 0x80, []byte("grpc-status: 0\r\n"))
		}
	default:
		for k, v := range tr {
			h.trailer[k] = v
		}
		h.trailer[http.CanonicalHeaderKey(mk)] = mv
	}
	if h.status != 200 || h.header.Get("Content-Type") != contentType(protocol, codec, kind) {
		h.expectMeta = nil
	}
	return h
}

var connectErrBodies = []string{`{}`, `{"message":"Forbidden"}`, `{"code":"code_0"}`, `{"code":"code_0","message":"zero"}`, `{"code":"bogus"}`, `{"code":17}`, `{"code":"not_found"}`,
	`{"code":"not_found","message":"nf","details":"x"}`, `{"code":"internal","details":[{"@type":"type.googleapis.com/nope.Nope","x":1}]}`,
	`{"code":"internal","details":[{"@type":"type.googleapis.com/google.protobuf.StringValue","value":"ok"}]}`, `{"code":"code_4294967296"}`, `{"code":"code_-1"}`, `{"code":"CANCELED"}`, `{"code":""}`, `{"code":null}`,
	`<html><body>502 Bad Gateway</body></html>`, ``, `[]`, `null`, `"str"`, `{"code":"unavailable","message":"\ud800"}`, `{"error":{"code":"not_found"}}`, `{"code":"unknown","extra":1}`}

func genConnectUnary(r *rand.Rand, codec string) *hostile {
	h := &hostile{class: "grammar/connect-unary", status: 200, header: http.Header{}, trailer: http.Header{}}
	h.header.Set("Content-Type", "application/"+codec)
	if r.Intn(3) > 0 {
		// error-ish response
		all := []int{100, 199, 201, 204, 206, 301, 304, 400, 401, 403, 404, 408, 409, 412, 413, 429, 431, 499, 500, 501, 502, 503, 504, 599}
		h.status = all[r.Intn(len(all))]
		if r.Intn(3) == 0 {
			h.status = 200 + r.Intn(400)
		}
		if h.status == 200 {
			h.status = 418
		}
		b := connectErrBodies[r.Intn(len(connectErrBodies))]
		h.body = []byte(b)
		h.header.Set("Content-Type", []string{"application/json", "application/json", "text/html", "application/" + codec}[r.Intn(4)])
		// valid protocol-level error == JSON object with a defined non-zero code name
		var probe struct {
			Code string `json:"code"`
		}
		validErr := false
		if err := jsonUnmarshalStrict([]byte(b), &probe); err == nil {
			if _, ok := refcodec.CodeFromName(probe.Code); ok {
				validErr = true
			}
			if strings.HasPrefix(probe.Code, "code_") {
				validErr = true // treated as carrying its own (possibly odd) code: not constrained
			}
		}
		h.noValidError = !validErr
		switch r.Intn(10) {
		case 0:
			h.header.Set("Content-Encoding", "gzip") // body is not gzip
			h.noValidError = true
		case 1:
			h.header.Set("Content-Encoding", "gzip")
			h.body = refcodec.GzipCompress(h.body)
		case 2:
			h.header.Set("Content-Encoding", "br")
			h.noValidError = false // rejected earlier as unknown encoding: code unconstrained
		}
		return h
	}
	p := encMsg(codec, &gen.Msg{Id: 5, Note: "ok"})
	switch r.Intn(8) {
	case 0:
		p = p[:len(p)/2]
	case 1:
		p = []byte{0xff, 0xff, 0xff}
	case 2:
		h.header.Set("Content-Encoding", "gzip")
	case 3:
		h.header.Set("Content-Encoding", "gzip")
		p = refcodec.GzipCompress(p)
	case 4:
		h.header.Set("Content-Encoding", "zstd")
	case 5:
		p = bytes.Repeat([]byte{'a'}, 1<<20+5)
	}
	h.body = p
	h.header["Trailer-X-Verif-T"] = []string{"t1", "t2"}
	return h
}

var endStreams = []string{`{}`, `{"error":{}}`, `{"error":{"message":"only message"}}`, `{"error":{"code":"code_0"}}`, `{"error":{"code":"bogus"}}`, `{"error":{"code":"not_found","message":"nf"}}`, `{"error":null}`,
	`{"error":"str"}`, `{"error":[]}`, `{"metadata":5}`, `{"metadata":{"x-a":"notarray"}}`, `{"metadata":{"x-a":[1,2]}}`, `{"metadata":null}`, `not json`, ``, `[]`, `null`, `{"error":{"code":"internal","details":[{"@type":"x"}]}}`, `{"unknown":1}`}

func genConnectStream(r *rand.Rand, codec string) *hostile {
	h := &hostile{class: "grammar/connect-stream", status: 200, header: http.Header{}, trailer: http.Header{}}
	h.header.Set("Content-Type", "application/connect+"+codec)
	if r.Intn(8) == 0 {
		st := []int{201, 204, 302, 400, 401, 403, 404, 408, 429, 500, 502, 503, 504}
		h.status = st[r.Intn(len(st))]
		h.noValidError = true
	}
	switch r.Intn(8) {
	case 0:
		h.header.Set("Connect-Content-Encoding", "gzip")
	case 1:
		h.header.Set("Connect-Content-Encoding", "snappy")
	}
	var body []byte
	for i := 0; i < r.Intn(3); i++ {
		p := encMsg(codec, &gen.Msg{Id: uint64(i + 1), Note: "m"})
		flags := byte(0)
		switch r.Intn(10) {
		case 0:
			flags = 1
		case 1:
			flags = []byte{0x04, 0x80, 0xff}[r.Intn(3)]
		case 2:
			p = p[:len(p)/2]
		}
		body = refcodec.AppendFrame(body, flags, p)
	}
	if r.Intn(2) == 0 {
		// valid-ish end-stream with adversarially cased metadata
		mk := fmt.Sprintf("x-verif-%d", r.Intn(100))
		wk := randCase(r, mk)
		mv := []string{"a", "b"}
		errPart := ""
		switch r.Intn(4) {
		case 0:
			errPart = `"error":{"code":"aborted","message":"stop"},`
		case 1:
			errPart = `"error":{"message":"no code"},`
		}
		es := fmt.Sprintf(`{%s"metadata":{%q:["a","b"]}}`, errPart, wk)
		if wk2 := randCase(r, mk); wk2 != wk && r.Intn(2) == 0 {
			// the same field under two spellings: HTTP field names are
			// case-insensitive, so a lookup must find the values of both
			es = fmt.Sprintf(`{%s"metadata":{%q:["a","b"],%q:["c"]}}`, errPart, wk, wk2)
			mv = []string{"a", "b", "c"}
			h.metaAnyOrder = true
		}
		flags := byte(0x02)
		payload := []byte(es)
		if h.header.Get("Connect-Content-Encoding") == "gzip" && r.Intn(2) == 0 {
			flags |= 1
			payload = refcodec.GzipCompress(payload)
		}
		// only expect the metadata if everything before is valid
		frames, rest := refcodec.ParseFrames(body)
		ok := rest == nil && h.status == 200 && h.header.Get("Connect-Content-Encoding") != "snappy"
		for _, f := range frames {
			if f.Flags != 0 {
				ok = false
			}
			var m gen.Msg
			if codec == "json" {
				if protojson.Unmarshal(f.Payload, &m) != nil {
					ok = false
				}
			} else if proto.Unmarshal(f.Payload, &m) != nil {
				ok = false
			}
		}
		if ok {
			h.expectMeta = map[string][]string{http.CanonicalHeaderKey(mk): mv}
		}
		body = refcodec.AppendFrame(body, flags, payload)
	} else {
		es := endStreams[r.Intn(len(endStreams))]
		flags := byte(0x02)
		if r.Intn(8) == 0 {
			flags = 0x03
		}
		body = refcodec.AppendFrame(body, flags, []byte(es))
		switch r.Intn(10) {
		case 0:
			body = refcodec.AppendFrame(body, 0x02, []byte(`{}`))
		case 1:
			body = refcodec.AppendFrame(body, 0, encMsg(codec, &gen.Msg{Id: 3}))
		}
	}
	h.body = body
	return h
}

func jsonUnmarshalStrict(b []byte, v any) error {
	if len(b) == 0 || b[0] != '{' {
		return errors.New("not an object")
	}
	return jsonUnmarshal(b, v)
}

// mutate derives a hostile response from a valid recorded one.
func mutateRecorded(r *rand.Rand, rec *recorded) *hostile {
	h := &hostile{class: "mutation/" + rec.Proto, status: rec.Ex.Result.Status, header: rec.Ex.Result.Header.Clone(), trailer: rec.Ex.Result.Trailer.Clone(), body: append([]byte(nil), rec.Ex.Result.Body...)}
	for n := 1 + r.Intn(3); n > 0; n-- {
		switch r.Intn(9) {
		case 0, 1:
			if len(h.body) > 0 {
				i := r.Intn(len(h.body))
				h.body[i] ^= 1 << uint(r.Intn(8))
			}
		case 2:
			if len(h.body) > 0 {
				h.body = h.body[:r.Intn(len(h.body))]
			}
		case 3:
			for k := range h.header {
				if r.Intn(3) == 0 {
					delete(h.header, k)
					break
				}
			}
		case 4:
			for k, v := range h.header {
				if r.Intn(3) == 0 {
					h.header[k] = append(v, v...)
					break
				}
			}
		case 5:
			for k := range h.trailer {
				if r.Intn(2) == 0 {
					delete(h.trailer, k)
					break
				}
			}
		case 6:
			h.status = []int{200, 204, 400, 404, 500, 503}[r.Intn(6)]
		case 7:
			if len(h.body) >= 5 {
				h.body[0] = byte(r.Intn(256))
			}
		case 8:
			if len(h.body) > 4 {
				i := r.Intn(len(h.body) - 4)
				h.body = append(h.body[:i], h.body[i+r.Intn(4)+1:]...)
			}
		}
	}
	return h
}

func randomResp(r *rand.Rand, protocol, codec string, kind svc.Kind) *hostile {
	h := &hostile{class: "random/" + protocol, status: 200, header: http.Header{}, trailer: http.Header{}}
	if r.Intn(2) == 0 {
		h.header.Set("Content-Type", contentType(protocol, codec, kind))
	}
	if r.Intn(4) == 0 {
		h.status = 100 + r.Intn(500)
	}
	h.body = make([]byte, r.Intn(64))
	r.Read(h.body)
	if r.Intn(2) == 0 && len(h.body) >= 5 {
		h.body[0] &= 0x83
		h.body[1], h.body[2], h.body[3] = 0, 0, 0
	}
	if r.Intn(3) == 0 {
		h.trailer.Set("Grpc-Status", fmt.Sprint(r.Intn(20)))
	}
	return h
}

type statusSeen struct {
	mu sync.Mutex
	m  map[string]map[connect.Code]string
}

func (s *statusSeen) add(family string, status int, code connect.Code, key string) {
	s.mu.Lock()
	defer s.mu.Unlock()
	k := fmt.Sprintf("%s/%d", family, status)
	if s.m[k] == nil {
		s.m[k] = map[connect.Code]string{}
	}
	if _, ok := s.m[k][code]; !ok {
		s.m[k][code] = key
	}
}

var agreedHTTPToCode = map[int]connect.Code{401: connect.CodeUnauthenticated, 403: connect.CodePermissionDenied, 404: connect.CodeUnimplemented, 429: connect.CodeUnavailable, 502: connect.CodeUnavailable, 503: connect.CodeUnavailable, 504: connect.CodeUnavailable}

func c06(run *ev.Run) int {
	run.SetRule("cases = crafted (status, headers, body, trailers) from three generators - grammar-based hostile responses per protocol (adversarial grpc-status/message/details, JSON error bodies, end-of-stream objects, flags, lengths, encodings, every status class), mutations of recorded valid responses, random bytes - x 3 protocols x 2 codecs x 4 kinds; oracle on every operation result: returns (watchdog), no panic, error => *connect.Error with code != 0, status-derived code for non-200 without valid protocol error, case-insensitive metadata lookups; distinct by (generator class, protocol, codec, kind, outcome class); bare responses from a canned HTTPClient (nil Header and/or Trailer maps) carrying a server error with metadata")
	run.Assume("clients use WithReadMaxBytes(1 MiB): without a limit a lying 4 GiB length only costs time/memory (observed in the design phase), which is outside this property")
	run.Assume("header maps handed to the client are canonical-keyed, as net/http guarantees; wire casing is exercised for in-body metadata")
	n := run.Pick(1200, 60000) // per (protocol, codec, kind)
	corp := buildCorpus(corpusSpec{protos: svc.Protocols, codecs: svc.Codecs, kinds: svc.Kinds, gzips: []bool{false, true}, counts: []int{1, 2}, scenarios: []string{"ok", "err"}})
	byCfg := map[string][]*recorded{}
	for _, c := range corp {
		k := fmt.Sprintf("%s/%s/%s", c.Proto, c.Codec, c.Kind)
		byCfg[k] = append(byCfg[k], c)
	}
	type cfgT struct {
		proto, codec string
		kind         svc.Kind
	}
	var cfgs []cfgT
	for _, p := range svc.Protocols {
		for _, c := range svc.Codecs {
			for _, k := range svc.Kinds {
				cfgs = append(cfgs, cfgT{p, c, k})
			}
		}
	}
	seen := &statusSeen{m: map[string]map[connect.Code]string{}}
	parallel(16, len(cfgs), func(ci int) {
		c := cfgs[ci]
		cfg := fmt.Sprintf("%s/%s/%s", c.proto, c.codec, c.kind)
		r := run.Rand("c06/" + cfg)
		recs := byCfg[cfg]
		for i := 0; i < n; i++ {
			var h *hostile
			switch {
			case i%10 < 6:
				switch {
				case c.proto == "connect" && c.kind == svc.Unary:
					h = genConnectUnary(r, c.codec)
				case c.proto == "connect":
					h = genConnectStream(r, c.codec)
				default:
					h = genGRPC(r, c.proto, c.codec, c.kind)
				}
			case i%10 < 9:
				h = mutateRecorded(r, recs[r.Intn(len(recs))])
			default:
				h = randomResp(r, c.proto, c.codec, c.kind)
			}
			key := fmt.Sprintf("c06/%s/i=%d", cfg, i)
			if !run.Want(key) {
				continue
			}
			fmt.Fprintf(os.Stderr, "case %s\n", key)
			c06Case(run, seen, c.proto, c.codec, c.kind, cfg, key, h)
		}
	})
	// declared-length lies (Content-Length unrelated to the body)
	declaredLengthClient(run, "c06", 1<<20, func(key string, cl *svc.CLog, panicked any, hung bool, _ uint64, detail map[string]any) {
		run.Count("calls", 1)
		switch {
		case hung:
			run.Violation(key+"/hang", "client call did not return within 20 s", detail)
		case panicked != nil:
			detail["panic"] = fmt.Sprint(panicked)
			run.Violation(key+"/panic", fmt.Sprintf("client call panicked: %v", panicked), detail)
		default:
			for _, e := range append([]error{cl.Err, cl.CloseErr}, cl.SendErrs...) {
				if e != nil && !errors.Is(e, io.EOF) && !codedOrNil(e) {
					run.Violation(key+"/uncoded", "operation returned an error that is not a coded *connect.Error: "+errStr(e), detail)
					return
				}
			}
		}
	})
	// function-of-status check
	for k, codes := range seen.m {
		run.Count("status.classes", 1)
		if len(codes) > 1 {
			run.Violation("c06/status-not-a-function/"+k, fmt.Sprintf("responses with status %s and no valid protocol error produced %d different codes", k, len(codes)), fmt.Sprint(codes))
		}
	}
	c06BareResponses(run)
	return run.Finish("calls", "errors.checked", "status.derived.checked", "meta.casing.checked")
}

// c06BareResponses: responses from a canned / replaying HTTPClient that leaves
// Response.Header and Response.Trailer nil (net/http's own transports never
// do, http.Client copes): whatever the body says, the call ends without a
// panic and every error is coded. The bodies carry a server error with
// metadata, the case in which the client merges maps.
func c06BareResponses(run *ev.Run) {
	for _, protocol := range svc.Protocols {
		for _, codec := range svc.Codecs {
			for _, kind := range svc.Kinds {
				for _, shape := range []string{"error+metadata", "error", "metadata", "clean", "message+error+metadata"} {
					for _, maps := range []string{"header=nil,trailer=nil", "header=nil", "trailer=nil"} {
						key := fmt.Sprintf("c06/bare-response/%s/%s/%s/%s/%s", protocol, codec, kind, shape, maps)
						if !run.Want(key) {
							continue
						}
						var body []byte
						if strings.HasPrefix(shape, "message") {
							body = refcodec.AppendFrame(body, 0, encMsg(codec, &gen.Msg{Id: 5, Note: "m"}))
						}
						end := "{}"
						switch strings.TrimPrefix(shape, "message+") {
						case "error+metadata":
							end = `{"error":{"code":"resource_exhausted","message":"quota"},"metadata":{"X-Quota":["1","2"],"x-lower":["v"]}}`
						case "error":
							end = `{"error":{"code":"resource_exhausted","message":"quota"}}`
						case "metadata":
							end = `{"metadata":{"X-Quota":["1","2"]}}`
						}
						header := http.Header{}
						switch protocol {
						case "connect":
							if kind == svc.Unary {
								body = []byte(`{"code":"resource_exhausted","message":"quota"}`)
							} else {
								body = refcodec.AppendFrame(body, 0x02, []byte(end))
							}
						case "grpcweb":
							body = refcodec.AppendFrame(body, 0x80, []byte("grpc-status: 8\r\ngrpc-message: quota\r\nx-quota: 1\r\n"))
						}
						if !strings.HasPrefix(maps, "header=nil") {
							header.Set("Content-Type", contentType(protocol, codec, kind))
						}
						status := 200
						if protocol == "connect" && kind == svc.Unary {
							status = 429
							if !strings.HasPrefix(maps, "header=nil") {
								header.Set("Content-Type", "application/json")
							}
						}
						data := body
						cn := &wire.Canned{Background: true, Respond: func(req *http.Request, _ []byte) (*http.Response, error) {
							resp := wire.NewResponse(req, status, header, &wire.ScriptedBody{Data: data}, nil)
							if strings.HasPrefix(maps, "header=nil") {
								resp.Header = nil
							}
							if strings.HasSuffix(maps, "trailer=nil") {
								resp.Trailer = nil
							}
							return resp, nil
						}}
						cs := svc.NewClientSet(cn, "http://verif.local", append(svc.ProtoOpts(protocol, codec), connect.WithReadMaxBytes(1<<20))...)
						var cl *svc.CLog
						var panicked any
						ok, dump := watchdog(20*time.Second, func() {
							defer func() { panicked = recover() }()
							cl = cs.Do(context.Background(), kind, "h", nil, []*gen.Msg{{Id: 1}})
						})
						run.Count("calls", 1)
						run.Count("bare_responses", 1)
						run.Eval(fmt.Sprintf("bare|%s|%s|%s|%s|%s", protocol, codec, kind, shape, maps))
						detail := map[string]any{"protocol": protocol, "codec": codec, "kind": kind.String(), "shape": shape, "maps": maps, "body_text": trunc(string(body), 300)}
						if !ok {
							run.Violation(key+"/hang", "client call did not return within 20 s", map[string]any{"case": detail, "goroutines": trunc(dump, 20000)})
							continue
						}
						if panicked != nil {
							detail["panic"] = fmt.Sprint(panicked)
							run.Violation(key+"/panic", fmt.Sprintf("client call panicked: %v", panicked), detail)
							continue
						}
						for _, e := range append([]error{cl.Err, cl.CloseErr}, cl.SendErrs...) {
							if e == nil {
								continue
							}
							run.Count("errors.checked", 1)
							var ce *connect.Error
							if !errors.As(e, &ce) || ce.Code() == 0 {
								detail["error"] = e.Error()
								run.Violation(key+"/uncoded", "operation returned an error that is not a coded *connect.Error: "+e.Error(), detail)
								break
							}
						}
						if strings.Contains(shape, "error") && protocol != "grpc" && cl.Err == nil && !strings.HasPrefix(maps, "header=nil") {
							run.Violation(key+"/error-lost", "the response carried a server error but the call succeeded", detail)
						}
					}
				}
			}
		}
	}
}

func c06Case(run *ev.Run, seen *statusSeen, protocol, codec string, kind svc.Kind, cfg, key string, h *hostile) {
	// sometimes the transport fails after the last byte (broken chunked
	// framing, dropped connection): whatever surfaces must still be coded
	var finalErr error
	switch len(h.body) % 7 {
	case 3:
		finalErr = errors.New("invalid byte in chunk length")
	case 5:
		finalErr = io.ErrUnexpectedEOF
	}
	cn := &wire.Canned{Background: true, Respond: func(req *http.Request, _ []byte) (*http.Response, error) {
		return wire.NewResponse(req, h.status, h.header, &wire.ScriptedBody{Data: h.body, FinalErr: finalErr}, h.trailer), nil
	}}
	opts := append(svc.ProtoOpts(protocol, codec), connect.WithReadMaxBytes(1<<20))
	cs := svc.NewClientSet(cn, "http://verif.local", opts...)
	var cl *svc.CLog
	var panicked any
	ok, dump := watchdog(20*time.Second, func() {
		defer func() { panicked = recover() }()
		cl = cs.Do(context.Background(), kind, "h", nil, []*gen.Msg{{Id: 1}, {Id: 2}})
	})
	run.Count("calls", 1)
	detail := map[string]any{"config": cfg, "class": h.class, "status": h.status, "header": h.header, "trailer": h.trailer, "body_hex": trunc(fmt.Sprintf("%x", h.body), 600), "body_text": trunc(string(h.body), 300)}
	if !ok {
		run.Eval(cfg + "|" + h.class + "|hang")
		run.Violation(key+"/hang", "client call did not return within 20 s", map[string]any{"case": detail, "goroutines": trunc(dump, 20000)})
		return
	}
	if panicked != nil {
		run.Eval(cfg + "|" + h.class + "|panic")
		detail["panic"] = fmt.Sprint(panicked)
		run.Violation(key+"/panic", fmt.Sprintf("client call panicked: %v", panicked), detail)
		return
	}
	outcome := "success"
	errs := append([]error{cl.Err, cl.CloseErr}, cl.SendErrs...)
	for _, e := range errs {
		if e == nil {
			continue
		}
		run.Count("errors.checked", 1)
		var ce *connect.Error
		if !errors.As(e, &ce) {
			detail["error"] = e.Error()
			run.Violation(key+"/not-connect-error", "operation returned an error that is not a *connect.Error: "+e.Error(), detail)
			return
		}
		if ce.Code() == 0 {
			detail["error"] = e.Error()
			run.Violation(key+"/zero-code", "operation returned a *connect.Error with the zero (OK) code: "+e.Error(), detail)
			return
		}
	}
	if cl.Err != nil {
		code, _ := codeOf(cl.Err)
		outcome = "error:" + code.String()
		if h.status != 200 && h.noValidError && finalErr == nil {
			family := "grpc"
			if protocol == "connect" {
				family = "connect"
			}
			run.Count("status.derived.checked", 1)
			seen.add(family, h.status, code, key)
			if want, ok := agreedHTTPToCode[h.status]; ok && code != want {
				detail["error"] = cl.Err.Error()
				run.Violation(key+"/status-mapping", fmt.Sprintf("HTTP %d without a valid protocol error produced code %v, expected %v", h.status, code, want), detail)
				return
			}
		}
	}
	if h.expectMeta != nil && finalErr == nil {
		for k, want := range h.expectMeta {
			var got []string
			var ce *connect.Error
			if errors.As(cl.Err, &ce) {
				got = ce.Meta().Values(k)
			}
			if len(got) == 0 && cl.Trailer != nil {
				got = cl.Trailer.Values(k)
			}
			// only decidable when the call got as far as the trailers
			reached := cl.Err == nil || len(got) > 0 || (ce != nil && (strings.Contains(cl.Err.Error(), "stop") || strings.Contains(cl.Err.Error(), "no code")))
			if cl.Err != nil && ce != nil && len(got) == 0 {
				// error produced before the trailers were parsed (e.g. bad
				// status): not a casing question
				if _, isGrammar := h.trailer["Grpc-Status"]; !isGrammar && !reached {
					continue
				}
			}
			if !reached {
				continue
			}
			run.Count("meta.casing.checked", 1)
			found := subseq(got, want)
			if h.metaAnyOrder {
				found = containsAll(got, want)
			}
			if !found {
				detail["lookup_key"] = k
				detail["got"] = got
				detail["client_trailer"] = cl.Trailer
				detail["client_err"] = errStr(cl.Err)
				run.Violation(key+"/metadata-casing", fmt.Sprintf("in-body metadata sent with non-canonical casing is not found under %q", k), detail)
				return
			}
		}
	}
	run.Eval(cfg + "|" + h.class + "|" + outcome + fmt.Sprintf("|%d", h.status/100))
	if h.status != 200 || strings.HasPrefix(h.class, "grammar") {
		run.Sample(map[string]any{"config": cfg, "class": h.class, "status": h.status, "body": trunc(string(h.body), 80), "outcome": outcome})
	}
}

// containsAll reports whether every element of want occurs in got (as a
// multiset).
func containsAll(got, want []string) bool {
	left := map[string]int{}
	for _, g := range got {
		left[g]++
	}
	for _, w := range want {
		if left[w] == 0 {
			return false
		}
		left[w]--
	}
	return true
}
