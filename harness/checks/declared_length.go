package checks

import (
	"context"
	"errors"
	"fmt"
	"net/http"
	"runtime"
	"time"

	connect "github.com/bufbuild/connect-go"
	"verif.local/harness/ev"
	"verif.local/harness/gen"
	"verif.local/harness/svc"
	"verif.local/harness/wire"
)

// Declared-length lies: valid small bodies travelling with a Content-Length
// that has nothing to do with them (net/http hands the header's value to the
// application untouched; only the body reader knows how many bytes exist). A
// receiver that sizes anything from the declared length can be made to
// allocate without bound, or to panic in bytes.Buffer.Grow. Used by C06
// (client), C07 (handler) and C09 (allocation bound).

func declaredLengths(actual int) []int64 {
	return []int64{1 << 62, 1 << 40, 64 << 20, 32 << 20, 8<<20 + 1, 8 << 20, 6 << 20, int64(actual) + 1000, int64(actual) - 1, -1, 0}
}

// measureAlloc runs f alone on this goroutine and returns the bytes allocated.
func measureAlloc(f func()) uint64 {
	runtime.GC()
	var m0, m1 runtime.MemStats
	runtime.ReadMemStats(&m0)
	f()
	runtime.ReadMemStats(&m1)
	return m1.TotalAlloc - m0.TotalAlloc
}

// declaredLengthClient replays recorded valid responses to the library's
// client with each declared length, with and without a read limit. judge is
// called for every outcome.
func declaredLengthClient(run *ev.Run, prefix string, limit int, judge func(key string, cl *svc.CLog, panicked any, hung bool, alloc uint64, detail map[string]any)) {
	corp := buildCorpus(corpusSpec{protos: svc.Protocols, codecs: []string{"proto"}, kinds: svc.Kinds, gzips: []bool{false}, counts: []int{1}, scenarios: []string{"ok", "err"}})
	for _, rec := range corp {
		for _, dl := range declaredLengths(len(rec.Ex.Result.Body)) {
			for _, withLimit := range []bool{false, true} {
				key := fmt.Sprintf("%s/declared-length/client/%s/cl=%d/limit=%v", prefix, rec.Name, dl, withLimit)
				if !run.Want(key) {
					continue
				}
				res := *rec.Ex.Result
				cn := &wire.Canned{Respond: func(req *http.Request, _ []byte) (*http.Response, error) {
					resp := wire.ResponseFromResult(req, &res, &wire.ScriptedBody{Data: res.Body})
					resp.ContentLength = dl
					return resp, nil
				}}
				opts := append([]connect.ClientOption{}, rec.COpts...)
				if withLimit {
					opts = append(opts, connect.WithReadMaxBytes(limit))
				}
				cs := svc.NewClientSet(cn, "http://verif.local", opts...)
				var cl *svc.CLog
				var panicked any
				var alloc uint64
				ok, _ := watchdog(20*time.Second, func() {
					defer func() { panicked = recover() }()
					alloc = measureAlloc(func() { cl = cs.Do(context.Background(), rec.Kind, "dl", nil, rec.Sends) })
				})
				run.Eval(fmt.Sprintf("declared-length|client|%s|%d|%v", rec.Name, dl, withLimit))
				run.Count("declared_length.cases", 1)
				judge(key, cl, panicked, !ok, alloc, map[string]any{"case": rec.Name, "declared_content_length": dl, "actual_body_bytes": len(res.Body), "client_read_limit": withLimit})
			}
		}
	}
}

// declaredLengthHandler serves recorded valid requests with each declared
// length through handlers with and without a read limit.
func declaredLengthHandler(run *ev.Run, prefix string, limit int, judge func(key string, hl *svc.HLog, res *wire.Result, panicked any, hung bool, alloc uint64, detail map[string]any)) {
	corp := buildCorpus(corpusSpec{protos: svc.Protocols, codecs: []string{"proto"}, kinds: svc.Kinds, gzips: []bool{false}, counts: []int{1}, scenarios: []string{"ok"}})
	for _, rec := range corp {
		for _, dl := range declaredLengths(len(rec.Ex.ReqBody)) {
			for _, withLimit := range []bool{false, true} {
				key := fmt.Sprintf("%s/declared-length/handler/%s/cl=%d/limit=%v", prefix, rec.Name, dl, withLimit)
				if !run.Want(key) {
					continue
				}
				reg := svc.NewRegistry()
				hopts := []connect.HandlerOption{connect.WithCompressMinBytes(1 << 30)}
				if withLimit {
					hopts = append(hopts, connect.WithReadMaxBytes(limit))
				}
				hs := svc.Handlers(reg, hopts...) // fresh handlers: nothing pooled from earlier cases
				call := reg.New("dl", drainProgram())
				hdr := rec.Ex.ReqHeader.Clone()
				hdr.Set(wire.CallHeader, call.ID)
				rw := wire.NewRecorder()
				req := wire.ServerRequest(context.Background(), "POST", rec.Kind.Path(), hdr, &wire.ScriptedBody{Data: rec.Ex.ReqBody}, 2)
				req.ContentLength = dl
				var panicked any
				var alloc uint64
				ok, _ := watchdog(20*time.Second, func() {
					defer func() { panicked = recover() }()
					alloc = measureAlloc(func() { hs[rec.Kind].ServeHTTP(rw, req) })
				})
				run.Eval(fmt.Sprintf("declared-length|handler|%s|%d|%v", rec.Name, dl, withLimit))
				run.Count("declared_length.cases", 1)
				var res *wire.Result
				if ok && panicked == nil {
					res = rw.Finish()
				}
				judge(key, call.Log, res, panicked, !ok, alloc, map[string]any{"case": rec.Name, "declared_content_length": dl, "actual_body_bytes": len(rec.Ex.ReqBody), "handler_read_limit": withLimit})
			}
		}
	}
}

// codedOrNil reports whether err is nil or a *connect.Error with a code.
func codedOrNil(err error) bool {
	if err == nil {
		return true
	}
	var ce *connect.Error
	return errors.As(err, &ce) && ce.Code() != 0
}

var _ = gen.Zero
