package checks

import (
	"context"
	"errors"
	"fmt"
	"io"
	"net/http"
	"sort"
	"strings"

	connect "github.com/bufbuild/connect-go"
	"google.golang.org/protobuf/proto"
	"verif.local/harness/ev"
	"verif.local/harness/gen"
	"verif.local/harness/refcodec"
	"verif.local/harness/svc"
	"verif.local/harness/wire"
)

func init() { register("C03", "exploration", c03) }

func hdrString(h map[string][]string) string {
	keys := make([]string, 0, len(h))
	for k := range h {
		if k == "Date" {
			continue
		}
		keys = append(keys, k)
	}
	sort.Strings(keys)
	var b strings.Builder
	for _, k := range keys {
		fmt.Fprintf(&b, "%s=%q;", k, h[k])
	}
	return b.String()
}

func msgsString(ms []*gen.Msg) string {
	var b strings.Builder
	for _, m := range ms {
		raw, _ := proto.MarshalOptions{Deterministic: true}.Marshal(m)
		fmt.Fprintf(&b, "%x|", raw)
	}
	return b.String()
}

// clientOutcome renders everything a client observed.
func clientOutcome(l *svc.CLog, withText bool) string {
	code, _ := codeOf(l.Err)
	s := fmt.Sprintf("msgs=%s err=%v code=%v hdr=%s trl=%s", msgsString(l.Msgs), l.Err != nil, code, hdrString(l.Header), hdrString(l.Trailer))
	if withText {
		s += " text=" + errStr(l.Err)
	}
	for _, e := range l.PostEnd {
		// (bidi) what further Receive calls past the end report
		c, _ := codeOf(e)
		s += fmt.Sprintf(" post=%v/%v/eof=%v", e != nil, c, errors.Is(e, io.EOF))
	}
	return s
}

func handlerOutcome(l *svc.HLog, res *wire.Result, withText bool) string {
	code, _ := codeOf(l.RecvErr)
	s := fmt.Sprintf("recv=%s eof=%v code=%v status=%d body=%x trl=%s", msgsString(l.Received), l.SawEOF, code, res.Status, res.Body, hdrString(res.Trailer))
	if withText {
		s += " text=" + errStr(l.RecvErr)
	}
	return s
}

// segmentations lists chunkings of an n-byte body: all compositions up to
// bound, adversarial + random ones above.
func segmentations(run *ev.Run, body []byte, bound int, nrandom int, stream string) (segs [][]int, exhaustive bool) {
	n := len(body)
	if n == 0 {
		return [][]int{{}}, true
	}
	if n <= bound {
		return gen.Compositions(n), true
	}
	one := make([]int, n)
	for i := range one {
		one[i] = 1
	}
	segs = append(segs, []int{n}, one)
	// frame boundaries
	var bounds []int
	off := 0
	for off+5 <= n {
		l := int(body[off+1])<<24 | int(body[off+2])<<16 | int(body[off+3])<<8 | int(body[off+4])
		bounds = append(bounds, off)
		if off+5+l > n {
			break
		}
		off += 5 + l
	}
	for _, b := range bounds {
		for k := 1; k <= 4; k++ { // split inside each prefix
			if b+k < n {
				segs = append(segs, splitAt(n, b+k))
			}
		}
		for _, d := range []int{-1, 0, 1} { // around payload start
			if p := b + 5 + d; p > 0 && p < n {
				segs = append(segs, splitAt(n, p))
			}
		}
		if b > 1 {
			segs = append(segs, splitAt(n, b-1), splitAt(n, b))
		}
		// prefix byte by byte, payload in one piece
		if b+5 < n {
			segs = append(segs, splitAt(n, b+1, b+2, b+3, b+4, b+5))
		}
	}
	// halving
	var hv []int
	for rest := n; rest > 0; {
		c := (rest + 1) / 2
		hv = append(hv, c)
		rest -= c
	}
	segs = append(segs, hv)
	r := run.Rand("c03/" + stream)
	for i := 0; i < nrandom; i++ {
		var s []int
		for rest := n; rest > 0; {
			max := rest
			if max > 9 && r.Intn(3) > 0 {
				max = 9
			}
			c := 1 + r.Intn(max)
			s = append(s, c)
			rest -= c
		}
		segs = append(segs, s)
	}
	return segs, false
}

func splitAt(n int, points ...int) []int {
	var out []int
	prev := 0
	for _, p := range points {
		if p <= prev || p >= n {
			continue
		}
		out = append(out, p-prev)
		prev = p
	}
	return append(out, n-prev)
}

func boolInt(b bool) int {
	if b {
		return 1
	}
	return 0
}

func c03(run *ev.Run) int {
	run.SetRule("bodies = valid request and response bodies recorded from connect-go peers (3 protocols x 2 codecs x 4 kinds x gzip on/off x {0,1,2,3 messages} x {success, error}); segmentations = all 2^(n-1) compositions for bodies up to the bound (quick 12, thorough 16 bytes), else 1-byte reads, every split inside each 5-byte prefix, payload boundary +-1, halving, seeded random; each with EOF on the last data read and EOF on a separate read, alternately with and without a read limit configured on the receiver; plus passes where the receiver rejects messages locally under a tiny read limit (client: error responses; handler: client/bidi streams, reading on after each rejection); also true Content-Length declared on every third request segmentation; non-200 responses (proxy pages, gateway JSON, octets) under every segmentation; oracle: outcome (messages, error code+text, metadata) == outcome of one-piece delivery, which must equal what the application supplied; distinct by (body, segmentation class)")
	bound := run.Pick(12, 16)
	nrandom := run.Pick(25, 2500)
	small := buildCorpus(corpusSpec{protos: svc.Protocols, codecs: []string{"proto"}, kinds: svc.Kinds, gzips: []bool{false},
		counts: []int{0, 1, 2}, scenarios: []string{"ok", "err-early"}, small: true})
	big := buildCorpus(corpusSpec{protos: svc.Protocols, codecs: svc.Codecs, kinds: svc.Kinds, gzips: []bool{false, true},
		counts: []int{1, 3}, scenarios: []string{"ok", "err"}})
	all := append(small, big...)
	_ = refcodec.Connect
	parallel(16, len(all), func(i int) {
		rec := all[i]
		key := "c03/" + rec.Name
		if i < len(small) {
			key += "/small"
		}
		if !run.Want(key) {
			return
		}
		// ---- response direction
		base, _ := rec.replayResponse(&wire.ScriptedBody{Data: rec.Ex.Result.Body}, true)
		baseStr := clientOutcome(base, true)
		// the one-piece outcome must equal what the application supplied
		wantMsgs := rec.Replies
		if same, why := gen.SameSeq(base.Msgs, wantMsgs); !same {
			run.Violation(key+"/resp/baseline", "one-piece delivery does not yield the handler's messages: "+why, map[string]any{"case": rec.Name, "outcome": baseStr})
		}
		if (rec.HErr != nil) != (base.Err != nil) {
			run.Violation(key+"/resp/baseline-err", "one-piece delivery error state differs from the handler's outcome", map[string]any{"case": rec.Name, "outcome": baseStr})
		}
		segs, exh := segmentations(run, rec.Ex.Result.Body, bound, nrandom, key+"/resp")
		if exh {
			run.Count("bodies.exhaustive", 1)
		}
		for si, seg := range segs {
			for _, eofWith := range []bool{false, true} {
				var extra []connect.ClientOption
				if (si+boolInt(eofWith))%2 == 1 {
					// every other replay: the receiver has a (generous) read limit,
					// which selects different read paths in the library
					extra = append(extra, connect.WithReadMaxBytes(1<<20))
				}
				got, _ := rec.replayResponse(&wire.ScriptedBody{Data: rec.Ex.Result.Body, Chunks: seg, EOFWithData: eofWith}, true, extra...)
				run.Eval(fmt.Sprintf("%s|resp|%s", rec.Name, segClass(seg, len(rec.Ex.Result.Body))))
				run.Count("replays.response", 1)
				if s := clientOutcome(got, true); s != baseStr {
					run.Violation(key+"/resp/segmentation", "client outcome depends on how the response body is segmented",
						map[string]any{"case": rec.Name, "body_hex": fmt.Sprintf("%x", rec.Ex.Result.Body), "chunks": seg, "eof_with_data": eofWith, "one_piece": baseStr, "segmented": s})
					return
				}
				if si == 1 && !eofWith {
					run.Sample(map[string]any{"case": rec.Name, "direction": "response", "body_len": len(rec.Ex.Result.Body), "chunks": trimInts(seg), "eof_with_data": eofWith})
				}
			}
		}
		// ---- response direction, receiver rejecting a message locally: a tiny
		// read limit makes the client refuse the first message; what it reports
		// then (its own error or the status the peer sent in the trailers) must
		// not depend on segmentation or on where the EOF is reported either.
		if rec.Scenario == "err" && len(rec.Replies) > 0 && i >= len(small) {
			tiny := connect.WithReadMaxBytes(8)
			b0, _ := rec.replayResponse(&wire.ScriptedBody{Data: rec.Ex.Result.Body}, true, tiny)
			b0s := clientOutcome(b0, true)
			for _, seg := range segs {
				for _, eofWith := range []bool{false, true} {
					got, _ := rec.replayResponse(&wire.ScriptedBody{Data: rec.Ex.Result.Body, Chunks: seg, EOFWithData: eofWith}, true, tiny)
					run.Eval(fmt.Sprintf("%s|resp-local-reject|%s", rec.Name, segClass(seg, len(rec.Ex.Result.Body))))
					run.Count("replays.response", 1)
					if s := clientOutcome(got, true); s != b0s {
						run.Violation(key+"/resp/segmentation-local-reject", "client outcome (after rejecting a message locally) depends on how the response body is segmented / where EOF is reported",
							map[string]any{"case": rec.Name, "chunks": trimInts(seg), "eof_with_data": eofWith, "one_piece": b0s, "segmented": s})
						return
					}
				}
			}
		}
		// ---- request direction
		hl0, res0 := rec.replayRequest(&wire.ScriptedBody{Data: rec.Ex.ReqBody}, drainProgram())
		base2 := handlerOutcome(hl0, res0, true)
		if same, why := gen.SameSeq(hl0.Received, rec.Sends); !same {
			run.Violation(key+"/req/baseline", "one-piece delivery does not yield the client's messages: "+why, map[string]any{"case": rec.Name, "outcome": base2})
		}
		segs, exh = segmentations(run, rec.Ex.ReqBody, bound, nrandom, key+"/req")
		if exh {
			run.Count("bodies.exhaustive", 1)
		}
		for si, seg := range segs {
			for _, eofWith := range []bool{false, true} {
				var hextra []connect.HandlerOption
				if (si+boolInt(eofWith))%2 == 1 {
					hextra = append(hextra, connect.WithReadMaxBytes(1<<20))
				}
				// every third segmentation: the request declares its (true) length
				hl, res := rec.replayRequestCL(&wire.ScriptedBody{Data: rec.Ex.ReqBody, Chunks: seg, EOFWithData: eofWith}, drainProgram(), si%3 == 2, hextra...)
				run.Eval(fmt.Sprintf("%s|req|%s|declared=%v", rec.Name, segClass(seg, len(rec.Ex.ReqBody)), si%3 == 2))
				run.Count("replays.request", 1)
				if s := handlerOutcome(hl, res, true); s != base2 {
					run.Violation(key+"/req/segmentation", "handler outcome depends on how the request body is segmented",
						map[string]any{"case": rec.Name, "body_hex": fmt.Sprintf("%x", rec.Ex.ReqBody), "chunks": seg, "eof_with_data": eofWith, "one_piece": base2, "segmented": s})
					return
				}
			}
		}
		// ---- request direction, receiver rejecting messages locally and reading
		// on: with a small read limit the handler refuses some messages of the
		// stream, skips them and keeps receiving; which messages it then sees
		// must not depend on how the transport cut the body either.
		if (rec.Kind == svc.ClientStream || rec.Kind == svc.Bidi) && len(rec.Sends) >= 3 && i >= len(small) {
			for _, limit := range []int{8, 60} {
				keepGoing := func() *svc.Program {
					p := &svc.Program{}
					for k := 0; k < len(rec.Sends)+2; k++ {
						p.Steps = append(p.Steps, svc.Step{Op: "recv"})
					}
					p.Steps = append(p.Steps, svc.Step{Op: "sendsum"})
					return p
				}
				lim := connect.WithReadMaxBytes(limit)
				h0, r0 := rec.replayRequest(&wire.ScriptedBody{Data: rec.Ex.ReqBody}, keepGoing(), lim)
				b0 := handlerOutcome(h0, r0, true)
				for _, seg := range segs {
					for _, eofWith := range []bool{false, true} {
						hl, res := rec.replayRequest(&wire.ScriptedBody{Data: rec.Ex.ReqBody, Chunks: seg, EOFWithData: eofWith}, keepGoing(), lim)
						run.Eval(fmt.Sprintf("%s|req-local-reject-%d|%s", rec.Name, limit, segClass(seg, len(rec.Ex.ReqBody))))
						run.Count("replays.request", 1)
						run.Count("replays.request.local_reject", 1)
						if s := handlerOutcome(hl, res, true); s != b0 {
							run.Violation(key+"/req/segmentation-local-reject", "handler outcome (rejecting over-limit messages and reading on) depends on how the request body is segmented",
								map[string]any{"case": rec.Name, "read_limit": limit, "chunks": trimInts(seg), "eof_with_data": eofWith, "one_piece": b0, "segmented": s})
							return
						}
					}
				}
			}
		}
	})
	c03Non200(run, nrandom)
	run.Set("exhaustive_bound_bytes", bound)
	run.Set("bodies", len(all))
	return run.Finish("replays.response", "replays.request", "bodies.exhaustive")
}

// segClass buckets a segmentation for the distinct-shape count.
func segClass(seg []int, n int) string {
	if len(seg) <= 1 {
		return "one-piece"
	}
	if len(seg) == n {
		return "bytewise"
	}
	return fmt.Sprintf("first=%d,pieces=%d", seg[0], len(seg))
}

func trimInts(s []int) []int {
	if len(s) > 24 {
		return s[:24]
	}
	return s
}

// c03Non200: responses that are not the protocol's own - a proxy's 502 page, a
// 404 from a misrouted path, a JSON error from a gateway - reach the client as
// an error; what the error says must not depend on how the transport cut the
// body of such a response either.
func c03Non200(run *ev.Run, nrandom int) {
	html := []byte("<html><head><title>502 Bad Gateway</title></head><body><center><h1>502 Bad Gateway</h1></center><hr><center>verif-proxy/1.0</center></body></html>\n")
	js := []byte(`{"code":"unavailable","message":"upstream connect error or disconnect/reset before headers","details":[]}`)
	type shape struct {
		name   string
		status int
		ct     string
		body   []byte
	}
	shapes := []shape{
		{"html-502", 502, "text/html", html},
		{"html-404", 404, "text/html; charset=utf-8", html},
		{"plain-503", 503, "text/plain", []byte("no healthy upstream")},
		{"json-429", 429, "application/json", js},
		{"json-503", 503, "application/json", js},
		{"octets-500", 500, "application/octet-stream", []byte{0, 0, 0, 0, 3, 'a', 'b', 'c'}},
	}
	for _, p := range svc.Protocols {
		for _, kind := range []svc.Kind{svc.Unary, svc.ServerStream, svc.Bidi} {
			for _, sh := range shapes {
				key := fmt.Sprintf("c03/non-200/%s/%s/%s", p, kind, sh.name)
				if !run.Want(key) {
					continue
				}
				do := func(body *wire.ScriptedBody) string {
					res := &wire.Result{Status: sh.status, Header: http.Header{"Content-Type": {sh.ct}}, Body: sh.body}
					cn := &wire.Canned{Respond: func(req *http.Request, _ []byte) (*http.Response, error) {
						return wire.ResponseFromResult(req, res, body), nil
					}}
					cs := svc.NewClientSet(cn, "http://verif.local", svc.ProtoOpts(p, "proto")...)
					return clientOutcome(cs.Do(context.Background(), kind, "non200", nil, []*gen.Msg{{Id: 3}}), true)
				}
				base := do(&wire.ScriptedBody{Data: sh.body})
				segs, _ := segmentations(run, sh.body, 0, nrandom/5+5, key)
				for _, seg := range segs {
					for _, eofWith := range []bool{false, true} {
						got := do(&wire.ScriptedBody{Data: sh.body, Chunks: seg, EOFWithData: eofWith})
						run.Eval(fmt.Sprintf("non-200|%s|%s|%s|%s", p, kind, sh.name, segClass(seg, len(sh.body))))
						run.Count("replays.response", 1)
						run.Count("replays.response.non_200", 1)
						if got != base {
							run.Violation(key+"/segmentation", "what the client reports for a non-200 response depends on how the response body is segmented",
								map[string]any{"status": sh.status, "content_type": sh.ct, "chunks": trimInts(seg), "eof_with_data": eofWith, "one_piece": base, "segmented": got})
							goto next
						}
					}
				}
			next:
			}
		}
	}
}
