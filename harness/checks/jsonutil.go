package checks

import "encoding/json"

func jsonUnmarshal(b []byte, v any) error { return json.Unmarshal(b, v) }

func jsonString(s string) string {
	b, _ := json.Marshal(s)
	return string(b)
}
