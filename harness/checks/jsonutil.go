package checks

import "encoding/json"

func jsonUnmarshal(b []byte, v any) error { return json.Unmarshal(b, v) }
