package checks

import (
	"context"
	"fmt"
	"net/http"
	"sort"
	"strings"
	"sync"
	"time"

	connect "github.com/bufbuild/connect-go"
	"google.golang.org/protobuf/proto"
	"verif.local/harness/ev"
	"verif.local/harness/gen"
	"verif.local/harness/refcodec"
	"verif.local/harness/svc"
	"verif.local/harness/wire"
)

func init() { register("C12", "exploration", c12) }

// namedCodec is a binary-proto codec registered under an arbitrary name.
type namedCodec struct{ name string }

func (c namedCodec) Name() string { return c.name }
func (c namedCodec) Marshal(m any) ([]byte, error) {
	return proto.Marshal(m.(proto.Message))
}
func (c namedCodec) Unmarshal(b []byte, m any) error {
	return proto.Unmarshal(b, m.(proto.Message))
}

// specRecorder is an interceptor that counts hook entries per call id and
// records the Spec it saw.
type specRecorder struct {
	mu    sync.Mutex
	count map[string]int
	specs map[string][]connect.Spec
}

func newSpecRecorder() *specRecorder {
	return &specRecorder{count: map[string]int{}, specs: map[string][]connect.Spec{}}
}

func (s *specRecorder) note(id string, sp connect.Spec) {
	s.mu.Lock()
	s.count[id]++
	s.specs[id] = append(s.specs[id], sp)
	s.mu.Unlock()
}

func (s *specRecorder) get(id string) (int, []connect.Spec) {
	s.mu.Lock()
	defer s.mu.Unlock()
	return s.count[id], append([]connect.Spec(nil), s.specs[id]...)
}

func (s *specRecorder) WrapUnary(next connect.UnaryFunc) connect.UnaryFunc {
	return func(ctx context.Context, req connect.AnyRequest) (connect.AnyResponse, error) {
		s.note(req.Header().Get(wire.CallHeader), req.Spec())
		return next(ctx, req)
	}
}

func (s *specRecorder) WrapStreamingClient(next connect.StreamingClientFunc) connect.StreamingClientFunc {
	return func(ctx context.Context, spec connect.Spec) connect.StreamingClientConn {
		conn := next(ctx, spec)
		return &specClientConn{StreamingClientConn: conn, rec: s, spec: spec}
	}
}

type specClientConn struct {
	connect.StreamingClientConn
	rec  *specRecorder
	spec connect.Spec
	once sync.Once
}

func (c *specClientConn) Send(m any) error {
	c.once.Do(func() { c.rec.note(c.RequestHeader().Get(wire.CallHeader), c.spec) })
	return c.StreamingClientConn.Send(m)
}

func (c *specClientConn) CloseRequest() error {
	c.once.Do(func() { c.rec.note(c.RequestHeader().Get(wire.CallHeader), c.spec) })
	return c.StreamingClientConn.CloseRequest()
}

func (s *specRecorder) WrapStreamingHandler(next connect.StreamingHandlerFunc) connect.StreamingHandlerFunc {
	return func(ctx context.Context, conn connect.StreamingHandlerConn) error {
		s.note(conn.RequestHeader().Get(wire.CallHeader), conn.Spec())
		return next(ctx, conn)
	}
}

type c12CodecSet struct {
	name   string
	names  []string // registered codec names (after defaults)
	hopts  []connect.HandlerOption
	custom []string // names a client can select with WithCodec
}

func c12CodecSets() []c12CodecSet {
	mk := func(label string, extra ...string) c12CodecSet {
		cs := c12CodecSet{name: label, names: []string{"proto", "json"}}
		for _, n := range extra {
			cs.hopts = append(cs.hopts, connect.WithCodec(namedCodec{n}))
			if n != "proto" && n != "json" && n != "" { // (a nameless codec is documented as ignored)
				cs.names = append(cs.names, n)
				cs.custom = append(cs.custom, n)
			}
		}
		return cs
	}
	return []c12CodecSet{
		mk("default"),
		mk("plus-verif", "verif"),
		mk("plus-mixed-case", "Custom", "x.y-z_1"),
		mk("proto-overridden", "proto"),
		mk("many", "a", "b", "thrift", "msgpack"),
		mk("odd-names", "", "vnd.acme+bin", "v1+proto+x"),
	}
}

func c12(run *ev.Run) int {
	run.SetRule("cases = HTTP methods (standard, lower-case, empty, odd tokens) x versions 1.0/1.1/2.0/3.0 x content types (every advertised one, case variants, parameters, blanks, bare prefixes, the other kind's prefix, unregistered codecs, random) x 5 registered codec sets x 4 kinds through Handler.ServeHTTP with a recording ResponseWriter, plus client calls through base URLs with path prefixes/trailing slashes, plus rejected requests whose body stays open until the handler answers; also codec names containing '+' and a nameless codec; oracle = dispatch model (405+Allow, 505, 415+Accept-Post == reference set, advertised == accepted, user-code and interceptor hook counters 0 or exactly 1, Spec equality); distinct by (codec set, kind, method class, version, content-type class); the recording interceptor arrives in one of three option layouts (alone in the first option; in the second or third option after a first option with two interceptors), the option values shared by the four handlers / clients of a set")
	sets := c12CodecSets()
	methods := []string{"POST", "GET", "PUT", "DELETE", "HEAD", "OPTIONS", "PATCH", "CONNECT", "TRACE", "post", "Post", "", "POSTX", "BREW"}
	versions := []int{10, 1, 2, 3}
	type job struct {
		set  c12CodecSet
		kind svc.Kind
	}
	var jobs []job
	for _, s := range sets {
		for _, k := range svc.Kinds {
			jobs = append(jobs, job{s, k})
		}
	}
	parallel(16, len(jobs), func(ji int) {
		j := jobs[ji]
		rec := newSpecRecorder()
		reg := svc.NewRegistry()
		// a read limit keeps mis-dispatched bodies (read as lying envelopes) cheap
		// several interceptor-carrying options, shared by the four handlers the way a
		// generated service constructor shares them between its procedures
		lay := c12Layout(rec, ji)
		hs := svc.Handlers(reg, append(append([]connect.HandlerOption{}, j.set.hopts...), lay[0], lay[1], lay[2], connect.WithReadMaxBytes(1<<20))...)
		h := hs[j.kind]
		streaming := j.kind != svc.Unary
		accepted := refcodec.AcceptedContentTypes(streaming, j.set.names)
		acceptedSet := map[string]bool{}
		for _, a := range accepted {
			acceptedSet[a] = true
		}
		r := run.Rand(fmt.Sprintf("c12/%s/%s", j.set.name, j.kind))
		// content-type candidates
		type ctc struct{ ct, class string }
		var cts []ctc
		for _, a := range accepted {
			cts = append(cts, ctc{a, "advertised"},
				ctc{strings.ToUpper(a), "case-variant"}, ctc{randCase(r, a), "case-variant"},
				ctc{a + "; charset=utf-8", "parameter"}, ctc{a + ";x=y", "parameter"}, ctc{" " + a, "blank"}, ctc{a + " ", "blank"},
				ctc{a + "x", "suffix"}, ctc{a[:len(a)-1], "truncated"})
		}
		other := refcodec.AcceptedContentTypes(!streaming, j.set.names)
		for _, o := range other {
			if !acceptedSet[o] {
				cts = append(cts, ctc{o, "other-kind"})
			}
		}
		for _, x := range []string{"", "application/", "application/grpc+", "application/grpc-web+", "application/connect+", "application/connect", "application/xml", "text/plain", "application/grpc+nope", "application/grpc-web+nope", "application/nope", "application/connect+nope", "application/grpc-web-text", "application/grpc-web-text+proto", "*/*", "application/*"} {
			if !acceptedSet[x] {
				cts = append(cts, ctc{x, "foreign"})
			}
		}
		for i := 0; i < 30; i++ {
			b := make([]byte, 1+r.Intn(24))
			for k := range b {
				b[k] = "abcdefghijklmnopqrstuvwxyz/+-;= ABC"[r.Intn(35)]
			}
			if s := string(b); !acceptedSet[s] {
				cts = append(cts, ctc{s, "random"})
			}
		}
		for _, c := range cts {
			for _, m := range methods {
				for _, v := range versions {
					if m != "POST" && c.class != "advertised" && c.class != "foreign" && r.Intn(6) != 0 {
						continue // thin out the product away from the interesting axes
					}
					key := fmt.Sprintf("c12/%s/%s/method=%q/http=%d/ct=%q", j.set.name, j.kind, m, v, c.ct)
					if !run.Want(key) {
						continue
					}
					c12Dispatch(run, reg, rec, h, j.set, j.kind, accepted, acceptedSet, m, v, c.ct, c.class, key)
				}
			}
		}
	})
	c12ClientSpecs(run)
	c12OpenBody(run)
	return run.Finish("dispatch.requests", "rejections.405", "rejections.505", "rejections.415", "accept_post.checked", "served.once", "client.spec.calls", "open_body.rejections")
}

func c12Body(ct string, kind svc.Kind) []byte {
	raw, _ := proto.Marshal(&gen.Msg{Id: 1})
	if strings.HasSuffix(ct, "json") {
		raw = []byte(`{"id":"1"}`)
	}
	if strings.HasPrefix(ct, "application/grpc") || strings.HasPrefix(ct, "application/connect+") {
		return refcodec.AppendFrame(nil, 0, raw)
	}
	return raw
}

func c12Dispatch(run *ev.Run, reg *svc.Registry, rec *specRecorder, h *connect.Handler, set c12CodecSet, kind svc.Kind, accepted []string, acceptedSet map[string]bool, method string, version int, ct, class, key string) {
	call := reg.New("c12", &svc.Program{Steps: []svc.Step{{Op: "recvall"}, {Op: "sendsum"}}})
	defer reg.Drop(call)
	hdr := http.Header{wire.CallHeader: {call.ID}}
	if ct != "" {
		hdr["Content-Type"] = []string{ct}
	}
	rw := wire.NewRecorder()
	var panicked any
	func() {
		defer func() { panicked = recover() }()
		h.ServeHTTP(rw, wire.ServerRequest(context.Background(), method, kind.Path(), hdr, &wire.ScriptedBody{Data: c12Body(ct, kind)}, version))
	}()
	res := rw.Finish()
	run.Count("dispatch.requests", 1)
	mclass := "POST"
	if method != "POST" {
		mclass = "non-POST"
	}
	run.Eval(fmt.Sprintf("%s|%s|%s|http=%d|%s", set.name, kind, mclass, version, class))
	hooks, specs := rec.get(call.ID)
	detail := map[string]any{"codec_set": set.name, "registered": set.names, "kind": kind.String(), "method": method, "http": version, "content_type": ct, "class": class,
		"status": res.Status, "response_header": res.Header, "user_code_runs": call.Log.Invocations, "interceptor_hook_entries": hooks}
	if panicked != nil {
		run.Violation(key+"/panic", fmt.Sprintf("ServeHTTP panicked: %v", panicked), detail)
		return
	}
	notRun := func(what string) bool {
		if call.Log.Invocations != 0 || hooks != 0 {
			run.Violation(key+"/ran-on-rejected", fmt.Sprintf("user code ran %d times and interceptor hooks %d times on a request rejected with %s", call.Log.Invocations, hooks, what), detail)
			return false
		}
		return true
	}
	http1 := version == 1 || version == 10
	switch {
	case method != "POST":
		run.Count("rejections.405", 1)
		if kind == svc.Bidi && http1 && res.Status == 505 {
			notRun("505")
			return
		}
		if res.Status != 405 || res.Header.Get("Allow") != "POST" {
			run.Violation(key+"/405", fmt.Sprintf("non-POST request answered with %d, Allow=%q (want 405, Allow: POST)", res.Status, res.Header.Get("Allow")), detail)
			return
		}
		notRun("405")
	case kind == svc.Bidi && http1:
		run.Count("rejections.505", 1)
		if res.Status != 505 {
			run.Violation(key+"/505", fmt.Sprintf("bidi request over HTTP/1.x answered with %d, want 505", res.Status), detail)
			return
		}
		notRun("505")
	case !acceptedSet[ct]:
		run.Count("rejections.415", 1)
		if res.Status != 415 {
			run.Violation(key+"/415", fmt.Sprintf("POST with Content-Type %q, which the handler does not serve, answered with %d (want 415)", ct, res.Status), detail)
			return
		}
		if !notRun("415") {
			return
		}
		got := strings.Split(res.Header.Get("Accept-Post"), ", ")
		sort.Strings(got)
		run.Count("accept_post.checked", 1)
		if fmt.Sprint(got) != fmt.Sprint(accepted) {
			detail["accept_post"] = got
			detail["reference_set"] = accepted
			run.Violation(key+"/accept-post", fmt.Sprintf("Accept-Post lists %v, the handler's codecs imply %v", got, accepted), detail)
			return
		}
	default:
		// served: must not be 415/405/505, user code and the interceptor exactly once
		if res.Status == 415 || res.Status == 405 || res.Status == 505 {
			run.Violation(key+"/advertised-rejected", fmt.Sprintf("POST with advertised Content-Type %q rejected with %d", ct, res.Status), detail)
			return
		}
		run.Count("served.once", 1)
		if call.Log.Invocations != 1 || hooks != 1 {
			run.Violation(key+"/not-once", fmt.Sprintf("user code ran %d times and interceptor hooks were entered %d times for one well-formed request (want exactly 1 and 1)", call.Log.Invocations, hooks), detail)
			return
		}
		want := connect.Spec{StreamType: kind.StreamType(), Procedure: kind.Path(), IsClient: false}
		for _, sp := range specs {
			if sp != want {
				detail["spec"] = fmt.Sprintf("%+v", sp)
				run.Violation(key+"/spec", fmt.Sprintf("handler interceptor saw Spec %+v, handler was built as %+v", sp, want), detail)
				return
			}
		}
		if kind == svc.Unary || kind == svc.ServerStream {
			if call.Log.Spec != want {
				detail["spec"] = fmt.Sprintf("%+v", call.Log.Spec)
				run.Violation(key+"/spec-usercode", fmt.Sprintf("user code saw Spec %+v, handler was built as %+v", call.Log.Spec, want), detail)
				return
			}
		}
	}
	if class == "advertised" && method == "POST" && version == 2 {
		run.Sample(map[string]any{"codec_set": set.name, "kind": kind.String(), "content_type": ct, "status": res.Status})
	}
}

// c12ClientSpecs: real client calls through different URL shapes; the client
// interceptor's Spec must match the handler's except for IsClient.
func c12ClientSpecs(run *ev.Run) {
	bases := []string{"http://verif.local", "http://verif.local/", "http://verif.local/api", "http://verif.local/api/v1/", "https://verif.local:8443/a/b/c", "http://verif.local//"}
	for _, set := range c12CodecSets() {
		for _, protocol := range svc.Protocols {
			for _, kind := range svc.Kinds {
				for _, base := range bases {
					codecs := append([]string{"proto", "json"}, set.custom...)
					for _, codec := range codecs {
						key := fmt.Sprintf("c12/client-spec/%s/%s/%s/%s/%s", set.name, protocol, kind, codec, base)
						if !run.Want(key) {
							continue
						}
						hrec, crec := newSpecRecorder(), newSpecRecorder()
						reg := svc.NewRegistry()
						lay := c12Layout(hrec, len(key))
						hs := svc.Handlers(reg, append(append([]connect.HandlerOption{}, set.hopts...), lay[0], lay[1], lay[2], connect.WithReadMaxBytes(1<<20))...)
						lb := &wire.Loopback{Handler: hs[kind]}
						opts := svc.ProtoOpts(protocol, "proto")
						switch codec {
						case "proto":
						case "json":
							opts = svc.ProtoOpts(protocol, "json")
						default:
							opts = append(opts, connect.WithCodec(namedCodec{codec}))
						}
						for _, o := range c12Layout(crec, len(key)+1) {
							opts = append(opts, o)
						}
						cs := svc.NewClientSet(lb, base, opts...)
						call := reg.New("c12s", &svc.Program{Steps: []svc.Step{{Op: "recvall"}, {Op: "sendsum"}}})
						cl := cs.Do(context.Background(), kind, call.ID, nil, []*gen.Msg{{Id: 1}})
						run.Count("client.spec.calls", 1)
						run.Eval(fmt.Sprintf("client-spec|%s|%s|%s|%s", set.name, protocol, kind, codecClass(codec)))
						hn, hspecs := hrec.get(call.ID)
						cn, cspecs := crec.get(call.ID)
						detail := map[string]any{"codec_set": set.name, "protocol": protocol, "kind": kind.String(), "codec": codec, "base_url": base, "client_err": errStr(cl.Err),
							"handler_hooks": hn, "client_hooks": cn, "handler_specs": fmt.Sprintf("%+v", hspecs), "client_specs": fmt.Sprintf("%+v", cspecs), "user_code_runs": call.Log.Invocations}
						if cl.Err != nil {
							run.Violation(key+"/failed", "a client using an advertised codec/protocol was not served: "+errStr(cl.Err), detail)
							continue
						}
						if hn != 1 || cn != 1 || call.Log.Invocations != 1 {
							run.Violation(key+"/not-once", fmt.Sprintf("handler hooks %d, client hooks %d, user code %d (want 1,1,1)", hn, cn, call.Log.Invocations), detail)
							continue
						}
						want := connect.Spec{StreamType: kind.StreamType(), Procedure: kind.Path()}
						hs0, cs0 := hspecs[0], cspecs[0]
						if hs0 != want {
							run.Violation(key+"/handler-spec", fmt.Sprintf("handler interceptor saw %+v, want %+v", hs0, want), detail)
							continue
						}
						want.IsClient = true
						if cs0 != want {
							run.Violation(key+"/client-spec", fmt.Sprintf("client interceptor saw %+v, want %+v", cs0, want), detail)
						}
					}
				}
			}
		}
	}
}

func codecClass(c string) string {
	if c == "proto" || c == "json" {
		return c
	}
	return "custom"
}

// c12OpenBody: requests that are rejected at dispatch (wrong method, content
// type nobody serves, bidi over HTTP/1.1) arrive with a request body whose
// sender has not finished. The 405 / 415 / 505 must not wait for it to end.
func c12OpenBody(run *ev.Run) {
	type rej struct {
		name   string
		method string
		ct     string
		proto  int
		status int
		kind   svc.Kind
	}
	var rejs []rej
	for _, k := range svc.Kinds {
		rejs = append(rejs,
			rej{"GET", "GET", "application/grpc", 2, 405, k},
			rej{"PUT-json", "PUT", "application/json", 2, 405, k},
			rej{"unserved-content-type", "POST", "application/x-thrift", 2, 415, k},
			rej{"empty-content-type", "POST", "", 2, 415, k})
	}
	rejs = append(rejs, rej{"bidi-over-http1", "POST", "application/grpc", 1, 505, svc.Bidi})
	for _, rj := range rejs {
		key := fmt.Sprintf("c12/open-body/%s/%s", rj.kind, rj.name)
		if !run.Want(key) {
			continue
		}
		rec := newSpecRecorder()
		reg := svc.NewRegistry()
		hs := svc.Handlers(reg, connect.WithInterceptors(rec), connect.WithReadMaxBytes(1<<20))
		call := reg.New("ob", &svc.Program{Steps: []svc.Step{{Op: "recvall"}}})
		hdr := http.Header{}
		if rj.ct != "" {
			hdr.Set("Content-Type", rj.ct)
		}
		hdr.Set(wire.CallHeader, call.ID)
		body := wire.NewOpenBody([]byte{0, 0, 0, 0, 2, 0x08, 0x01})
		rw := wire.NewRecorder()
		req := wire.ServerRequest(context.Background(), rj.method, rj.kind.Path(), hdr, body, rj.proto)
		var panicked any
		done := make(chan struct{})
		go func() {
			defer close(done)
			defer func() { panicked = recover() }()
			hs[rj.kind].ServeHTTP(rw, req)
		}()
		answered := true
		select {
		case <-done:
		case <-time.After(5 * time.Second):
			if confirmHang(done) {
				answered = false
			}
		}
		body.Release()
		<-done
		run.Count("open_body.rejections", 1)
		run.Eval(fmt.Sprintf("open-body|%s|%s", rj.kind, rj.name))
		detail := map[string]any{"kind": rj.kind.String(), "rejection": rj.name}
		switch {
		case panicked != nil:
			run.Violation(key+"/panic", fmt.Sprintf("ServeHTTP panicked: %v", panicked), detail)
		case !answered:
			run.Violation(key+"/waits-for-body", fmt.Sprintf("the handler did not answer %d while the sender's request body was still open; it only returned once the body was ended", rj.status), detail)
		default:
			res := rw.Finish()
			n, _ := rec.get(call.ID)
			if res.Status != rj.status || call.Log.Invocations != 0 || n != 0 {
				detail["status"] = res.Status
				run.Violation(key+"/not-rejected", fmt.Sprintf("want a bare %d without user code or interceptors, got %d (user code %d, hooks %d)", rj.status, res.Status, call.Log.Invocations, n), detail)
			}
		}
	}
}

// c12Layout spreads the recording interceptor and two pass-through ones over
// three interceptor-carrying options. The option values are built once per
// call and then shared by the four handlers (or clients) of a set, the way a
// generated service constructor shares them between its procedures; in the
// second layout the first option carries two interceptors and the recorder
// arrives with a later one.
func c12Layout(rec connect.Interceptor, variant int) [3]connect.Option {
	switch variant % 3 {
	case 1:
		return [3]connect.Option{connect.WithInterceptors(noopIcept{}, noopIcept{}), connect.WithInterceptors(rec), connect.WithInterceptors(noopIcept{})}
	case 2:
		return [3]connect.Option{connect.WithInterceptors(noopIcept{}, noopIcept{}), connect.WithInterceptors(noopIcept{}), connect.WithInterceptors(rec, noopIcept{})}
	}
	return [3]connect.Option{connect.WithInterceptors(rec), connect.WithInterceptors(noopIcept{}), connect.WithInterceptors(noopIcept{})}
}
