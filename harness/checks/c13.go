package checks

import (
	"context"
	"errors"
	"fmt"
	"hash/fnv"
	"io"
	"math/rand"
	"net/http"
	"os"
	"runtime"
	"sort"
	"strconv"
	"strings"
	"sync"
	"sync/atomic"
	"time"
	"verif.local/harness/refcodec"

	connect "github.com/bufbuild/connect-go"
	"google.golang.org/protobuf/proto"
	"verif.local/harness/ev"
	"verif.local/harness/gen"
	"verif.local/harness/svc"
	"verif.local/harness/wire"
)

func init() { register("C13", "exploration", c13) }

// retained is a value handed to user code that is kept without copying and
// re-examined after other calls have run.
type retained struct {
	what  string
	owner uint64
	hash  func() uint64
	h0    uint64
	born  int64 // calls completed when it was taken
}

func hashMsg(m *gen.Msg) uint64 {
	h := fnv.New64a()
	fmt.Fprintf(h, "%d|%s|%d|", m.Id, m.Note, m.Sum)
	h.Write(m.Payload)
	return h.Sum64()
}

func hashHeader(hd http.Header) uint64 {
	keys := make([]string, 0, len(hd))
	for k := range hd {
		if k == "Date" {
			continue
		}
		keys = append(keys, k)
	}
	sort.Strings(keys)
	h := fnv.New64a()
	for _, k := range keys {
		fmt.Fprintf(h, "%s=%q;", k, hd[k])
	}
	return h.Sum64()
}

const c13ReadMax = 2 << 20

type c13State struct {
	holdClients []*c13Client
	dumped      int32
	run         *ev.Run
	srv         *svc.Server
	clients     []*c13Client
	done        int64
	inflight    int64
	maxIn       int64
	mu          sync.Mutex
	kept        []*retained
}

type c13Client struct {
	name  string
	proto string
	http2 bool
	gzip  bool
	cs    *svc.ClientSet
}

func (s *c13State) keep(r *retained) {
	r.h0 = r.hash()
	r.born = atomic.LoadInt64(&s.done)
	s.mu.Lock()
	s.kept = append(s.kept, r)
	s.mu.Unlock()
}

// audit re-hashes retained values that have seen at least minAge later calls.
func (s *c13State) audit(minAge int64, final bool) {
	now := atomic.LoadInt64(&s.done)
	s.mu.Lock()
	var rest []*retained
	var check []*retained
	for _, r := range s.kept {
		if final || now-r.born >= minAge {
			check = append(check, r)
		} else {
			rest = append(rest, r)
		}
	}
	s.kept = rest
	s.mu.Unlock()
	for _, r := range check {
		s.run.Count("retained.rechecked", 1)
		if h := r.hash(); h != r.h0 {
			s.run.Violation("c13/retained/"+r.what, fmt.Sprintf("a %s handed to user code by call %d changed after %d later calls had run", r.what, r.owner, now-r.born), map[string]any{"what": r.what, "owner_call": r.owner})
		}
	}
}

func c13(run *ev.Run) int {
	run.SetRule("workload = G goroutines x K calls each with pairwise-distinct ids over ONE handler set and ONE set of shared clients (3 protocols x 2 codecs x {identity, gzip both ways} x HTTP/1.1 + HTTP/2), kind/size/outcome drawn per call, plus bidi streams with a sender and a receiver goroutine; phases with GOMAXPROCS 16/4/1, random yields at the duplex call's hook points; monitors: Go race detector (reports with a connect-go frame), per-call echo ; also protocol-violating Connect request streams amid the trafficoracle with the call id in payload/header/trailer/error text, retained values (messages, header maps, error text+metadata) re-hashed after later calls, buffer-pool poison + double-release tables for buffers and pooled (de)compressors (GOMAXPROCS=4 phase only: the table's mutex would hide races); distinct by (client config, kind, size class, outcome, phase); history: a third of the bidi calls call Receive again after the end; handlers returning one shared package-level *connect.Error (with metadata) plus per-call trailers, sequentially and from 8 goroutines: no foreign trailer values, the shared error value is never written")
	if !RaceEnabled {
		run.Assume("WARNING: built without -race; only the behavioural monitors ran")
	}
	run.Set("race_detector", RaceEnabled)
	st := &c13State{run: run}
	connect.VerifSetPoolReport(func(kind string) { run.Violation("c13/pool/"+kind, "buffer pool discipline violated: "+kind, nil) })
	defer connect.VerifSetPoolReport(nil)
	defer connect.VerifSetPoolTable(true)
	// The hook must not touch shared state: any mutex or atomic here would add
	// happens-before edges between goroutines and hide races from the detector.
	connect.VerifSetYield(func(point string) {
		switch x := time.Now().UnixNano() % 509; {
		case x == 0:
			time.Sleep(200 * time.Microsecond)
		case x < 16:
			runtime.Gosched()
		}
	})
	defer connect.VerifSetYield(nil)
	g0, _, r0, _ := connect.VerifPoolStats()
	// One handler set with a read limit (so that over-limit compressed messages
	// exercise the rejection paths of the shared decompressor pools), behind a
	// front that can strip the HTTP trailers of a response (a misbehaving
	// intermediary: gRPC calls then end without a Grpc-Status).
	reg := svc.NewRegistry()
	// ... and with a recovery function: a few calls panic on purpose, and each of
	// them must get the error built from its own panic value while the calls
	// around it are unaffected
	hs := svc.Handlers(reg, connect.WithReadMaxBytes(c13ReadMax), connect.WithRecover(func(_ context.Context, _ connect.Spec, _ http.Header, v any) error {
		return connect.NewError(connect.CodeDataLoss, fmt.Errorf("recovered %v", v))
	}))
	mux := svc.Mux(hs)
	front := http.HandlerFunc(func(w http.ResponseWriter, req *http.Request) {
		if id := req.Header.Get("X-Verif-Truncate"); id != "" {
			// a Connect stream that ends without its end-of-stream message (a
			// truncating intermediary): one valid message, the call's id in a
			// response header, then a clean end of the body
			_, _ = io.Copy(io.Discard, req.Body)
			w.Header().Set("Content-Type", req.Header.Get("Content-Type"))
			w.Header().Set("X-Echo-Id", id)
			b, _ := proto.Marshal(&gen.Msg{Id: 5})
			if strings.HasSuffix(req.Header.Get("Content-Type"), "json") {
				b = []byte(`{"id":"5"}`)
			}
			_, _ = w.Write(append([]byte{0, 0, 0, 0, byte(len(b))}, b...))
			return
		}
		mux.ServeHTTP(w, req)
		if req.Header.Get("X-Verif-Strip") != "" {
			for k := range w.Header() {
				if strings.HasPrefix(k, http.TrailerPrefix) {
					delete(w.Header(), k)
				}
			}
		}
	})
	st.srv = svc.NewServerWith(reg, hs, front)
	defer st.srv.Close()
	for _, p := range svc.Protocols {
		for _, c := range svc.Codecs {
			for _, gz := range []bool{false, true} {
				for _, h2 := range []bool{false, true} {
					opts := svc.ProtoOpts(p, c)
					if gz {
						opts = append(opts, connect.WithSendGzip())
					} else {
						opts = append(opts, connect.WithCompressMinBytes(4096))
					}
					st.clients = append(st.clients, &c13Client{name: fmt.Sprintf("%s/%s/gz=%v/h2=%v", p, c, gz, h2), proto: p, http2: h2, gzip: gz, cs: st.srv.RawClients(h2, opts...)})
					if c == "proto" && gz {
						// the same configuration behind a transport that delays some of
						// its body reads (time.Sleep only: no synchronisation is added)
						hc, base := st.srv.RawHTTPClient(h2)
						ms := time.Millisecond
						jt := jitterTransport{next: hc.Transport, reqReads: []time.Duration{0, 2 * ms, 0, 5 * ms, 0, ms}, resReads: []time.Duration{0, 0, 3 * ms, 0, ms, 0, 2 * ms}}
						st.clients = append(st.clients, &c13Client{name: fmt.Sprintf("%s/%s/gz=%v/h2=%v/jitter", p, c, gz, h2), proto: p, http2: h2, gzip: gz,
							cs: svc.NewClientSet(&http.Client{Transport: jt}, base, opts...)})
					}
				}
			}
		}
	}
	// clients whose HTTP client holds every response back for a moment
	for _, p := range svc.Protocols {
		hc, base := st.srv.RawHTTPClient(true)
		jt := jitterTransport{next: hc.Transport, holdResp: 40 * time.Millisecond}
		st.holdClients = append(st.holdClients, &c13Client{name: p + "/proto/h2=true/held-response", proto: p, http2: true,
			cs: svc.NewClientSet(&http.Client{Transport: jt}, base, svc.ProtoOpts(p, "proto")...)})
	}
	G, K := run.Pick(24, 48), run.Pick(30, 60)
	reps := run.Pick(1, 2)
	var nextID uint64
	for rep := 0; rep < reps; rep++ {
		for _, procs := range []int{16, 4, 1} {
			if run.Saturated() {
				break
			}
			old := runtime.GOMAXPROCS(procs)
			// The double-release tables of the pool hooks sit behind one mutex, which
			// orders every pool operation of every goroutine and would hide races
			// from the detector: they are on in one phase only (poisoning stays on).
			connect.VerifSetPoolTable(procs == 4)
			var wg sync.WaitGroup
			for g := 0; g < G && os.Getenv("VERIF_C13_ONLY") != "cancel"; g++ {
				wg.Add(1)
				go func(g int) {
					defer wg.Done()
					r := rand.New(rand.NewSource(run.Seed*1000003 + int64(rep*100000+procs*1000+g)))
					for k := 0; k < K && !run.Saturated(); k++ {
						id := atomic.AddUint64(&nextID, 1) + 1<<40
						st.oneCall(r, id, procs)
						if k%10 == 9 {
							st.audit(40, false)
						}
					}
				}(g)
			}
			// a few full-duplex streams alongside
			for b := 0; b < run.Pick(3, 8); b++ {
				wg.Add(1)
				go func(b int) {
					defer wg.Done()
					id := atomic.AddUint64(&nextID, 1) + 1<<41
					st.duplexStream(id, procs, b)
				}(b)
			}
			// ... streams whose handler finishes while the sender is still busy, and
			// streams whose receive side is closed before the first Send
			for b := 0; b < run.Pick(3, 6); b++ {
				wg.Add(2)
				go func(b int) {
					defer wg.Done()
					id := atomic.AddUint64(&nextID, 1) + 1<<44
					st.duplexEarlyFinish(id, procs, b)
				}(b)
				go func(b int) {
					defer wg.Done()
					id := atomic.AddUint64(&nextID, 1) + 1<<45
					st.closeResponseFirst(id, procs, b)
				}(b)
			}
			wg.Wait()
			// Cancelled duplex streams get the machine to themselves: under the
			// heavy mixed load above the cancel usually lands before the response
			// has started, which exercises nothing.
			for round := 0; round < run.Pick(12, 40) && !run.Saturated(); round++ {
				for x := 0; x < 3; x++ {
					wg.Add(1)
					go func(x int) {
						defer wg.Done()
						id := atomic.AddUint64(&nextID, 1) + 1<<43
						st.heldResponseCancel(id, procs, x)
					}(x)
				}
				for x := 0; x < 12; x++ {
					wg.Add(1)
					go func(b int) {
						defer wg.Done()
						id := atomic.AddUint64(&nextID, 1) + 1<<42
						st.duplexCancel(id, procs, b)
					}(x)
				}
				wg.Wait()
			}
			runtime.GOMAXPROCS(old)
		}
	}
	st.audit(0, true)
	c13SharedSentinel(run)
	serverPanicCheck(run, st.srv, "c13")
	g1, _, r1, dp := connect.VerifPoolStats()
	run.Count("pool.gets", int64(g1-g0))
	run.Count("pool.recycled_gets", int64(r1-r0))
	run.Count("pool.double_puts", int64(dp))
	run.Set("max_calls_in_flight", atomic.LoadInt64(&st.maxIn))
	return run.Finish("calls", "echo.checked", "retained.rechecked", "pool.recycled_gets", "duplex.messages", "duplex.cancelled_streams")
}

func sizeClass(n int) string {
	switch {
	case n == 0:
		return "0"
	case n < 512:
		return "<512"
	case n < 65536:
		return "<64K"
	}
	return ">=64K"
}

func (s *c13State) oneCall(r *rand.Rand, id uint64, procs int) {
	run := s.run
	c := s.clients[r.Intn(len(s.clients))]
	kind := svc.Kinds[r.Intn(4)]
	if kind == svc.Bidi && !c.http2 {
		kind = svc.ServerStream
	}
	size := []int{0, 10, 300, 513, 5000, 70000}[r.Intn(6)]
	if r.Intn(40) == 0 {
		size = 1 << 20
	}
	fail := r.Intn(4) == 0
	n := 1 + r.Intn(3)
	idStr := strconv.FormatUint(id, 10)
	switch {
	case c.gzip && r.Intn(25) == 0:
		s.oversizeCall(r, c, id, procs)
		return
	case c.proto == "grpc" && r.Intn(12) == 0:
		s.strippedCall(r, c, id, procs)
		return
	case c.proto == "connect" && r.Intn(12) == 0:
		s.truncatedCall(r, c, id, procs)
		return
	case r.Intn(20) == 0:
		s.panicCall(r, c, id, procs)
		return
	case c.proto == "connect" && r.Intn(10) == 0:
		s.malformedRequest(r, c, id, procs)
		return
	}
	// what this call sends and expects back: reply ids are a function of id
	var sends, replies []*gen.Msg
	for i := 0; i < n; i++ {
		sends = append(sends, gen.New(id*16+uint64(i), size, r.Intn(2) == 0))
		replies = append(replies, gen.New(id*16+8+uint64(i), size/2, true))
	}
	if kind == svc.Unary || kind == svc.ServerStream {
		sends = sends[:1]
	}
	if kind == svc.Unary || kind == svc.ClientStream {
		replies = replies[:1]
	}
	prog := &svc.Program{Retain: true, Header: http.Header{"X-Echo-Id": {idStr}, "X-Multi": {"a-" + idStr, "b-" + idStr}}, Trailer: http.Header{"X-Echo-Trailer": {idStr}}}
	if kind == svc.Bidi {
		for range sends {
			prog.Steps = append(prog.Steps, svc.Step{Op: "recv"})
		}
	} else {
		prog.Steps = append(prog.Steps, svc.Step{Op: "recvall"})
	}
	sendsBeforeErr := replies
	if fail {
		ce := connect.NewError(connect.CodeAborted, errors.New("call "+idStr+" aborted"))
		ce.Meta().Set("X-Err-Id", idStr)
		prog.Return = ce
		if kind == svc.Unary || kind == svc.ClientStream {
			sendsBeforeErr = nil
		} else {
			sendsBeforeErr = replies[:len(replies)/2]
		}
	}
	for _, m := range sendsBeforeErr {
		prog.Steps = append(prog.Steps, svc.Step{Op: "send", Msg: m})
	}
	if kind == svc.Bidi {
		prog.Steps = append(prog.Steps, svc.Step{Op: "recvall"})
	}
	call := s.srv.Reg.New("c13", prog)
	in := atomic.AddInt64(&s.inflight, 1)
	for {
		m := atomic.LoadInt64(&s.maxIn)
		if in <= m || atomic.CompareAndSwapInt64(&s.maxIn, m, in) {
			break
		}
	}
	var cl *c13Outcome
	ok, dump := watchdog(120*time.Second, func() { cl = s.drive(c, kind, call.ID, idStr, id, sends) })
	atomic.AddInt64(&s.inflight, -1)
	atomic.AddInt64(&s.done, 1)
	s.srv.Reg.Drop(call)
	run.Count("calls", 1)
	outcome := "ok"
	if fail {
		outcome = "error"
	}
	run.Eval(fmt.Sprintf("%s|%s|%s|%s|procs=%d", c.name, kind, sizeClass(size), outcome, procs))
	key := fmt.Sprintf("c13/call/%s/%s/%s/%s", c.name, kind, sizeClass(size), outcome)
	if !ok {
		if p := os.Getenv("VERIF_OUT"); p != "" && atomic.CompareAndSwapInt32(&s.dumped, 0, 1) {
			_ = os.WriteFile(p+"/logs/C13.callhang.txt", []byte(dump), 0o644)
		}
		run.Violation(key+"/hang", "call did not return within 120 s under concurrency", trunc(dump, 30000))
		return
	}
	if fin, inv := waitHandler(call, 60*time.Second); !fin {
		if inv {
			run.Violation(key+"/handler-hang", "handler did not finish", nil)
		} else {
			run.Violation(key+"/not-served", "the handler was never invoked; client error: "+errStr(cl.err), map[string]any{"client": c.name, "kind": kind.String(), "id": id})
		}
		return
	}
	hl := call.Log
	detail := map[string]any{"client": c.name, "kind": kind.String(), "id": id, "size": size, "fail": fail, "client_err": errStr(cl.err),
		"handler_received": gen.DescribeSeq(hl.Received), "client_received": gen.DescribeSeq(cl.msgs), "expected_replies": gen.DescribeSeq(sendsBeforeErr)}
	run.Count("echo.checked", 1)
	// request direction
	if same, why := gen.SameSeq(hl.Received, sends); !same {
		run.Violation(key+"/request-crosstalk", "handler of call "+idStr+" received messages that are not this call's: "+why, detail)
		return
	}
	if got := hl.ReqHeader.Get("X-Verif-Id"); got != idStr {
		run.Violation(key+"/request-header-crosstalk", fmt.Sprintf("handler of call %s saw request header id %q", idStr, got), detail)
		return
	}
	for _, m := range hl.Received {
		if !gen.PayloadOK(m.Id, m.Payload) {
			run.Violation(key+"/request-payload", "request payload carries a foreign or poisoned id", detail)
			return
		}
	}
	// response direction
	if same, why := gen.SameSeq(cl.msgs, sendsBeforeErr); !same {
		run.Violation(key+"/response-crosstalk", "client of call "+idStr+" received messages that are not this call's: "+why, detail)
		return
	}
	if fail {
		var ce *connect.Error
		if !errors.As(cl.err, &ce) || ce.Code() != connect.CodeAborted || ce.Message() != "call "+idStr+" aborted" || ce.Meta().Get("X-Err-Id") != idStr {
			run.Violation(key+"/error-crosstalk", fmt.Sprintf("client of call %s received error %v (meta id %q)", idStr, cl.err, func() string {
				if ce != nil {
					return ce.Meta().Get("X-Err-Id")
				}
				return ""
			}()), detail)
			return
		}
		if kind == svc.ServerStream || kind == svc.Bidi {
			if got := ce.Meta().Get("X-Echo-Id"); got != idStr {
				run.Violation(key+"/error-meta-crosstalk", fmt.Sprintf("error metadata of call %s carries header id %q", idStr, got), detail)
				return
			}
		}
		e := ce
		s.keep(&retained{what: "error", owner: id, hash: func() uint64 {
			h := fnv.New64a()
			fmt.Fprintf(h, "%s|%d|%d", e.Error(), e.Code(), hashHeader(e.Meta()))
			return h.Sum64()
		}})
	} else {
		if cl.err != nil {
			run.Violation(key+"/failed", "fault-free call failed under concurrency: "+errStr(cl.err), detail)
			return
		}
		if got := cl.header.Get("X-Echo-Id"); got != idStr {
			run.Violation(key+"/header-crosstalk", fmt.Sprintf("client of call %s saw response header id %q", idStr, got), detail)
			return
		}
		if got := cl.header.Values("X-Multi"); len(got) != 2 || got[0] != "a-"+idStr || got[1] != "b-"+idStr {
			run.Violation(key+"/header-crosstalk", fmt.Sprintf("client of call %s saw X-Multi %q", idStr, got), detail)
			return
		}
		if got := cl.trailer.Get("X-Echo-Trailer"); got != idStr {
			run.Violation(key+"/trailer-crosstalk", fmt.Sprintf("client of call %s saw response trailer id %q", idStr, got), detail)
			return
		}
		hd, tr := cl.header, cl.trailer
		s.keep(&retained{what: "response header map", owner: id, hash: func() uint64 { return hashHeader(hd) }})
		s.keep(&retained{what: "response trailer map", owner: id, hash: func() uint64 { return hashHeader(tr) }})
	}
	if cl.eofErr != nil {
		e := cl.eofErr
		s.keep(&retained{what: "end-of-stream error", owner: id, hash: func() uint64 {
			h := fnv.New64a()
			var ce *connect.Error
			if errors.As(e, &ce) {
				fmt.Fprintf(h, "%s|%d|%d", ce.Error(), ce.Code(), hashHeader(ce.Meta()))
			} else {
				fmt.Fprint(h, e.Error())
			}
			return h.Sum64()
		}})
	}
	for _, m := range cl.kept {
		m := m
		s.keep(&retained{what: "response message", owner: id, hash: func() uint64 { return hashMsg(m) }})
	}
	for _, m := range hl.Retained {
		m := m
		s.keep(&retained{what: "request message", owner: id, hash: func() uint64 { return hashMsg(m) }})
	}
	rh := hl.ReqHeader
	s.keep(&retained{what: "request header map", owner: id, hash: func() uint64 { return hashHeader(rh) }})
	if id%257 == 0 {
		run.Sample(map[string]any{"client": c.name, "kind": kind.String(), "id": id, "payload_bytes": size, "outcome": outcome})
	}
}

type c13Outcome struct {
	msgs    []*gen.Msg // clones
	kept    []*gen.Msg // the very objects the API handed out
	err     error
	eofErr  error
	header  http.Header // the very maps the API handed out
	trailer http.Header
}

// drive is a client driver that keeps the objects handed out by the API.
func (s *c13State) drive(c *c13Client, kind svc.Kind, callID, idStr string, id uint64, sends []*gen.Msg, extra ...string) *c13Outcome {
	o := &c13Outcome{}
	ctx := context.Background()
	set := func(h http.Header) {
		h.Set(wire.CallHeader, callID)
		h.Set("X-Verif-Id", idStr)
		for i := 0; i+1 < len(extra); i += 2 {
			h.Set(extra[i], extra[i+1])
		}
	}
	take := func(m *gen.Msg) {
		o.msgs = append(o.msgs, proto.Clone(m).(*gen.Msg))
		o.kept = append(o.kept, m)
	}
	switch kind {
	case svc.Unary:
		req := connect.NewRequest(sends[0])
		set(req.Header())
		res, err := c.cs.C[kind].CallUnary(ctx, req)
		if err != nil {
			o.err = err
			return o
		}
		take(res.Msg)
		o.header, o.trailer = res.Header(), res.Trailer()
	case svc.ClientStream:
		st := c.cs.C[kind].CallClientStream(ctx)
		set(st.RequestHeader())
		for _, m := range sends {
			if err := st.Send(m); err != nil {
				break
			}
		}
		res, err := st.CloseAndReceive()
		if err != nil {
			o.err = err
			return o
		}
		take(res.Msg)
		o.header, o.trailer = res.Header(), res.Trailer()
	case svc.ServerStream:
		req := connect.NewRequest(sends[0])
		set(req.Header())
		st, err := c.cs.C[kind].CallServerStream(ctx, req)
		if err != nil {
			o.err = err
			return o
		}
		for st.Receive() {
			o.msgs = append(o.msgs, proto.Clone(st.Msg()).(*gen.Msg))
		}
		o.err = st.Err()
		o.header, o.trailer = st.ResponseHeader(), st.ResponseTrailer()
		_ = st.Close()
	case svc.Bidi:
		st := c.cs.C[kind].CallBidiStream(ctx)
		set(st.RequestHeader())
		done := make(chan struct{})
		go func() {
			defer close(done)
			for _, m := range sends {
				if err := st.Send(m); err != nil {
					break
				}
			}
			_ = st.CloseRequest()
		}()
		for {
			m, err := st.Receive()
			if err != nil {
				if errors.Is(err, io.EOF) {
					o.eofErr = err
				} else {
					o.err = err
				}
				break
			}
			take(m)
		}
		if id%3 == 0 {
			// some callers ask once more after the end (a select loop that polls
			// Receive, a helper that drains "until error" twice): the answer must
			// stay an error, and whatever the library does for it must not disturb
			// the calls around this one
			if m, err := st.Receive(); err == nil {
				o.err = fmt.Errorf("harness: Receive after the end of the stream returned message id=%d", m.Id)
			}
		}
		<-done
		o.header, o.trailer = st.ResponseHeader(), st.ResponseTrailer()
		_ = st.CloseResponse()
	}
	return o
}

// duplexStream: one bidi stream, a sender goroutine and a receiver goroutine
// working at the same time; the handler echoes message by message.
func (s *c13State) duplexStream(id uint64, procs, b int) {
	run := s.run
	var h2 []*c13Client
	for _, c := range s.clients {
		if c.http2 {
			h2 = append(h2, c)
		}
	}
	c := h2[int(id)%len(h2)]
	n := run.Pick(60, 300)
	if procs < 16 {
		// every echo is a chain of goroutine hand-offs; with few processors and
		// dozens of busy goroutines each hand-off waits for its turn, so the
		// stream is kept shorter there (it is the overlap that matters)
		n = run.Pick(60, 300) * procs / 16
		if n < 40 {
			n = 40
		}
	}
	prog := &svc.Program{}
	for i := 0; i < n; i++ {
		prog.Steps = append(prog.Steps, svc.Step{Op: "recv"}, svc.Step{Op: "send", Msg: gen.New(id*1024+512+uint64(i), 200+i%7*300, true)})
	}
	prog.Steps = append(prog.Steps, svc.Step{Op: "recvall"})
	call := s.srv.Reg.New("c13d", prog)
	defer s.srv.Reg.Drop(call)
	st := c.cs.C[svc.Bidi].CallBidiStream(context.Background())
	// Every other stream: the sender goroutine sets the request headers itself,
	// a moment after the receiver goroutine has entered Receive (headers are sent
	// with the first Send; a Receive that is already waiting must not send the
	// request on its own, without them).
	lateHeaders := id%2 == 0
	if !lateHeaders {
		st.RequestHeader().Set(wire.CallHeader, call.ID)
	}
	key := fmt.Sprintf("c13/duplex/%s", c.name)
	var sendErr error
	var steps int64 // messages sent + received so far (progress, for the watchdog only)
	sent := make(chan struct{})
	go func() {
		defer close(sent)
		if lateHeaders {
			time.Sleep(30 * time.Millisecond)
			st.RequestHeader().Set(wire.CallHeader, call.ID)
		}
		for i := 0; i < n; i++ {
			if err := st.Send(gen.New(id*1024+uint64(i), 100+i%5*400, false)); err != nil {
				sendErr = err
				return
			}
			atomic.AddInt64(&steps, 1)
		}
		sendErr = st.CloseRequest()
	}()
	var got []*gen.Msg
	var recvErr error
	// a window without a single message in either direction is a hang; a stream
	// that is still moving after 10 more windows is a slow machine (inconclusive)
	ok, slow, dump := watchdogProgress(120*time.Second, 10, func() int64 { return atomic.LoadInt64(&steps) }, func() {
		for {
			m, err := st.Receive()
			if err != nil {
				if !errors.Is(err, io.EOF) {
					recvErr = err
				}
				break
			}
			got = append(got, m)
			atomic.AddInt64(&steps, 1)
		}
		<-sent
		_ = st.CloseResponse()
	})
	run.Count("calls", 1)
	run.Eval(fmt.Sprintf("duplex|%s|procs=%d", c.name, procs))
	if !ok && slow {
		run.Inconclusive("a duplex stream was still making progress after 22 minutes (machine too slow to decide)")
		return
	}
	if !ok {
		if p := os.Getenv("VERIF_OUT"); p != "" {
			_ = os.WriteFile(fmt.Sprintf("%s/logs/C13.hang.%d.txt", p, id), []byte(dump), 0o644)
		}
		run.Violation(key+"/hang", fmt.Sprintf("concurrent send/receive on one bidi stream hung: no message moved in either direction for 120 s (%d of %d steps done)", atomic.LoadInt64(&steps), 2*n), trunc(dump, 30000))
		return
	}
	run.Count("duplex.messages", int64(len(got)))
	detail := map[string]any{"client": c.name, "send_err": errStr(sendErr), "recv_err": errStr(recvErr), "received": len(got), "expected": n}
	if sendErr != nil || recvErr != nil || len(got) != n {
		run.Violation(key+"/failed", "concurrent send/receive on one bidi stream failed", detail)
		return
	}
	for i, m := range got {
		if m.Id != id*1024+512+uint64(i) || !gen.PayloadOK(m.Id, m.Payload) {
			detail["index"] = i
			run.Violation(key+"/fifo", fmt.Sprintf("stream delivered message %d out of order or corrupted (id %d)", i, m.Id), detail)
			return
		}
	}
	<-call.Log.Finished
	for i, m := range call.Log.Received {
		if m.Id != id*1024+uint64(i) || !gen.PayloadOK(m.Id, m.Payload) {
			detail["index"] = i
			run.Violation(key+"/fifo-request", fmt.Sprintf("handler received message %d out of order or corrupted (id %d)", i, m.Id), detail)
			return
		}
	}
	_ = strings.TrimSpace
}

// duplexCancel: a bidi stream whose context is cancelled while the sender and
// the receiver goroutine are both active (the documented concurrency contract
// plus cancellation). Only termination and coded errors are judged here; the
// point is to let the race detector watch Send/Receive/cancel overlap.
func (s *c13State) duplexCancel(id uint64, procs, b int) {
	run := s.run
	var h2 []*c13Client
	for _, c := range s.clients {
		if c.http2 {
			h2 = append(h2, c)
		}
	}
	c := h2[int(id)%len(h2)]
	// the handler streams its replies without waiting, so that the receiver
	// goroutine is busy in a tight Receive loop when the sender cancels
	n := 400
	prog := &svc.Program{Steps: []svc.Step{{Op: "recv"}}, StopOnSendErr: true}
	reply := gen.New(id*1024+512, 64, true)
	for i := 0; i < 6000; i++ { // far more than the receiver can drain before the cancel
		prog.Steps = append(prog.Steps, svc.Step{Op: "send", Msg: reply})
	}
	prog.Steps = append(prog.Steps, svc.Step{Op: "recvall"})
	call := s.srv.Reg.New("c13x", prog)
	defer s.srv.Reg.Drop(call)
	ctx, cancel := context.WithCancel(context.Background())
	defer cancel()
	st := c.cs.C[svc.Bidi].CallBidiStream(ctx)
	st.RequestHeader().Set(wire.CallHeader, call.ID)
	cancelAt := 1 + int(id%7)
	var sendErr, recvErr error
	var received int64
	small := &gen.Msg{Id: id} // prebuilt: the Send right after cancel() must not be delayed
	sent := make(chan struct{})
	go func() {
		defer close(sent)
		for i := 0; i < n; i++ {
			if i == cancelAt {
				// Cancel at an arbitrary phase of the receiver's loop. (Waiting on a
				// shared counter instead would synchronise the two goroutines and
				// always find the receiver parked inside the body read.)
				time.Sleep(time.Duration(3000+(id*7919)%57000) * time.Microsecond)
				cancel()
			}
			if err := st.Send(small); err != nil {
				sendErr = err
				break
			}
		}
		_ = st.CloseRequest()
	}()
	ok, dump := watchdog(120*time.Second, func() {
		for {
			if _, err := st.Receive(); err != nil {
				recvErr = err
				break
			}
			atomic.AddInt64(&received, 1)
		}
		<-sent
		_ = st.CloseResponse()
	})
	run.Count("calls", 1)
	run.Count("duplex.cancelled_streams", 1)
	run.Count("duplex.cancelled_streams.received_before_cancel", atomic.LoadInt64(&received))
	run.Eval(fmt.Sprintf("duplex-cancel|%s|procs=%d", c.name, procs))
	key := fmt.Sprintf("c13/duplex-cancel/%s", c.name)
	if !ok {
		run.Violation(key+"/hang", "bidi stream cancelled while sending and receiving concurrently hung", trunc(dump, 30000))
		return
	}
	for _, e := range []error{sendErr, recvErr} {
		if e == nil || errors.Is(e, io.EOF) {
			continue
		}
		var ce *connect.Error
		if !errors.As(e, &ce) || ce.Code() == 0 {
			run.Violation(key+"/uncoded", "operation on a cancelled duplex stream returned an uncoded error: "+e.Error(), nil)
			return
		}
	}
}

// oversizeCall sends a compressed message that is small on the wire but
// exceeds the handler's read limit once decompressed: that call must fail with
// the documented code, and nothing else may notice.
func (s *c13State) oversizeCall(r *rand.Rand, c *c13Client, id uint64, procs int) {
	run := s.run
	kind := []svc.Kind{svc.Unary, svc.ClientStream}[r.Intn(2)]
	idStr := strconv.FormatUint(id, 10)
	prog := &svc.Program{StopOnRecvErr: true, Steps: []svc.Step{{Op: "recvall"}, {Op: "send", Msg: &gen.Msg{Id: id}}}}
	call := s.srv.Reg.New("c13o", prog)
	defer s.srv.Reg.Drop(call)
	big := gen.New(id*16, c13ReadMax+(1<<20), true)
	var cl *c13Outcome
	ok, dump := watchdog(120*time.Second, func() { cl = s.drive(c, kind, call.ID, idStr, id, []*gen.Msg{big}) })
	atomic.AddInt64(&s.done, 1)
	run.Count("calls", 1)
	run.Count("oversize.calls", 1)
	run.Eval(fmt.Sprintf("%s|%s|oversize-compressed|procs=%d", c.name, kind, procs))
	key := fmt.Sprintf("c13/oversize/%s/%s", c.name, kind)
	if !ok {
		run.Violation(key+"/hang", "call with an over-limit compressed message hung", trunc(dump, 30000))
		return
	}
	if code := connect.CodeOf(cl.err); cl.err == nil || (code != connect.CodeInvalidArgument && code != connect.CodeResourceExhausted) {
		run.Violation(key+"/not-rejected", "a message exceeding the read limit after decompression was not rejected with the documented code: "+errStr(cl.err), nil)
	}
}

// strippedCall: the response's HTTP trailers are removed on the way, so the
// gRPC call must fail - with an error that belongs to this call alone.
func (s *c13State) strippedCall(r *rand.Rand, c *c13Client, id uint64, procs int) {
	run := s.run
	kind := []svc.Kind{svc.Unary, svc.ServerStream, svc.ClientStream}[r.Intn(3)]
	idStr := strconv.FormatUint(id, 10)
	prog := &svc.Program{Header: http.Header{"X-Echo-Id": {idStr}}, Steps: []svc.Step{{Op: "recvall"}, {Op: "send", Msg: &gen.Msg{Id: id}}}}
	call := s.srv.Reg.New("c13s", prog)
	defer s.srv.Reg.Drop(call)
	var cl *c13Outcome
	ok, dump := watchdog(120*time.Second, func() {
		cl = s.drive(c, kind, call.ID, idStr, id, []*gen.Msg{{Id: id*16 + 1}}, "X-Verif-Strip", "1")
	})
	atomic.AddInt64(&s.done, 1)
	run.Count("calls", 1)
	run.Count("stripped_trailer.calls", 1)
	run.Eval(fmt.Sprintf("%s|%s|stripped-trailers|procs=%d", c.name, kind, procs))
	key := fmt.Sprintf("c13/stripped/%s/%s", c.name, kind)
	if !ok {
		run.Violation(key+"/hang", "call whose trailers were stripped hung", trunc(dump, 30000))
		return
	}
	var ce *connect.Error
	if !errors.As(cl.err, &ce) || ce.Code() == 0 {
		run.Violation(key+"/not-failed", "gRPC call without a Grpc-Status trailer did not fail with a coded error: "+errStr(cl.err), nil)
		return
	}
	if got := ce.Meta().Get("X-Echo-Id"); got != "" && got != idStr {
		run.Violation(key+"/error-meta-crosstalk", fmt.Sprintf("error of call %s carries response header id %q of another call", idStr, got), nil)
		return
	}
	e := ce
	s.keep(&retained{what: "missing-status error", owner: id, hash: func() uint64 {
		h := fnv.New64a()
		fmt.Fprintf(h, "%s|%d|%d", e.Error(), e.Code(), hashHeader(e.Meta()))
		return h.Sum64()
	}})
}

// truncatedCall: a Connect server stream whose body ends without the
// end-of-stream message. The error is produced inside the client; whatever it
// carries must belong to this call and must not change afterwards.
func (s *c13State) truncatedCall(r *rand.Rand, c *c13Client, id uint64, procs int) {
	run := s.run
	idStr := strconv.FormatUint(id, 10)
	var cl *c13Outcome
	ok, dump := watchdog(120*time.Second, func() {
		cl = s.drive(c, svc.ServerStream, "none", idStr, id, []*gen.Msg{{Id: id*16 + 1}}, "X-Verif-Truncate", idStr)
	})
	atomic.AddInt64(&s.done, 1)
	run.Count("calls", 1)
	run.Count("truncated_stream.calls", 1)
	run.Eval(fmt.Sprintf("%s|server|truncated-stream|procs=%d", c.name, procs))
	key := fmt.Sprintf("c13/truncated/%s", c.name)
	if !ok {
		run.Violation(key+"/hang", "call whose stream was truncated hung", trunc(dump, 30000))
		return
	}
	var ce *connect.Error
	if !errors.As(cl.err, &ce) || ce.Code() == 0 {
		run.Violation(key+"/not-failed", "Connect stream without an end-of-stream message did not fail with a coded error: "+errStr(cl.err), nil)
		return
	}
	if got := ce.Meta().Get("X-Echo-Id"); got != "" && got != idStr {
		run.Violation(key+"/error-meta-crosstalk", fmt.Sprintf("error of call %s carries response header id %q of another call", idStr, got), nil)
		return
	}
	if got := cl.header.Get("X-Echo-Id"); got != idStr {
		run.Violation(key+"/header-crosstalk", fmt.Sprintf("call %s sees response header id %q", idStr, got), nil)
		return
	}
	e := ce
	s.keep(&retained{what: "missing-end-of-stream error", owner: id, hash: func() uint64 {
		h := fnv.New64a()
		fmt.Fprintf(h, "%s|%d|%d", e.Error(), e.Code(), hashHeader(e.Meta()))
		return h.Sum64()
	}})
}

// malformedRequest: a peer's request stream that violates the protocol (an
// end-of-stream envelope, which only servers send; or an envelope with reserved
// flags) arrives in the middle of the valid traffic. It must be answered with
// an error, and must not disturb the calls around it (they share the handler's
// pools with it).
func (s *c13State) malformedRequest(r *rand.Rand, c *c13Client, id uint64, procs int) {
	run := s.run
	hc, base := s.srv.RawHTTPClient(c.http2)
	msg, _ := proto.Marshal(gen.New(id*16, 300, true))
	body := refcodec.AppendFrame(nil, 0, msg)
	shape := "end-of-stream-in-request"
	switch r.Intn(3) {
	case 0:
		body = refcodec.AppendFrame(body, 0x02, []byte(`{"metadata":{"x-from-client":["`+strconv.FormatUint(id, 10)+`"]}}`))
	case 1:
		body = refcodec.AppendFrame(refcodec.AppendFrame(nil, 0x02, []byte("{}")), 0, msg)
	default:
		shape = "reserved-flags"
		body = refcodec.AppendFrame(body, 0x40, msg)
	}
	var status int
	var rb []byte
	var err error
	ok, dump := watchdog(120*time.Second, func() {
		status, _, rb, _, err = rawPost(hc, base+svc.ClientStream.Path(), "application/connect+proto", nil, body)
	})
	atomic.AddInt64(&s.done, 1)
	run.Count("calls", 1)
	run.Count("malformed_request.calls", 1)
	run.Eval(fmt.Sprintf("%s|client|malformed-request-%s|procs=%d", c.name, shape, procs))
	key := fmt.Sprintf("c13/malformed-request/%s/%s", c.name, shape)
	if !ok {
		run.Violation(key+"/hang", "a malformed request was never answered", trunc(dump, 30000))
		return
	}
	// What the answer says is C07's subject; here the request matters for what
	// it does to the pools it shares with the calls around it (the pool hooks
	// and the echo checks of those calls are the oracle).
	_, _, _ = status, rb, err
}

// panicCall: the handler panics with a value that names the call; the recovery
// function turns it into an error that must come back to this call only.
func (s *c13State) panicCall(r *rand.Rand, c *c13Client, id uint64, procs int) {
	run := s.run
	kind := svc.Kinds[r.Intn(4)]
	if kind == svc.Bidi && !c.http2 {
		kind = svc.ClientStream
	}
	idStr := strconv.FormatUint(id, 10)
	prog := &svc.Program{Header: http.Header{"X-Echo-Id": {idStr}}, Steps: []svc.Step{{Op: "recv"}}}
	if (kind == svc.ServerStream || kind == svc.Bidi) && r.Intn(2) == 0 {
		prog.Steps = append(prog.Steps, svc.Step{Op: "send", Msg: gen.New(id*16+8, 40, true)})
	}
	prog.Steps = append(prog.Steps, svc.Step{Op: "panic", Val: "p-" + idStr})
	call := s.srv.Reg.New("c13p", prog)
	defer s.srv.Reg.Drop(call)
	var cl *c13Outcome
	ok, dump := watchdog(120*time.Second, func() {
		cl = s.drive(c, kind, call.ID, idStr, id, []*gen.Msg{{Id: id*16 + 1}})
	})
	atomic.AddInt64(&s.done, 1)
	run.Count("calls", 1)
	run.Count("panicking.calls", 1)
	run.Eval(fmt.Sprintf("%s|%s|handler-panic|procs=%d", c.name, kind, procs))
	key := fmt.Sprintf("c13/panic/%s/%s", c.name, kind)
	if !ok {
		run.Violation(key+"/hang", "call whose handler panicked hung", trunc(dump, 30000))
		return
	}
	want := "data_loss: recovered p-" + idStr
	if got := errStr(cl.err); got != want {
		run.Violation(key+"/recovered-error", fmt.Sprintf("handler of call %s panicked under a recovery function: the client received %q, want %q", idStr, got, want), nil)
	}
}

// heldResponseCancel: the context ends while the HTTP client is still holding
// the response; the response is handed over afterwards all the same. The receive
// side of the call (which the cancellation wakes up) and the goroutine that
// takes delivery of the response must not touch the same state unsynchronised.
// Only termination and coded errors are judged; the race detector watches.
func (s *c13State) heldResponseCancel(id uint64, procs, x int) {
	run := s.run
	c := s.holdClients[x%len(s.holdClients)]
	prog := &svc.Program{Header: http.Header{"X-Echo-Id": {strconv.FormatUint(id, 10)}}, Steps: []svc.Step{{Op: "send", Msg: &gen.Msg{Id: id}}, {Op: "recvall"}}}
	call := s.srv.Reg.New("c13h", prog)
	defer s.srv.Reg.Drop(call)
	ctx, cancel := context.WithCancel(context.Background())
	defer cancel()
	st := c.cs.C[svc.Bidi].CallBidiStream(ctx)
	st.RequestHeader().Set(wire.CallHeader, call.ID)
	small := &gen.Msg{Id: id}
	var errs []error
	ok, dump := watchdog(120*time.Second, func() {
		errs = append(errs, st.Send(small)) // issues the request
		go func() {
			time.Sleep(time.Duration(2000+(id*7919)%36000) * time.Microsecond) // somewhere inside the hold
			cancel()
		}()
		_, err := st.Receive()
		errs = append(errs, err)
		_, err = st.Receive()
		errs = append(errs, err)
		_ = st.ResponseHeader().Get("X-Echo-Id")
		errs = append(errs, st.CloseRequest(), st.CloseResponse())
	})
	run.Count("calls", 1)
	run.Count("held_response.cancelled_calls", 1)
	run.Eval(fmt.Sprintf("held-response-cancel|%s|procs=%d", c.name, procs))
	key := "c13/held-response-cancel/" + c.name
	if !ok {
		run.Violation(key+"/hang", "call cancelled while the HTTP client was holding its response hung", trunc(dump, 30000))
		return
	}
	for _, e := range errs {
		if e == nil || errors.Is(e, io.EOF) {
			continue
		}
		var ce *connect.Error
		if !errors.As(e, &ce) || ce.Code() == 0 {
			run.Violation(key+"/uncoded", "operation on a call cancelled during a held response returned an uncoded error: "+e.Error(), nil)
			return
		}
	}
}

func (s *c13State) h2Client(id uint64) *c13Client {
	var h2 []*c13Client
	for _, c := range s.clients {
		if c.http2 {
			h2 = append(h2, c)
		}
	}
	return h2[int(id)%len(h2)]
}

// duplexEarlyFinish: the handler answers and returns while the sender goroutine
// is still sending; the receiver goroutine reads the response to its end at the
// same time. Send must be safe to call concurrently with everything the
// receive side does (the race detector watches); both sides terminate.
func (s *c13State) duplexEarlyFinish(id uint64, procs, b int) {
	run := s.run
	c := s.h2Client(id)
	replies := []*gen.Msg{gen.New(id*1024+512, 100, true), gen.New(id*1024+513, 3000, true)}
	prog := &svc.Program{Steps: []svc.Step{{Op: "recv"}, {Op: "send", Msg: replies[0]}, {Op: "send", Msg: replies[1]}}}
	call := s.srv.Reg.New("c13e", prog)
	defer s.srv.Reg.Drop(call)
	st := c.cs.C[svc.Bidi].CallBidiStream(context.Background())
	st.RequestHeader().Set(wire.CallHeader, call.ID)
	small := gen.New(id*1024, 200, false)
	var sendErr, recvErr error
	var got []*gen.Msg
	sent := make(chan struct{})
	go func() {
		defer close(sent)
		for i := 0; i < 400; i++ {
			if err := st.Send(small); err != nil {
				sendErr = err
				return
			}
			if i%8 == 7 {
				runtime.Gosched()
			}
		}
	}()
	ok, dump := watchdog(120*time.Second, func() {
		for {
			m, err := st.Receive()
			if err != nil {
				if !errors.Is(err, io.EOF) {
					recvErr = err
				}
				break
			}
			got = append(got, m)
		}
		<-sent
		_ = st.CloseRequest()
		_ = st.CloseResponse()
	})
	run.Count("calls", 1)
	run.Count("duplex.early_finish_streams", 1)
	run.Eval(fmt.Sprintf("duplex-early-finish|%s|procs=%d", c.name, procs))
	key := "c13/duplex-early-finish/" + c.name
	if !ok {
		run.Violation(key+"/hang", "bidi stream whose handler finished while the client was still sending hung", trunc(dump, 30000))
		return
	}
	detail := map[string]any{"client": c.name, "send_err": errStr(sendErr), "recv_err": errStr(recvErr), "received": len(got)}
	if recvErr != nil || len(got) != len(replies) || got[0].Id != replies[0].Id || got[1].Id != replies[1].Id {
		run.Violation(key+"/replies", "the receiver did not get the handler's replies while the sender was still sending", detail)
		return
	}
	if sendErr != nil && !errors.Is(sendErr, io.EOF) {
		var ce *connect.Error
		if !errors.As(sendErr, &ce) || ce.Code() == 0 {
			run.Violation(key+"/send-error", "Send after the handler had finished failed with an uncoded error: "+sendErr.Error(), detail)
		}
	}
}

// closeResponseFirst: one goroutine closes the receive side of a stream before
// the goroutine that owns the send side has sent anything (CloseResponse is
// safe to call concurrently with all other methods). The sender must not be
// left blocked: its Sends return, with or without an error.
func (s *c13State) closeResponseFirst(id uint64, procs, b int) {
	run := s.run
	c := s.h2Client(id)
	prog := &svc.Program{Steps: []svc.Step{{Op: "recvall"}}}
	call := s.srv.Reg.New("c13f", prog)
	defer s.srv.Reg.Drop(call)
	ctx, cancel := context.WithCancel(context.Background())
	defer cancel()
	st := c.cs.C[svc.Bidi].CallBidiStream(ctx)
	st.RequestHeader().Set(wire.CallHeader, call.ID)
	small := gen.New(id*1024, 50, false)
	closed := make(chan struct{})
	go func() {
		defer close(closed)
		_ = st.CloseResponse() // waits for the request to be made, then closes
	}()
	ok, dump := watchdog(60*time.Second, func() {
		time.Sleep(40 * time.Millisecond) // CloseResponse gets in first
		for i := 0; i < 20; i++ {
			if err := st.Send(small); err != nil {
				break
			}
		}
		_ = st.CloseRequest()
		<-closed
	})
	run.Count("calls", 1)
	run.Count("duplex.close_response_first_streams", 1)
	run.Eval(fmt.Sprintf("close-response-first|%s|procs=%d", c.name, procs))
	if !ok {
		cancel()
		run.Violation("c13/close-response-first/"+c.name+"/hang", "one goroutine closed the receive side of a stream before the other had sent anything: Send / CloseRequest / CloseResponse did not all return", trunc(dump, 30000))
	}
}

// c13SharedSentinel: handlers that return one package-level *connect.Error
// (with some metadata set once, e.g. Retry-After) from many calls, each call
// also setting trailers of its own. The error value belongs to the
// application: the library may read it concurrently but must not write to it,
// and no call's trailers may turn up in another call. First a sequential
// history, then 8 goroutines at once (the race detector watches the map).
func c13SharedSentinel(run *ev.Run) {
	sentinel := connect.NewError(connect.CodeResourceExhausted, errors.New("busy, try later"))
	sentinel.Meta().Set("Retry-After", "7")
	srv := svc.NewServer()
	defer srv.Close()
	var seq uint64
	one := func(cs *svc.ClientSet, protocol string, kind svc.Kind, phase string) {
		id := fmt.Sprintf("sentinel-%d", atomic.AddUint64(&seq, 1))
		prog := &svc.Program{Steps: []svc.Step{{Op: "recv"}}, Trailer: http.Header{"X-Call-Id": {id}}, Return: sentinel}
		call := srv.Reg.New("c13s", prog)
		defer srv.Reg.Drop(call)
		cl := cs.Do(context.Background(), kind, call.ID, nil, []*gen.Msg{{Id: 1}})
		run.Count("calls", 1)
		run.Count("shared_sentinel.calls", 1)
		run.Eval(fmt.Sprintf("shared-sentinel|%s|%s|%s", protocol, kind, phase))
		key := fmt.Sprintf("c13/shared-sentinel/%s/%s/%s", protocol, kind, phase)
		var ce *connect.Error
		if !errors.As(cl.Err, &ce) || ce.Code() != connect.CodeResourceExhausted {
			run.Violation(key+"/outcome", "the handler's error did not arrive: "+errStr(cl.Err), map[string]any{"call": id})
			return
		}
		vals := append(append([]string{}, ce.Meta().Values("X-Call-Id")...), cl.Trailer.Values("X-Call-Id")...)
		for _, v := range vals {
			if v != id {
				run.Violation(key+"/foreign-trailer", fmt.Sprintf("call %s sees the trailer value %q of another call", id, v), map[string]any{"call": id, "x_call_id_values": vals})
				return
			}
		}
	}
	for _, h2 := range []bool{false, true} {
		for _, protocol := range svc.Protocols {
			cs := srv.RawClients(h2, svc.ProtoOpts(protocol, "proto")...)
			kinds := []svc.Kind{svc.Unary, svc.ServerStream, svc.ClientStream}
			if h2 {
				kinds = append(kinds, svc.Bidi)
			}
			for _, kind := range kinds {
				for i := 0; i < 3; i++ {
					one(cs, protocol, kind, "sequential")
				}
				var wg sync.WaitGroup
				for g := 0; g < 8; g++ {
					wg.Add(1)
					go func() {
						defer wg.Done()
						for i := 0; i < 4; i++ {
							one(cs, protocol, kind, "concurrent")
						}
					}()
				}
				wg.Wait()
			}
		}
	}
	if got := fmt.Sprint(map[string][]string(sentinel.Meta())); got != fmt.Sprint(map[string][]string{"Retry-After": {"7"}}) {
		run.Violation("c13/shared-sentinel/error-value-written", "the application's shared error value was modified by the library: its metadata is now "+trunc(got, 400), nil)
	}
}
