package checks

import (
	"context"
	"errors"
	"fmt"
	"math"
	"net/http"
	"strings"
	"sync/atomic"

	connect "github.com/bufbuild/connect-go"
	"verif.local/harness/ev"
	"verif.local/harness/gen"
	"verif.local/harness/refcodec"
	"verif.local/harness/svc"
	"verif.local/harness/wire"
)

func init() { register("C18", "exploration", c18) }

func c18(run *ev.Run) int {
	run.SetRule("domains: code text round trip over all 2^32 values in the thorough tier (quick: 0..2^20, +-2^10 around every power of two, top 2^20, 2^20 seeded random), the 16 names, rejection of non-names; percent-encoding round trip / printable-ASCII alphabet / decoder totality over all byte strings up to length 2 (3 thorough) and random long ones, in-package on the pinned helpers and through Grpc-Message recorded from ServeHTTP; binary-header round trips over all byte strings up to length 2 (3); code -> HTTP status through a unary Connect handler for codes 0..65535 plus random 32-bit codes; distinct by (codec, domain stratum); also: Grpc-Message for messages of 1.3-20 KiB")
	c18Codes(run)
	c18CodeRejection(run)
	c18GRPCMessage(run)
	c18Status(run)
	c11Binary(run)
	run.MergeInpkg("C18 percent-encoding sweep")
	return run.Finish("code.roundtrips", "code.rejections", "grpc_message.checked", "status.checked", "binary.roundtrips")
}

func c18Codes(run *ev.Run) {
	var bad atomic.Int64
	check := func(c uint32) bool {
		code := connect.Code(c)
		txt, err := code.MarshalText()
		var back connect.Code
		if err == nil {
			err = back.UnmarshalText(txt)
		}
		if err != nil || back != code {
			if bad.Add(1) <= 5 {
				run.Violation(fmt.Sprintf("c18/code-roundtrip/%d", c), fmt.Sprintf("Code(%d): MarshalText = %q, UnmarshalText -> %d, %v", c, txt, back, err), nil)
			}
			return false
		}
		if c <= 20 || c%65521 == 0 {
			// the caller owns the slice MarshalText returns: writing into it must
			// not change what the next MarshalText of the same code returns
			want := string(txt)
			for i := range txt {
				txt[i] = '#'
			}
			if again, err := code.MarshalText(); err != nil || string(again) != want {
				run.Violation(fmt.Sprintf("c18/code-text-shared/%d", c), fmt.Sprintf("Code(%d).MarshalText() returned %q; after the caller overwrote that slice the next call returns %q", c, want, again), nil)
				return false
			}
			txt = []byte(want)
		}
		if c >= 1 && c <= 16 {
			if string(txt) != refcodec.CodeName(c) {
				run.Violation(fmt.Sprintf("c18/code-name/%d", c), fmt.Sprintf("Code(%d) is named %q, the protocol says %q", c, txt, refcodec.CodeName(c)), nil)
			}
		}
		return true
	}
	if !run.Quick() {
		// the whole 32-bit space, split over 16 workers
		var n atomic.Int64
		parallel(16, 16, func(w int) {
			lo := uint64(w) << 28
			hi := lo + 1<<28
			var cnt int64
			for c := lo; c < hi; c++ {
				check(uint32(c))
				cnt++
			}
			n.Add(cnt)
		})
		run.Count("code.roundtrips", n.Load())
		run.Set("exhaustive", true)
		run.Set("code_values_enumerated", n.Load())
		for i := 0; i < 64; i++ {
			run.Eval(fmt.Sprintf("code|stratum=%d", i))
		}
		return
	}
	var n int64
	for c := uint32(0); c < 1<<20; c++ {
		check(c)
		n++
	}
	run.Eval("code|low-2^20")
	for p := 10; p < 32; p++ {
		base := uint64(1) << uint(p)
		for d := -1024; d <= 1024; d++ {
			v := int64(base) + int64(d)
			if v >= 0 && v <= math.MaxUint32 {
				check(uint32(v))
				n++
			}
		}
		run.Eval(fmt.Sprintf("code|around-2^%d", p))
	}
	for c := uint64(math.MaxUint32) - 1<<20; c <= math.MaxUint32; c++ {
		check(uint32(c))
		n++
	}
	run.Eval("code|top-2^20")
	r := run.Rand("c18-codes")
	for i := 0; i < 1<<20; i++ {
		check(r.Uint32())
		n++
	}
	run.Eval("code|random")
	run.Count("code.roundtrips", n)
}

func c18CodeRejection(run *ev.Run) {
	r := run.Rand("c18-reject")
	bad := []string{"", " ", "Canceled", "CANCELED", "canceled ", " canceled", "cancelled", "not found", "not-found", "notfound", "ok", "OK", "code_", "code_x", "code_1e3", "code_ 5", "code_5 ", "code_0x10", "code_1.5", "Code_5", "CODE_5", "code5", "code-5", "5", "unknown\x00", "code_٣", "code_１", "\xff\xfe", "internal\n"}
	for i := 0; i < 50000; i++ {
		b := make([]byte, r.Intn(20))
		for j := range b {
			b[j] = "abcdefghijklmnopqrstuvwxyz_0123456789 ABC-"[r.Intn(42)]
		}
		bad = append(bad, string(b))
	}
	for _, s := range bad {
		if _, ok := refcodec.CodeFromName(s); ok {
			continue
		}
		if strings.HasPrefix(s, "code_") {
			rest := strings.TrimPrefix(s, "code_")
			rest = strings.TrimPrefix(strings.TrimPrefix(rest, "+"), "-")
			digits := rest != ""
			for _, c := range rest {
				if c < '0' || c > '9' {
					digits = false
				}
			}
			if digits {
				continue // "of the form code_<number>": unconstrained here
			}
		}
		run.Count("code.rejections", 1)
		var c connect.Code
		var err error
		func() {
			defer func() {
				if p := recover(); p != nil {
					run.Violation("c18/code-unmarshal-panic", fmt.Sprintf("UnmarshalText(%q) panicked: %v", s, p), nil)
				}
			}()
			err = c.UnmarshalText([]byte(s))
		}()
		if err == nil {
			run.Violation("c18/code-accepts-garbage", fmt.Sprintf("UnmarshalText(%q) succeeded (-> %d); text that is neither a defined name nor code_<number> must be rejected", s, c), nil)
			return
		}
	}
	run.Eval("code|rejection-fixed")
	run.Eval("code|rejection-random")
}

// c18GRPCMessage: the exported path of the percent-encoder - a handler fails
// with message s, the Grpc-Message written by ServeHTTP must be printable
// ASCII and reference-decode to s.
func c18GRPCMessage(run *ev.Run) {
	var msgs []string
	for a := 0; a < 256; a++ {
		msgs = append(msgs, string([]byte{byte(a)}), "x"+string([]byte{byte(a)}), string([]byte{byte(a)})+"y")
	}
	r := run.Rand("c18-msg")
	for i := 0; i < run.Pick(3000, 60000); i++ {
		b := make([]byte, 1+r.Intn(40))
		switch r.Intn(3) {
		case 0:
			r.Read(b)
		case 1:
			for j := range b {
				b[j] = byte(0x20 + r.Intn(0x60))
			}
		default:
			for j := range b {
				b[j] = "%\x7f~ é\x00\r\n"[r.Intn(9)]
			}
		}
		msgs = append(msgs, string(b))
	}
	// long messages (a stack trace, a dump): plain ASCII, and text in which
	// every character needs escaping, around sizes where an encoder might cut
	nShort := len(msgs)
	for _, n := range []int{1365, 1366, 4095, 4096, 4097, 8191, 8193, 20000} {
		msgs = append(msgs, strings.Repeat("goroutine 17 [running]: main.handler(0xc000123456)\n", n/50+1)[:n])
		msgs = append(msgs, strings.Repeat("日本語のエラー ", n/len("日本語のエラー ")))
	}
	reg := svc.NewRegistry()
	hs := svc.Handlers(reg)
	body := refcodec.AppendFrame(nil, 0, encMsg("proto", &gen.Msg{Id: 1}))
	for i, m := range msgs {
		for _, protocol := range []string{"grpc", "grpcweb"} {
			if i%2 == 0 && protocol == "grpcweb" && len(m) > 3 {
				continue
			}
			key := fmt.Sprintf("c18/grpc-message/%s/%x", protocol, m)
			if i >= nShort {
				key = fmt.Sprintf("c18/grpc-message/%s/long/i=%d/len=%d", protocol, i-nShort, len(m))
				run.Count("grpc_message.long", 1)
			}
			if !run.Want(key) {
				continue
			}
			steps := []svc.Step{{Op: "recv"}}
			sentFirst := i%3 == 1
			if sentFirst {
				// every third case: the handler has streamed small messages before it
				// fails (the handler's buffer pool is in the state real traffic leaves
				// it in, not fresh)
				steps = append(steps, svc.Step{Op: "send", Msg: &gen.Msg{Id: 2}}, svc.Step{Op: "send", Msg: &gen.Msg{Id: 3}}, svc.Step{Op: "send", Msg: gen.Zero()})
			}
			call := reg.New("c18", &svc.Program{Steps: steps, Return: connect.NewError(connect.CodeInternal, errors.New(m))})
			hdr := http.Header{"Content-Type": {contentType(protocol, "proto", svc.ServerStream)}, wire.CallHeader: {call.ID}}
			rw := wire.NewRecorder()
			hs[svc.ServerStream].ServeHTTP(rw, wire.ServerRequest(context.Background(), "POST", svc.ServerStream.Path(), hdr, &wire.ScriptedBody{Data: body}, 2))
			reg.Drop(call)
			res := rw.Finish()
			if res.Status == 0 {
				run.Violation(key+"/no-response", fmt.Sprintf("ServeHTTP wrote no response for a handler failing with message %q", m), nil)
				return
			}
			raw := res.Trailer.Get("Grpc-Message")
			if protocol == "grpcweb" {
				raw = res.Header.Get("Grpc-Message") // trailers-only: no message was sent
				if sentFirst {
					raw = ""
					frames, _ := refcodec.ParseFrames(res.Body)
					for _, f := range frames {
						if f.Flags&0x80 != 0 {
							if t, err := refcodec.ParseWebTrailers(f.Payload); err == nil {
								raw = t.Get("Grpc-Message")
							}
						}
					}
				}
			}
			run.Count("grpc_message.checked", 1)
			if !refcodec.IsPrintableASCII(raw) {
				run.Violation(key+"/alphabet", fmt.Sprintf("Grpc-Message %q for error message %q contains bytes outside printable ASCII", raw, m), map[string]any{"message_hex": fmt.Sprintf("%x", m), "header": raw})
				return
			}
			if refcodec.ValidUTF8(m) {
				got := refcodec.PercentDecode(raw)
				if protocol == "grpcweb" && sentFirst {
					// in a trailer block the value travels as HTTP/1 header text:
					// blanks at its edges are not part of it
					got, m = strings.Trim(got, " \t"), strings.Trim(m, " \t")
				}
				if got != m {
					// an invalid-UTF-8 message may be replaced before encoding; valid ones must round-trip
					run.Violation(key+"/roundtrip", fmt.Sprintf("Grpc-Message %q decodes to %q, handler's message was %q", raw, got, m), nil)
					return
				}
			}
		}
	}
	run.Eval("grpc-message|all-single-bytes")
	run.Eval("grpc-message|random")
}

func c18Status(run *ev.Run) {
	reg := svc.NewRegistry()
	hs := svc.Handlers(reg)
	body := encMsg("proto", &gen.Msg{Id: 1})
	var codes []uint32
	for c := uint32(0); c <= 65535; c++ {
		codes = append(codes, c)
	}
	r := run.Rand("c18-status")
	for i := 0; i < run.Pick(20000, 100000); i++ {
		codes = append(codes, r.Uint32())
	}
	codes = append(codes, math.MaxUint32, 1<<31, 1<<31-1)
	parallel(16, 16, func(w int) {
		for i := w; i < len(codes); i += 16 {
			c := codes[i]
			call := reg.New("c18s", &svc.Program{Steps: []svc.Step{{Op: "recv"}}, Return: connect.NewError(connect.Code(c), errors.New("x"))})
			hdr := http.Header{"Content-Type": {"application/proto"}, wire.CallHeader: {call.ID}}
			rw := wire.NewRecorder()
			hs[svc.Unary].ServeHTTP(rw, wire.ServerRequest(context.Background(), "POST", svc.Unary.Path(), hdr, &wire.ScriptedBody{Data: body}, 2))
			reg.Drop(call)
			res := rw.Finish()
			run.Count("status.checked", 1)
			if res.Status < 400 || res.Status > 599 {
				run.Violation(fmt.Sprintf("c18/status/%d", c), fmt.Sprintf("error with code %d answered with HTTP %d; every code must map to a 4xx or 5xx status", c, res.Status), nil)
				return
			}
			if c >= 1 && c <= 16 && res.Status != refcodec.ConnectHTTPStatus(c) {
				run.Violation(fmt.Sprintf("c18/status-table/%d", c), fmt.Sprintf("code %s answered with HTTP %d, protocol table says %d", refcodec.CodeName(c), res.Status, refcodec.ConnectHTTPStatus(c)), nil)
			}
		}
	})
	run.Eval("status|0..65535")
	run.Eval("status|random-32-bit")
}
