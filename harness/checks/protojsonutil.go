package checks

import (
	"google.golang.org/protobuf/encoding/protojson"
	"google.golang.org/protobuf/proto"
)

func protojsonMarshal(m proto.Message) ([]byte, error) { return protojson.Marshal(m) }
