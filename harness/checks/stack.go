package checks

import "runtime"

func runtimeStack(buf []byte) int { return runtime.Stack(buf, true) }
