package connect

// Injected with `go test -overlay`; uses only identifiers pinned by the
// repository's own tests: grpcPercentEncode, grpcPercentDecode, newBufferPool.

import (
	"fmt"
	"math/rand"
	"os"
	"strconv"
	"testing"
)

func TestVerifC18(t *testing.T) {
	res := &verifInpkgResult{Counters: map[string]int64{}}
	defer res.write(t)
	seed, _ := strconv.ParseInt(os.Getenv("VERIF_SEED"), 10, 64)
	thorough := os.Getenv("VERIF_TIER") == "thorough"
	rng := rand.New(rand.NewSource(seed*31337 + 18))
	pool := newBufferPool()
	check := func(s string) {
		res.Evaluations++
		res.Counters["percent.roundtrips"]++
		var enc, dec string
		func() {
			defer func() {
				if r := recover(); r != nil {
					res.viol("c18/inpkg/percent/panic", fmt.Sprintf("percent-encoding %q panicked: %v", s, r), nil)
				}
			}()
			enc = grpcPercentEncode(pool, s)
			dec = grpcPercentDecode(pool, enc)
		}()
		for i := 0; i < len(enc); i++ {
			if enc[i] < 0x20 || enc[i] > 0x7e {
				res.viol("c18/inpkg/percent/alphabet", fmt.Sprintf("grpcPercentEncode(%q) = %q contains byte %#x outside printable ASCII", s, enc, enc[i]), nil)
				return
			}
		}
		if dec != s {
			res.viol("c18/inpkg/percent/roundtrip", fmt.Sprintf("decode(encode(%q)) = %q (encoded %q)", s, dec, enc), nil)
		}
	}
	decodeOnly := func(s string) {
		res.Evaluations++
		res.Counters["percent.decoder_inputs"]++
		func() {
			defer func() {
				if r := recover(); r != nil {
					res.viol("c18/inpkg/percent/decoder-panic", fmt.Sprintf("grpcPercentDecode(%q) panicked: %v", s, r), nil)
				}
			}()
			_ = grpcPercentDecode(pool, s)
		}()
	}
	maxLen := 2
	if thorough {
		maxLen = 3
	}
	var rec func(prefix []byte)
	rec = func(prefix []byte) {
		check(string(prefix))
		if len(prefix) <= 3 {
			decodeOnly(string(prefix))
		}
		if len(prefix) == maxLen {
			return
		}
		for c := 0; c < 256; c++ {
			rec(append(append([]byte{}, prefix...), byte(c)))
		}
	}
	rec(nil)
	// decoder over all strings of length 3 from a %-dense alphabet (quick) -
	// the full byte alphabet is covered by the thorough tier above
	alpha := []byte("%0123456789abcdefABCDEFgG \x00\x7f\xff~")
	for _, a := range alpha {
		for _, b := range alpha {
			for _, c := range alpha {
				decodeOnly(string([]byte{a, b, c}))
				for _, d := range alpha {
					decodeOnly(string([]byte{a, b, c, d}))
				}
			}
		}
	}
	for i := 0; i < 100000; i++ {
		n := rng.Intn(300)
		b := make([]byte, n)
		switch rng.Intn(3) {
		case 0:
			rng.Read(b)
		case 1:
			for j := range b {
				b[j] = alpha[rng.Intn(len(alpha))]
			}
		default:
			for j := range b {
				b[j] = byte(0x20 + rng.Intn(0x60))
			}
		}
		check(string(b))
		decodeOnly(string(b))
	}
	res.Samples = append(res.Samples, map[string]any{"input_hex": "617f", "encoded": grpcPercentEncode(pool, "a\x7f")}, map[string]any{"input": "100% é", "encoded": grpcPercentEncode(pool, "100% é")})
}
