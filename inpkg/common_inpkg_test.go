package connect

// Shared plumbing of the in-package monitors injected with `go test -overlay`.

import (
	"encoding/json"
	"os"
	"testing"
)

type verifInpkgResult struct {
	Evaluations int64            `json:"evaluations"`
	Counters    map[string]int64 `json:"counters"`
	Violations  []verifInpkgViol `json:"violations"`
	Samples     []any            `json:"samples"`
}

type verifInpkgViol struct {
	Key    string `json:"key"`
	What   string `json:"what"`
	Detail any    `json:"detail"`
}

func (r *verifInpkgResult) viol(key, what string, detail any) {
	if len(r.Violations) < 20 {
		r.Violations = append(r.Violations, verifInpkgViol{key, what, detail})
	}
}

func (r *verifInpkgResult) write(t *testing.T) {
	path := os.Getenv("VERIF_INPKG_OUT")
	if path == "" {
		t.Fatal("VERIF_INPKG_OUT not set")
	}
	b, _ := json.Marshal(r)
	if err := os.WriteFile(path, b, 0o644); err != nil {
		t.Fatal(err)
	}
}

