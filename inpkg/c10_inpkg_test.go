package connect

// Injected into the package with `go test -overlay` by /verif/run.sh (the
// repository is never written). Uses only identifiers that the repository's
// own in-package tests already pin: grpcEncodeTimeout, grpcParseTimeout,
// errNoTimeout.

import (
	"errors"
	"fmt"
	"math"
	"math/big"
	"math/rand"
	"os"
	"regexp"
	"strconv"
	"testing"
	"time"
)

var verifGRPCTimeoutRE = regexp.MustCompile(`^[0-9]{1,8}[HMSmun]$`)

func verifUnitNanos(c byte) *big.Int {
	switch c {
	case 'H':
		return big.NewInt(3600e9)
	case 'M':
		return big.NewInt(60e9)
	case 'S':
		return big.NewInt(1e9)
	case 'm':
		return big.NewInt(1e6)
	case 'u':
		return big.NewInt(1e3)
	}
	return big.NewInt(1)
}

func TestVerifC10(t *testing.T) {
	res := &verifInpkgResult{Counters: map[string]int64{}}
	defer res.write(t)
	seed, _ := strconv.ParseInt(os.Getenv("VERIF_SEED"), 10, 64)
	thorough := os.Getenv("VERIF_TIER") == "thorough"
	rng := rand.New(rand.NewSource(seed*7919 + 10))

	// ---- encoder: T <= d, d-T < d*1e-4, grammatical
	var durs []time.Duration
	units := []time.Duration{time.Nanosecond, time.Microsecond, time.Millisecond, time.Second, time.Minute, time.Hour}
	for _, u := range units {
		p := int64(1)
		for k := 0; k <= 18; k++ {
			for _, delta := range []int64{-1, 0, 1} {
				v := p + delta
				if v <= 0 {
					continue
				}
				if v > math.MaxInt64/int64(u) {
					continue
				}
				durs = append(durs, time.Duration(v)*u)
				// and one nanosecond around the unit multiple
				durs = append(durs, time.Duration(v)*u-1, time.Duration(v)*u+1)
			}
			if p > math.MaxInt64/10 {
				break
			}
			p *= 10
		}
	}
	durs = append(durs, math.MaxInt64, math.MaxInt64-1, 1, 2)
	nrand := 200000
	if thorough {
		nrand = 3000000
	}
	for i := 0; i < nrand; i++ {
		// log-uniform over (0, 2^63)
		bits := 1 + rng.Intn(63)
		v := rng.Int63() >> uint(63-bits)
		if v <= 0 {
			v = 1
		}
		durs = append(durs, time.Duration(v))
	}
	for i, d := range durs {
		if d <= 0 {
			continue
		}
		res.Evaluations++
		res.Counters["encode.durations"]++
		s, err := grpcEncodeTimeout(d)
		if err != nil {
			res.viol("c10/inpkg/encode/error", fmt.Sprintf("grpcEncodeTimeout(%d ns) failed: %v", int64(d), err), nil)
			continue
		}
		if !verifGRPCTimeoutRE.MatchString(s) {
			res.viol("c10/inpkg/encode/grammar", fmt.Sprintf("grpcEncodeTimeout(%d ns) = %q is outside the grammar (1-8 digits + unit)", int64(d), s), nil)
			continue
		}
		n, _ := strconv.ParseInt(s[:len(s)-1], 10, 64)
		T := new(big.Int).Mul(big.NewInt(n), verifUnitNanos(s[len(s)-1]))
		D := big.NewInt(int64(d))
		if T.Cmp(D) > 0 {
			res.viol("c10/inpkg/encode/longer", fmt.Sprintf("grpcEncodeTimeout(%d ns) = %q is longer than the time remaining", int64(d), s), nil)
			continue
		}
		// loss < 0.01%:  (D-T)*10000 < D
		loss := new(big.Int).Sub(D, T)
		if new(big.Int).Mul(loss, big.NewInt(10000)).Cmp(D) >= 0 {
			res.viol("c10/inpkg/encode/granularity", fmt.Sprintf("grpcEncodeTimeout(%d ns) = %q loses %s ns (>= 0.01%%)", int64(d), s, loss), nil)
			continue
		}
		// and it parses back to exactly T
		back, perr := grpcParseTimeout(s)
		if perr != nil || big.NewInt(int64(back)).Cmp(T) != 0 {
			res.viol("c10/inpkg/encode/roundtrip", fmt.Sprintf("grpcParseTimeout(%q) = %v, %v; want %s ns", s, back, perr, T), nil)
		}
		if i < 3 {
			res.Samples = append(res.Samples, map[string]any{"duration_ns": int64(d), "encoded": s})
		}
	}

	// ---- parser: every grammatical string is honoured exactly (unbounded if
	// beyond time.Duration), malformed ones are rejected
	check := func(s string) {
		res.Evaluations++
		d, err := grpcParseTimeout(s)
		if verifGRPCTimeoutRE.MatchString(s) {
			res.Counters["parse.grammatical"]++
			n, _ := strconv.ParseInt(s[:len(s)-1], 10, 64)
			T := new(big.Int).Mul(big.NewInt(n), verifUnitNanos(s[len(s)-1]))
			if T.IsInt64() {
				if err != nil || int64(d) != T.Int64() {
					res.viol("c10/inpkg/parse/not-exact", fmt.Sprintf("grpcParseTimeout(%q) = %v, %v; want exactly %s ns", s, d, err, T), nil)
				}
			} else if !errors.Is(err, errNoTimeout) {
				res.viol("c10/inpkg/parse/overflow", fmt.Sprintf("grpcParseTimeout(%q) = %v, %v; a timeout beyond the runtime's range must be unbounded", s, d, err), nil)
			}
			return
		}
		if s == "" {
			return
		}
		// don't-care: sign prefixes and over-long strings that are only
		// leading zeros
		body := s
		if len(body) > 0 && (body[0] == '+' || body[0] == '-') {
			return
		}
		if len(body) > 9 && regexp.MustCompile(`^0+[0-9]{1,8}[HMSmun]$`).MatchString(body) {
			return
		}
		res.Counters["parse.malformed"]++
		if err == nil || errors.Is(err, errNoTimeout) {
			res.viol("c10/inpkg/parse/accepted-malformed", fmt.Sprintf("grpcParseTimeout(%q) = %v, %v; malformed timeouts must be rejected", s, d, err), nil)
		}
	}
	unitsC := "HMSmun"
	for _, u := range unitsC {
		for digits := 1; digits <= 9; digits++ {
			lo := int64(math.Pow10(digits - 1))
			for _, v := range []int64{lo, lo + 1, lo*10 - 1, lo * 5} {
				check(fmt.Sprintf("%d%c", v, u))
			}
		}
	}
	// hours: sweep the overflow region densely (random 8-digit values)
	nh := 20000
	if thorough {
		nh = 500000
	}
	for i := 0; i < nh; i++ {
		check(fmt.Sprintf("%dH", 1+rng.Int63n(99999999)))
		check(fmt.Sprintf("%d%c", 1+rng.Int63n(99999999), unitsC[rng.Intn(6)]))
	}
	for _, s := range []string{"5", "S", "5s", "5X", "1.5S", " 5S", "5 S", "5S ", "123456789S", "999999999n", "1e3S", "0x5S", "5SS", "٣S", "５S", "5\x00S", "S5", "nn", "1_0S", "１S"} {
		check(s)
	}
	alphabet := "0123456789HMSmun +-.eE_x\x00"
	for i := 0; i < 100000; i++ {
		n := rng.Intn(12)
		b := make([]byte, n)
		for j := range b {
			if rng.Intn(20) == 0 {
				b[j] = byte(rng.Intn(256))
			} else {
				b[j] = alphabet[rng.Intn(len(alphabet))]
			}
		}
		check(string(b))
	}
}
