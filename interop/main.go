// Command interop uses grpc-go (v1.38.0, from the module cache) as an
// independent third-party gRPC peer of connect-go, in both directions.
package main

import (
	"context"
	"crypto/tls"
	"encoding/json"
	"errors"
	"fmt"
	"io"
	"net"
	"net/http"
	"net/http/httptest"
	"os"
	"time"

	connect "github.com/bufbuild/connect-go"
	"golang.org/x/net/http2"
	"google.golang.org/grpc"
	"google.golang.org/grpc/codes"
	"google.golang.org/grpc/credentials"
	_ "google.golang.org/grpc/encoding/gzip"
	"google.golang.org/grpc/metadata"
	"google.golang.org/grpc/status"
	"google.golang.org/protobuf/proto"
	"google.golang.org/protobuf/types/known/anypb"
	"google.golang.org/protobuf/types/known/wrapperspb"
	"verif.local/harness/gen"
	"verif.local/harness/svc"
	"verif.local/harness/wire"
)

type viol struct {
	Key    string `json:"key"`
	What   string `json:"what"`
	Detail any    `json:"detail"`
}

type result struct {
	Calls      int64            `json:"calls"`
	Counters   map[string]int64 `json:"counters"`
	Violations []viol           `json:"violations"`
}

var res = &result{Counters: map[string]int64{}}

func fail(key, what string, detail any) {
	if len(res.Violations) < 20 {
		res.Violations = append(res.Violations, viol{key, what, detail})
	}
}

func main() {
	defer func() {
		b, _ := json.Marshal(res)
		if p := os.Getenv("VERIF_INTEROP_OUT"); p != "" {
			_ = os.WriteFile(p, b, 0o644)
		} else {
			fmt.Println(string(b))
		}
	}()
	grpcClientToConnectHandler()
	connectClientToGRPCServer()
}

// ---------------------------------------------------------------------------
// grpc-go client -> connect-go handlers

func grpcClientToConnectHandler() {
	reg := svc.NewRegistry()
	hs := svc.Handlers(reg)
	srv := httptest.NewUnstartedServer(svc.Mux(hs))
	srv.EnableHTTP2 = true
	srv.StartTLS()
	defer srv.Close()
	creds := credentials.NewTLS(&tls.Config{InsecureSkipVerify: true}) //nolint:gosec
	for _, gz := range []bool{false, true} {
		opts := []grpc.DialOption{grpc.WithTransportCredentials(creds), grpc.WithBlock()}
		if gz {
			opts = append(opts, grpc.WithDefaultCallOptions(grpc.UseCompressor("gzip")))
		}
		dctx, cancel := context.WithTimeout(context.Background(), 20*time.Second)
		cc, err := grpc.DialContext(dctx, srv.Listener.Addr().String(), opts...)
		cancel()
		if err != nil {
			fail("c05/grpc-go/dial", "grpc-go could not connect to the connect-go server: "+err.Error(), nil)
			return
		}
		for i := 0; i < 12; i++ {
			failing := i%3 == 2
			for _, kind := range svc.Kinds {
				grpcGoCall(cc, reg, kind, failing, gz, i)
			}
		}
		cc.Close()
	}
}

func grpcGoCall(cc *grpc.ClientConn, reg *svc.Registry, kind svc.Kind, failing, gz bool, i int) {
	key := fmt.Sprintf("c05/grpc-go/client/%s/fail=%v/gzip=%v/i=%d", kind, failing, gz, i)
	sizes := []int{0, 10, 2000, 70000}
	var sends, replies []*gen.Msg
	n := 1 + i%3
	for k := 0; k < n; k++ {
		sends = append(sends, gen.New(uint64(100+k), sizes[(i+k)%4], true))
		replies = append(replies, gen.New(uint64(200+k), sizes[(i+k+1)%4], true))
	}
	if i%4 == 1 {
		sends[0], replies[0] = gen.Zero(), gen.Zero()
	}
	if kind == svc.Unary || kind == svc.ServerStream {
		sends = sends[:1]
	}
	if kind == svc.Unary || kind == svc.ClientStream {
		replies = replies[:1]
	}
	prog := &svc.Program{Header: http.Header{"X-Resp-H": {"h1", "h2"}, "X-Resp-Bin": {connect.EncodeBinaryHeader([]byte{0, 1, 255})}}, Trailer: http.Header{"X-Resp-T": {"t1"}}, Steps: []svc.Step{{Op: "recvall"}}}
	var wantErr *connect.Error
	if failing {
		wantErr = connect.NewError(connect.CodeResourceExhausted, errors.New("quota é 100% used"))
		d, _ := anypb.New(wrapperspb.String("detail"))
		wantErr.AddDetail(d)
		wantErr.Meta().Add("X-Err-Meta", "e1")
		prog.Return = wantErr
		if kind == svc.Unary || kind == svc.ClientStream {
			replies = nil
		} else {
			replies = replies[:len(replies)/2]
		}
	}
	for _, m := range replies {
		prog.Steps = append(prog.Steps, svc.Step{Op: "send", Msg: m})
	}
	call := reg.New("ggo", prog)
	defer reg.Drop(call)
	ctx, cancel := context.WithTimeout(context.Background(), 30*time.Second)
	defer cancel()
	ctx = metadata.AppendToOutgoingContext(ctx, "x-verif-call", call.ID, "x-req", "q1", "x-req", "q2", "x-req-bin", string([]byte{9, 8, 7}))
	var hdr, trl metadata.MD
	var got []*gen.Msg
	var err error
	desc := &grpc.StreamDesc{ClientStreams: kind == svc.ClientStream || kind == svc.Bidi, ServerStreams: kind == svc.ServerStream || kind == svc.Bidi}
	if kind == svc.Unary {
		out := &gen.Msg{}
		err = cc.Invoke(ctx, kind.Path(), sends[0], out, grpc.Header(&hdr), grpc.Trailer(&trl))
		if err == nil {
			got = append(got, out)
		}
	} else {
		var st grpc.ClientStream
		st, err = cc.NewStream(ctx, desc, kind.Path())
		if err == nil {
			for _, m := range sends {
				if e := st.SendMsg(m); e != nil {
					break
				}
			}
			_ = st.CloseSend()
			for {
				m := &gen.Msg{}
				if e := st.RecvMsg(m); e != nil {
					if e != io.EOF {
						err = e
					}
					break
				}
				got = append(got, m)
			}
			hdr, _ = st.Header()
			trl = st.Trailer()
		}
	}
	res.Calls++
	res.Counters["client_to_connect_handler"]++
	hl := call.Log
	detail := map[string]any{"kind": kind.String(), "failing": failing, "gzip": gz, "err": fmt.Sprint(err), "header": hdr, "trailer": trl}
	if same, why := gen.SameSeq(hl.Received, sends); !same {
		fail(key+"/request", "connect-go handler decoded different messages than grpc-go sent: "+why, detail)
		return
	}
	if v := hl.ReqHeader.Values("X-Req"); len(v) != 2 || v[0] != "q1" || v[1] != "q2" {
		fail(key+"/request-metadata", fmt.Sprintf("handler saw x-req = %q", v), detail)
		return
	}
	if b, e := connect.DecodeBinaryHeader(hl.ReqHeader.Get("X-Req-Bin")); e != nil || string(b) != string([]byte{9, 8, 7}) {
		fail(key+"/request-binary-metadata", fmt.Sprintf("handler could not decode grpc-go's binary metadata: %v %x", e, b), detail)
		return
	}
	if same, why := gen.SameSeq(got, replies); !same {
		fail(key+"/response", "grpc-go decoded different messages than the connect-go handler sent: "+why, detail)
		return
	}
	if failing {
		st, ok := status.FromError(err)
		if !ok || st.Code() != codes.ResourceExhausted || st.Message() != "quota é 100% used" {
			fail(key+"/status", fmt.Sprintf("grpc-go saw status %v, handler returned %v", err, wantErr), detail)
			return
		}
		if len(st.Details()) != 1 {
			fail(key+"/details", fmt.Sprintf("grpc-go saw %d details, handler attached 1", len(st.Details())), detail)
			return
		}
		if sv, ok := st.Details()[0].(*wrapperspb.StringValue); !ok || sv.Value != "detail" {
			fail(key+"/details", fmt.Sprintf("grpc-go decoded detail %v", st.Details()[0]), detail)
			return
		}
		if v := trl.Get("x-err-meta"); len(v) != 1 || v[0] != "e1" {
			if h := hdr.Get("x-err-meta"); len(h) != 1 {
				fail(key+"/error-metadata", fmt.Sprintf("grpc-go saw x-err-meta = %q / %q", v, h), detail)
				return
			}
		}
		return
	}
	if err != nil {
		fail(key+"/rejected", "grpc-go rejected a response written by connect-go: "+err.Error(), detail)
		return
	}
	all := func(k string) []string { return append(append([]string{}, hdr.Get(k)...), trl.Get(k)...) }
	if v := all("x-resp-h"); len(v) != 2 || v[0] != "h1" || v[1] != "h2" {
		fail(key+"/response-metadata", fmt.Sprintf("grpc-go saw x-resp-h = %q", v), detail)
		return
	}
	if v := all("x-resp-t"); len(v) != 1 || v[0] != "t1" {
		fail(key+"/response-trailer", fmt.Sprintf("grpc-go saw x-resp-t = %q", v), detail)
		return
	}
	if v := all("x-resp-bin"); len(v) != 1 || v[0] != string([]byte{0, 1, 255}) {
		fail(key+"/response-binary-metadata", fmt.Sprintf("grpc-go decoded x-resp-bin = %q", v), detail)
	}
}

// ---------------------------------------------------------------------------
// connect-go gRPC client -> grpc-go server

type scenario struct {
	replies []*gen.Msg
	fail    bool
}

func connectClientToGRPCServer() {
	lis, err := net.Listen("tcp", "127.0.0.1:0")
	if err != nil {
		fail("c05/grpc-go/listen", err.Error(), nil)
		return
	}
	received := make(chan []*gen.Msg, 64)
	reqMD := make(chan metadata.MD, 64)
	handle := func(srvAny interface{}, stream grpc.ServerStream) error {
		md, _ := metadata.FromIncomingContext(stream.Context())
		var in []*gen.Msg
		for {
			m := &gen.Msg{}
			if err := stream.RecvMsg(m); err != nil {
				break
			}
			in = append(in, m)
		}
		received <- in
		reqMD <- md
		_ = stream.SetHeader(metadata.Pairs("x-resp-h", "h1", "x-resp-h", "h2", "x-resp-bin", string([]byte{0, 1, 255})))
		stream.SetTrailer(metadata.Pairs("x-resp-t", "t1"))
		failing := len(md.Get("x-fail")) > 0
		n := 1
		fmt.Sscanf(firstOr(md.Get("x-replies"), "1"), "%d", &n)
		if failing {
			n = n / 2
		}
		for k := 0; k < n; k++ {
			if err := stream.SendMsg(gen.New(uint64(200+k), []int{0, 10, 2000, 70000}[k%4], true)); err != nil {
				return err
			}
		}
		if failing {
			st := status.New(codes.ResourceExhausted, "quota é 100% used")
			st, _ = st.WithDetails(wrapperspb.String("detail"))
			return st.Err()
		}
		return nil
	}
	gs := grpc.NewServer(grpc.UnknownServiceHandler(func(srv interface{}, stream grpc.ServerStream) error { return handle(srv, stream) }))
	go func() { _ = gs.Serve(lis) }()
	defer gs.Stop()
	h2c := &http.Client{Transport: &http2.Transport{AllowHTTP: true, DialTLS: func(network, addr string, _ *tls.Config) (net.Conn, error) {
		return net.Dial(network, addr)
	}}}
	base := "http://" + lis.Addr().String()
	for _, gz := range []bool{false, true} {
		opts := []connect.ClientOption{connect.WithGRPC()}
		if gz {
			opts = append(opts, connect.WithSendGzip())
		}
		cs := svc.NewClientSet(h2c, base, opts...)
		for i := 0; i < 12; i++ {
			failing := i%3 == 2
			for _, kind := range svc.Kinds {
				key := fmt.Sprintf("c05/grpc-go/server/%s/fail=%v/gzip=%v/i=%d", kind, failing, gz, i)
				n := 1 + i%3
				var sends []*gen.Msg
				for k := 0; k < n; k++ {
					sends = append(sends, gen.New(uint64(100+k), []int{0, 10, 2000, 70000}[(i+k)%4], true))
				}
				if kind == svc.Unary || kind == svc.ServerStream {
					sends = sends[:1]
				}
				nrep := n
				if kind == svc.Unary || kind == svc.ClientStream {
					nrep = 1
				}
				hdr := http.Header{"X-Replies": {fmt.Sprint(nrep)}, "X-Req": {"q1", "q2"}, "X-Req-Bin": {connect.EncodeBinaryHeader([]byte{9, 8, 7})}}
				if failing {
					hdr.Set("X-Fail", "1")
				}
				ctx, cancel := context.WithTimeout(context.Background(), 30*time.Second)
				cl := cs.Do(ctx, kind, "x", hdr, sends)
				cancel()
				res.Calls++
				res.Counters["connect_client_to_grpc_go_server"]++
				var in []*gen.Msg
				var md metadata.MD
				select {
				case in = <-received:
					md = <-reqMD
				case <-time.After(10 * time.Second):
					fail(key+"/not-served", "grpc-go server did not see the call: "+fmt.Sprint(cl.Err), nil)
					continue
				}
				detail := map[string]any{"kind": kind.String(), "failing": failing, "gzip": gz, "client_err": fmt.Sprint(cl.Err), "md": md}
				if same, why := gen.SameSeq(in, sends); !same {
					fail(key+"/request", "grpc-go decoded different messages than the connect-go client sent: "+why, detail)
					continue
				}
				if v := md.Get("x-req"); len(v) != 2 || v[0] != "q1" || v[1] != "q2" {
					fail(key+"/request-metadata", fmt.Sprintf("grpc-go saw x-req = %q", v), detail)
					continue
				}
				if v := md.Get("x-req-bin"); len(v) != 1 || v[0] != string([]byte{9, 8, 7}) {
					fail(key+"/request-binary-metadata", fmt.Sprintf("grpc-go decoded x-req-bin = %q", v), detail)
					continue
				}
				wantReplies := nrep
				if failing {
					wantReplies = nrep / 2
					if kind == svc.Unary || kind == svc.ClientStream {
						wantReplies = 0
					}
				}
				var want []*gen.Msg
				for k := 0; k < wantReplies; k++ {
					want = append(want, gen.New(uint64(200+k), []int{0, 10, 2000, 70000}[k%4], true))
				}
				if kind == svc.Unary || kind == svc.ClientStream {
					if failing {
						want = nil
					}
				}
				if same, why := gen.SameSeq(cl.Msgs, want); !same {
					fail(key+"/response", "connect-go client decoded different messages than grpc-go sent: "+why, detail)
					continue
				}
				if failing {
					var ce *connect.Error
					if !errors.As(cl.Err, &ce) || ce.Code() != connect.CodeResourceExhausted || ce.Message() != "quota é 100% used" || len(ce.Details()) != 1 {
						fail(key+"/status", fmt.Sprintf("connect-go client saw %v, grpc-go returned resource_exhausted with one detail", cl.Err), detail)
						continue
					}
					m, err := ce.Details()[0].(*anypb.Any).UnmarshalNew()
					if err != nil || !proto.Equal(m, wrapperspb.String("detail")) {
						fail(key+"/details", "connect-go client decoded a different detail", detail)
					}
					continue
				}
				if cl.Err != nil {
					fail(key+"/rejected", "connect-go client rejected a response written by grpc-go: "+cl.Err.Error(), detail)
					continue
				}
				all := func(k string) []string {
					return append(append([]string{}, cl.Header.Values(k)...), cl.Trailer.Values(k)...)
				}
				if v := all("X-Resp-H"); len(v) != 2 || v[0] != "h1" || v[1] != "h2" {
					fail(key+"/response-metadata", fmt.Sprintf("client saw X-Resp-H = %q", v), detail)
					continue
				}
				if v := all("X-Resp-T"); len(v) != 1 || v[0] != "t1" {
					fail(key+"/response-trailer", fmt.Sprintf("client saw X-Resp-T = %q", v), detail)
					continue
				}
				if b, e := connect.DecodeBinaryHeader(firstOr(all("X-Resp-Bin"), "")); e != nil || string(b) != string([]byte{0, 1, 255}) {
					fail(key+"/response-binary-metadata", fmt.Sprintf("client could not decode grpc-go's binary metadata: %v", e), detail)
				}
			}
		}
	}
	_ = wire.CallHeader
}

func firstOr(v []string, d string) string {
	if len(v) > 0 {
		return v[0]
	}
	return d
}
