module verif.local/interop

go 1.18

require (
	github.com/bufbuild/connect-go v0.0.0
	golang.org/x/net v0.34.0
	google.golang.org/grpc v1.38.0
	google.golang.org/protobuf v1.28.0
	verif.local/harness v0.0.0
)

require (
	github.com/golang/protobuf v1.5.2 // indirect
	golang.org/x/sys v0.29.0 // indirect
	golang.org/x/text v0.21.0 // indirect
	google.golang.org/genproto v0.0.0-20200526211855-cb27e3aa2013 // indirect
)

replace (
	github.com/bufbuild/connect-go => /repo
	github.com/golang/protobuf => github.com/golang/protobuf v1.5.2
	golang.org/x/crypto => golang.org/x/crypto v0.0.0-20210921155107-089bfa567519
	golang.org/x/net => golang.org/x/net v0.34.0
	golang.org/x/sys => golang.org/x/sys v0.29.0
	golang.org/x/term => golang.org/x/term v0.6.0
	golang.org/x/text => golang.org/x/text v0.8.0
	google.golang.org/genproto => google.golang.org/genproto v0.0.0-20210602131652-f16073e35f0c
	verif.local/harness => ../harness
)
