#!/bin/bash
# hunt.sh <seeds...>: repeated thorough runs of the schedule-sensitive checks.
for seed in "$@"; do
  for id in C01 C13 C14 C15 C08; do
    t0=$(date +%s); out=$(VERIF_SEED=$seed timeout 7200 ./run.sh $id thorough 2>&1); rc=$?; t1=$(date +%s)
    echo "seed=$seed $id thorough exit=$rc wall=$((t1-t0))s $(echo "$out" | grep -a "^$id thorough" | head -1)"
    [ $rc -ne 0 ] && echo "$out" | grep -a -A2 '^VIOLATION' | head -16
  done
done
