#!/bin/bash
# Offline setup: warm the Go build cache for the harness (normal and -race).
set -u
HERE="$(cd "$(dirname "$0")" && pwd)"
export GOFLAGS=-mod=mod GOPROXY=off GOSUMDB=off GOTOOLCHAIN=local
mkdir -p "$HERE/bin" "$HERE/evidence" "$HERE/replays" "$HERE/logs"
cd "$HERE/harness" || exit 1
go build -tags verif -o "$HERE/bin/.warm" ./cmd/check || exit 1
go build -race -tags verif -o "$HERE/bin/.warm.race" ./cmd/check || exit 1
( cd "$HERE/interop" && go build -tags verif -o "$HERE/bin/.warm.interop" . ) || echo "note: grpc-go interop module did not build; C05 will count it inconclusive"
rm -f "$HERE/bin/.warm" "$HERE/bin/.warm.race" "$HERE/bin/.warm.interop"
echo "setup ok"
