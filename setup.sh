#!/bin/bash
# Offline setup: warm the Go build cache for the harness (normal and -race).
set -u
HERE="$(cd "$(dirname "$0")" && pwd)"
export GOFLAGS=-mod=mod GOPROXY=off GOSUMDB=off GOTOOLCHAIN=local
mkdir -p "$HERE/bin" "$HERE/evidence" "$HERE/replays" "$HERE/logs"
cd "$HERE/harness" || exit 1
go build -tags verif -o "$HERE/bin/.warm" ./cmd/check || exit 1
go build -race -tags verif -o "$HERE/bin/.warm.race" ./cmd/check || exit 1
rm -f "$HERE/bin/.warm" "$HERE/bin/.warm.race"
echo "setup ok"
